"""Shared machinery of the rotation checks C05 C06 C07 C09 (one model, one harness, four oracles).

A *case* = configuration (L, N, options, timestamp granularity, file name, start time) + a list of
operations (w = write a message of some QtMsgType - the sink is called directly, so a fatal-typed record does
not abort -, adv = move the virtual wall clock forward, restart = destroy and re-create the sink, put =
somebody else creates a file).  Each case is executed on the real
RotatingFileSink (build/h_rotate, virtual clock) and on the extracted Coq model (build/m_rotate);
after every operation both print the directory; the listings must be identical.  From the
IMPLEMENTATION's listings the ghost data of the model (which records each file holds, which files
disappeared, in which order) is reconstructed and the extracted boolean oracles prop_c05_b ...
prop_c09_b are evaluated on it (build/m_rotate oracle).
Outside the model (oracle / direct expectation only) a few deterministic probes: a second sink object on the same
path (w2), sinks on OTHER log files of the same directory and process (wo: sink objects must share nothing), sparse
active files near INT_MAX and beyond 2 GiB (size and daily rotation), a plain file with a .gz twin of the same date
and index (model + oracle), a look-alike with a trailing newline, a record still buffered at midnight (F21), two sinks with the
same complete base name and different suffixes / file-count limits (wo ... N2), a refused rename (mkdir: a sub-directory named like
the next rotated file; C05), a message object older than its send across midnight on an empty log (C09), a daylight-saving zone
(C09).  A write op is ('w', shown[, type[, raw[, age]]]): `raw` present = the message has a FORMATTED text `shown` (possibly empty
but set) over the raw text `raw`; absent / None = no formatted text, the raw text is shown (model: WriteMsg / shown_text)."""
import gzip, json, os, re, shutil, tempfile, time
from concurrent.futures import ThreadPoolExecutor
import vlib

DAY = 86400000
BIT = {'C05': 0, 'C06': 1, 'C07': 2, 'C09': 3}
ENV = {'LC_ALL': 'C.UTF-8', 'LANG': 'C.UTF-8', 'TZ': 'UTC'}
LOCALES = ['C.UTF-8', 'fa_IR.UTF-8', 'ar_EG.UTF-8']     # the last two have native digits (they need not be installed: Qt reads the names)


def env_for(loc):
    loc = loc or 'C.UTF-8'
    return {'LC_ALL': loc, 'LANG': loc, 'LC_TIME': loc, 'LC_NUMERIC': loc, 'LC_CTYPE': loc, 'TZ': 'UTC'}
INT_MAX = 2147483647


def hx(b):
    return b.hex() if b else '-'


def unhx(s):
    return b'' if s == '-' else bytes.fromhex(s)


# A payload is the UTF-8 form of the message TEXT.  A text with an UNPAIRED surrogate (a QString can hold one, UTF-8 cannot)
# is carried as its "surrogatepass" encoding: ED A0..BF xx per lone surrogate - a sequence valid UTF-8 never contains.
_SURR = re.compile(rb'\xed[\xa0-\xbf][\x80-\xbf]')


def shown(p):
    """the UTF-8 rendering Qt produces for the text (toUtf8 = toLocal8Bit in a UTF-8 locale): '?' per unpaired surrogate"""
    return _SURR.sub(b'?', p) if p and b'\xed' in p else p


def hx_text(p, for_impl):
    """the protocol token of a message text: hex of the UTF-8 bytes; for the harness a text with unpaired surrogates travels
    as 'u' + hex of its UTF-16BE code units (the model driver gets what Qt renders, see shown)"""
    if p and b'\xed' in p and _SURR.search(p):
        if not for_impl:
            return hx(shown(p))
        try:
            return 'u' + p.decode('utf-8', 'surrogatepass').encode('utf-16-be', 'surrogatepass').hex()
        except UnicodeError:
            return hx(p)
    return hx(p)


# ------------------------------------------------------------------------------------ names
class Names:
    def __init__(self, base, suffix):
        self.base, self.suffix = base, suffix
        self.active = base + (b'.' + suffix if suffix else b'')
        sfx = (rb'\.' + re.escape(suffix)) if suffix else b''
        self.re = re.compile(re.escape(base) + rb'\.(\d{4})-(\d{2})-(\d{2})\.(\d+)' + sfx + rb'(\.gz)?', re.ASCII)

    def parse(self, name):
        m = self.re.fullmatch(name)
        if not m:
            return None
        v = int(m.group(4))
        return {'y': int(m.group(1)), 'm': int(m.group(2)), 'd': int(m.group(3)), 'digits': m.group(4),
                'idx': v if v <= INT_MAX else 0, 'gz': bool(m.group(5)),
                'date': m.group(1) + b'-' + m.group(2) + b'-' + m.group(3)}

    def rotated(self, date, idx, gz=False):
        return self.base + b'.' + date + b'.' + idx + (b'.' + self.suffix if self.suffix else b'') + (b'.gz' if gz else b'')

    def lookalikes(self):
        """names that look like rotated files of this sink but are NOT (the recogniser must reject them)"""
        b, s = self.base, (b'.' + self.suffix if self.suffix else b'')
        out = [self.active + b'.bak', b + b'.2024-01-01.x' + s, b'x' + b + b'.2024-01-01.1' + s,
               b + b'.2024-01-01.1' + s + b'.gz.tmp', b + b'.2024-01-01.1' + s + b'.gzz', b + b'.2024-1-01.1' + s,
               b + b'.2024-01-01.' + s, b'old-' + b + b'.2024-01-01.1' + s, b + b'.2024-01-01.1' + s + b'.gz.old',
               b + b'.2024-01-01.1' + s + b'x', b + b'.20240-01-01.1' + s, b + b'-2024-01-01.1' + s,
               b + b'.2024-01-01.-1' + s, b + b'.2024-01-01.1.2' + s, b + b'.2024.01.01.1' + s]
        if b'.' in b:
            out.append(b.replace(b'.', b'X') + b'.2024-01-01.1' + s)       # an unescaped '.' would match this
            out.append(b.replace(b'.', b'-') + b'.2023-01-01.7' + s + b'.gz')
        if b'.' in b.strip(b'.'):
            first = b[:b.index(b'.', 1)]                                    # the rotated files of the sibling sink <first component>.<suffix>
            out += [first + b'.2020-01-01.1' + s, first + b'.2020-01-01.2' + s + b'.gz']
        for v in (b.upper(), b.capitalize(), b.swapcase()):                 # same name in another letter case (case-sensitive file system)
            if v != b:
                out.append(v + b'.2020-01-01.1' + s)
        if self.suffix and self.suffix.upper() != self.suffix:
            out.append(b + b'.2020-01-01.3.' + self.suffix.upper())
            out.append(b + b'.2020-01-01.4' + s + b'.GZ')
        if self.suffix:
            out.append(b + b'.2024-01-01.1')                                # the scheme of a suffix-less sink
            out.append(b + b'.2024-01-01.1X' + self.suffix)
        return [n for n in out if self.parse(n) is None and n != self.active]


def civil(days):
    z = days + 719468
    era = z // 146097
    doe = z - era * 146097
    yoe = (doe - doe // 1460 + doe // 36524 - doe // 146096) // 365
    y = yoe + era * 400
    doy = doe - (365 * yoe + yoe // 4 - yoe // 100)
    mp = (5 * doy + 2) // 153
    d = doy - (153 * mp + 2) // 5 + 1
    m = mp + 3 if mp < 10 else mp - 9
    return (y + 1 if m <= 2 else y, m, d)


def datestr(days):
    return ('%04d-%02d-%02d' % civil(days)).encode()


# ------------------------------------------------------------------------------------ generator
MTYPES = [3, 3, 3, 0, 1, 2]          # a third of the typed records: fatal most often (the one a sink is tempted to special-case)
MTYPE_NAME = {0: 'debug', 1: 'warning', 2: 'critical', 3: 'fatal', 4: 'info'}
L_SET = [1, 2, 8, 64, 4096, 12, 16, 30]
N_SET = [-1, 0, 1, 2, 3, 5]


def gen_case(rng, thorough=False):
    L = rng.choice(L_SET + [8, 16, 30, 0] if rng.random() < 0.9 else [0, 3, 5, 100])
    N = rng.choice(N_SET + [2, 3, 3])
    opts = rng.randrange(8)
    gran = rng.choice([1, 1000, 1000] + ([2000] if thorough else []))
    # '.', '+' are regex metacharacters, '[', ']', '?', '*' glob (QDir name filter) ones: all literal for the sink
    # hidden log files (.app.log; .hidden = empty base name + suffix "hidden") and QString::arg place markers in the name
    base, suffix = rng.choice([(b'my.app', b'log')] * 5 + [(b'applog', b''), (b'a+b', b'txt'), (b'svc[2]', b'log'), (b'q?x*', b'txt'),
                                                             (b'.app', b'log'), (b'', b'hidden'), (b'a%3b', b'log'), (b'x%1.%2', b'log')])
    names = Names(base, suffix)
    # process time zone, minutes east of UTC (POSIX TZ strings; the virtual clock itself is UTC)
    tz = rng.choice([0, 0, 0, 540, -660, 330, -210, 765])
    locale = rng.choice(LOCALES + ['C.UTF-8'])          # the child's LC_ALL / LANG / LC_TIME / LC_NUMERIC; the model is locale-independent
    off = tz * 60000
    day0 = 19675 + rng.randrange(0, 400)
    t0 = day0 * DAY + rng.choice([0, 1, 43200000, DAY - 1500, DAY - 1, rng.randrange(DAY), rng.randrange(DAY),
                                  -off % DAY, -off % DAY - 1500, -off % DAY + 3600000, (-off % DAY) // 2])
    ops = []
    t = t0
    # files of an earlier life of the same sink: the indices 8, 9 / 98, 99 are about to be crossed
    if rng.random() < 0.4:
        seeds = []
        for idxs, when in rng.sample([([b'8', b'9'], 0), ([b'98', b'99'], 0), ([b'1', b'2'], 1), ([b'3'], 7),
                                      ([b'007'], 0), ([b'9'], 0), ([b'99'], 1), ([b'4294967297'], 2)], rng.choice([1, 1, 2])):
            for ix in idxs:
                seeds.append((datestr((t0 + off) // DAY - when), ix, rng.random() < 0.3))
        seen, uniq = set(), []
        for s in seeds:
            p = names.parse(names.rotated(*s))
            if (p['date'], p['idx']) not in seen:
                seen.add((p['date'], p['idx'])); uniq.append(s)
        # an earlier life of the sink produced them in rotation order = (date, index, name) order
        for nm_ in sorted((names.rotated(*s) for s in uniq), key=lambda n: (names.parse(n)['date'], names.parse(n)['idx'], n)):
            ops.append(('seed', nm_))
    # a non-UTF-8 8-bit codec for the process (QTextCodec::setCodecForLocale): what is written is the local 8-bit form
    codec = rng.choice([None] * 11 + ['ISO-8859-1', 'windows-1251'])
    # 'quiet' = nobody looks at the directory (and nothing flushes the sink) until the very end
    quiet = codec is None and rng.random() < 0.08
    if quiet:
        L, N, opts = 0, rng.choice([-1, 0]), rng.choice([2, 3, 6, 7])
        ops = []
    nops = rng.randint(4, 40 if not thorough else 60)
    if L >= 1000:
        nops = min(nops, 14)          # 4 KiB records: keep the byte-wise oracle cheap
    style = rng.choice(['mixed', 'mixed', 'burst', 'days']) if not quiet else 'days'
    la = names.lookalikes()
    for _ in range(nops):
        x = rng.random()
        if style == 'burst':
            x = x * 0.8
        if x < 0.68:
            r = rng.random()
            if L > 0 and r < 0.55:
                n = max(0, L + rng.choice([-2, -1, 0, 1, 2, -3, -L // 2]) - 1)      # record = payload + newline
            elif r < 0.62:
                n = 0
            elif r < 0.7:
                n = L + rng.choice([5, 10, 40])
            else:
                n = rng.choice([1, 2, 3, 5, 7, 11, 13])
            if n > 6000:
                n = 6000
            kind = rng.random()
            if codec:
                kind = 1.0
            if codec and rng.random() < 0.7 and n >= 2:
                # characters whose UTF-8 and local 8-bit lengths differ (1 unit each in UTF-16; '?' when not representable)
                txt = ''.join(rng.choice('éüж€y') for _ in range(n))
                while len(txt.encode()) > n:
                    txt = txt[:-1]
                p = txt.encode() + b'y' * (n - len(txt.encode()))
            elif (opts & 4) and kind < 0.25 and n >= 3:
                p = (b'a\rb\r\nc' + b'\r' * n)[:n - 1] + b'z'               # lone CR and CRLF inside a record (compression re-reads the file)
            elif kind < 0.1 and n >= 4:
                unit = 'é€😀'.encode()                                   # multi-byte UTF-8
                p = (unit * (n // len(unit) + 1))
                p = p[:n]
                while True:                                                  # cut at a character boundary
                    try:
                        p.decode(); break
                    except UnicodeDecodeError:
                        p = p[:-1]
                p = p + b'y' * (n - len(p))
            elif kind < 0.17 and n >= 3:
                p = b'y' * (n // 2) + b'\n' + b'z' * (n - n // 2 - 1)         # a message that contains a newline
            elif kind < 0.27 and n >= 1:
                # a message whose LAST byte is a newline (n = 1: a lone newline): the record still gets its own terminator
                p = (b'n%d.' % len([o for o in ops if o[0] == 'w']) + b'y' * n)[:n - 1] + b'\n'
            elif 0.94 <= kind < 0.97 and n >= 2:
                # a TEXT with unpaired surrogates (lone low, or lone high before something that is not a low one; never the LAST
                # character of the text: Qt 5.15's stateful local-8-bit encoder drops an unpaired surrogate that ends the text while
                # toUtf8() counts one byte for it - measured, outside the model): Qt renders each as one byte '?', and that is what
                # the record is (n counts the rendering)
                chars = list((('s%d.' % len([o for o in ops if o[0] == 'w'])) + 'y' * n)[:n])
                for pos in sorted(rng.sample(range(n - 1), min(n - 1, rng.choice([1, 1, 2, 3]))), reverse=True):
                    low = rng.random() < 0.7 or '\udc00' <= chars[pos + 1] <= '\udfff'
                    chars[pos] = rng.choice('\udc00\udfff\udd37') if low else rng.choice('\ud800\udbff\ud83d')
                p = ''.join(chars).encode('utf-8', 'surrogatepass')
            elif 0.97 <= kind < 1.0 and n >= 1:
                # U+0000 inside the text (start / middle / end / every second byte; n = 1: a lone NUL): a byte like any other
                p = bytearray((b'z%d.' % len([o for o in ops if o[0] == 'w']) + b'y' * n)[:n])
                where = rng.choice(['start', 'middle', 'end', 'several'])
                for pos in {'start': [0], 'middle': [n // 2], 'end': [n - 1], 'several': list(range(0, n, 2))}[where]:
                    p[pos] = 0
                p = bytes(p)
            else:
                tag = b'r%d.' % len([o for o in ops if o[0] == 'w'])
                p = (tag + b'y' * n)[:n]
            # the QtMsgType of the record (0 debug 1 warning 2 critical 3 fatal 4 info): the sink must not look at it; the
            # third field is only present when the type is not info (older corpus cases have two fields)
            ty = rng.choice(MTYPES) if rng.random() < 0.3 else 4
            # the formatted / raw distinction of LogMessage (fourth field = the raw text of a message whose FORMATTED text
            # - the second field, possibly empty-but-set - is what is shown; absent: no formatted text, the raw text is shown)
            fr = rng.random()
            if fr < 0.07:
                ops.append(('w', b'', ty, p if p else b'raw text, not shown'))      # formatted text "" (set, not null) over a non-empty raw text
            elif fr < 0.12:
                ops.append(('w', p, ty, rng.choice([b'', b'RAW-TEXT-NOT-SHOWN', p + b'x', p[:-1]])))
            else:
                ops.append(('w', p) if ty == 4 else ('w', p, ty))
        elif x < 0.82:
            dt = rng.choice([0, 1, 5, 999, 1000, 1001, DAY, DAY, 2 * DAY, 3 * DAY, DAY - 1,
                             DAY - t % DAY, DAY - t % DAY - 1, DAY - (t + off) % DAY, DAY - (t + off) % DAY - 1, 30 * DAY]
                            if style != 'burst' else [0, 1, 999])
            if style == 'days' and rng.random() < 0.5:
                dt = rng.choice([DAY, 2 * DAY, DAY - t % DAY, DAY - (t + off) % DAY])
            t += dt
            ops.append(('adv', dt))
        elif x < 0.91:
            if rng.random() < 0.5:                                           # the active file keeps an older stamp
                dt = rng.choice([1, DAY, 2 * DAY, DAY - t % DAY, DAY - (t + off) % DAY])
                t += dt
                ops.append(('adv', dt))
            if not quiet:
                ops.append(('restart',))
        elif not quiet:
            ops.append(('put', rng.choice(la), rng.choice([b'', b'foreign\n', b'\x00\xff'])))
    if quiet:
        ops.append(('end',))
    # round 8: the sink object is obtained through the fluent front end SimplePipeline::sendToFile(path, L, N, options), which chooses
    # between RotatingFileSink and the plain FileSink (the boundary configurations daily-only / startup-only / size-only matter)
    front = 1 if rng.random() < 0.25 and not any(o[0] in ('w2',) for o in ops) else 0
    return {'L': L, 'N': N, 'opts': opts, 'gran': gran, 'base': base, 'suffix': suffix, 't0': t0, 'tz': tz, 'locale': locale, 'codec': codec, 'quiet': quiet, 'ops': ops,
            'front': front}


# ------------------------------------------------------------------------------------ protocol
def seed_content(case, k, name):
    return b'seed %d of %s\n' % (k, name[-24:])


def lines_of(case, for_impl):
    ls = ['case %d %d %d %d %s %s %d %d %s %d' % (case['L'], case['N'], case['opts'], case['gran'], hx(case['base']),
                                                  hx(case['suffix']), case['t0'], case.get('tz', 0), case.get('codec') or '-',
                                                  1 if case.get('quiet') else 0)
          + (' ' + hx(case['tzname'].encode()) if case.get('tzname') else (' -' if for_impl and case.get('front') else ''))
          + (' 1' if for_impl and case.get('front') else '')]
    k = 0
    for o in case['ops']:
        if o[0] in ('w', 'w2'):
            if len(o) > 3:          # long form: raw text, type, formatted-text mode, formatted text, age of the message object
                raw = o[3]
                age = o[4] if len(o) > 4 else 0
                ls.append('%s %s %d %d %s' % (o[0], hx_text(o[1] if raw is None else raw, for_impl), o[2], 0 if raw is None else 1,
                                             '-' if raw is None else hx_text(o[1], for_impl)) + (' %d' % age if age and for_impl else ''))
            else:
                ls.append(o[0] + ' ' + hx_text(o[1], for_impl) + (' %d' % o[2] if len(o) > 2 else ''))
        elif o[0] == 'wo':
            ls.append('wo %s %s' % (hx(o[1]), hx(o[2])) + (' %d' % o[3] if len(o) > 3 else '') + (' %d' % o[4] if len(o) > 4 else ''))
        elif o[0] == 'mkdir':
            ls.append('mkdir %s' % hx(o[1]))
        elif o[0] == 'sparse':
            ls.append('sparse %d' % o[1])
        elif o[0] == 'end':
            ls.append('end')
        elif o[0] == 'adv':
            ls.append('adv %d' % o[1])
        elif o[0] == 'restart':
            ls.append('restart')
        elif o[0] == 'seed':
            c = seed_content(case, k, o[1]); k += 1
            if for_impl and o[1].endswith(b'.gz'):
                c = gzip.compress(c, mtime=0)
            ls.append('put %s %s' % (hx(o[1]), hx(c)))
        elif o[0] == 'put':
            ls.append('put %s %s' % (hx(o[1]), hx(o[2])))
    return ls


def written_bytes(case, payload):
    """the bytes IODeviceSink::send writes for a message: toLocal8Bit() + newline"""
    if case.get('codec'):
        enc = {'ISO-8859-1': 'latin-1', 'windows-1251': 'cp1251'}[case['codec']]
        return payload.decode('utf-8').encode(enc, errors='replace') + b'\n'
    return shown(payload) + b'\n'


def parse_listing(line, names, decode):
    if line.strip() == '-':
        return None                               # a quiet case: nobody looked
    out = []
    for it in line.split(';'):
        if not it:
            continue
        n, mt, c = it.split(':')
        n = unhx(n)
        c = (b'@' + c[1:].encode()) if c.startswith('@') else unhx(c)      # @<size>: a huge file, content not read
        if decode and (names.parse(n) or {}).get('gz'):        # a compressed file of the scheme (a suffix may itself be "gz")
            try:
                c = gzip.decompress(c)            # independent decoder, never Qt
            except Exception as e:
                c = b'<<not gzip: %s>>' % str(e).encode()[:40] + c
        out.append((n, int(mt), c))
    return sorted(out)


def run_exec(exe, cases, args=(), chunks=4, locales=None):
    """run all cases through exe (one process per chunk); args == ('IMPL',) -> the harness (gets a scratch
    directory as its argument).  returns (list of output lines per case, [(rc, stderr) per process])"""
    idx = list(range(len(cases)))
    res = [None] * len(cases)
    if locales is None:
        groups = {'C.UTF-8': idx}
    else:                           # the locale is a property of the child process: one process group per locale
        groups = {}
        for i in idx:
            groups.setdefault(locales[i] or 'C.UTF-8', []).append(i)
    parts = []
    for loc, members in groups.items():
        k = max(1, min(chunks, len(members) // 8)) if len(groups) > 1 else (chunks if len(cases) >= 8 else 1)
        parts += [(loc, members[i::k]) for i in range(k)]

    def work(lp):
        loc, part = lp
        lines = []
        for i in part:
            lines += cases[i]
        if not lines:
            return 0, ''
        if args == ('IMPL',):
            tmp = tempfile.mkdtemp(prefix='rot_', dir='/tmp')
            try:
                rc, out, err = vlib.run_lines(exe, lines, [tmp], timeout=900, env=env_for(loc))
            finally:
                shutil.rmtree(tmp, ignore_errors=True)
        else:
            rc, out, err = vlib.run_lines(exe, lines, list(args), timeout=900, env=ENV)
        p = 0
        for i in part:
            n = len(cases[i])
            res[i] = out[p:p + n]
            p += n
        return rc, err

    with ThreadPoolExecutor(max_workers=max(chunks, 1)) as ex:
        rcs = list(ex.map(work, parts))
    return res, rcs


# ------------------------------------------------------------------------------------ ghost data
def key_of(f):
    return (f['p']['date'], f['p']['idx'], f['name'])


def recs_str(recs):
    return ','.join('%d.%d.%s' % (i, d, hx(b)) for (i, d, b) in recs) if recs else '-'


def files_str(fs):
    return '/'.join('%d_%d_%d_%s_%d_%d_%d_%s' % (f['p']['y'], f['p']['m'], f['p']['d'], hx(f['p']['digits']), f['p']['gz'],
                                               f['seeded'], f['mt'], recs_str(f['recs'])) for f in fs) if fs else '-'


def pairs_str(ps):
    return ','.join('%s.%s' % (hx(n), hx(b)) for n, b in ps) if ps else '-'


def split_fallback(content):
    """used only when the surviving bytes are not a suffix of the written history (already a violation)"""
    out, cur = [], b''
    for ch in content.split(b'\n')[:-1]:
        out.append((99999, 0, ch + b'\n'))
    tail = content.split(b'\n')[-1]
    if tail:
        out.append((99999, 0, tail))
    return out


class Ghost:
    """reconstructs, listing after listing, the ghost state of the model from the implementation's directory"""

    def __init__(self, case):
        self.case = case
        self.names = Names(case['base'], case['suffix'])
        self.hist = []            # (id, day, bytes)
        self.sent = 0
        self.pos = [0]            # byte offset of record i in the concatenated history
        self.gone = []
        self.prev = None          # previous snapshot: {'files': [...], 'act': recs}
        self.seeded = set()
        self.fexp = {}
        self.seed_pending = False
        self.seen_rot = set()
        self.t = case['t0']
        self.nseed = 0

    def note_op(self, o):
        """account for what the operation is known to do to the history (before looking at the listing)"""
        if o[0] == 'adv':
            self.t += max(0, o[1])
        elif o[0] in ('w', 'w2'):
            self._add(written_bytes(self.case, o[1]))
        elif o[0] == 'seed':
            self.seeded.add(o[1])
            self.seed_pending = True
            self._add(seed_content(self.case, self.nseed, o[1])); self.nseed += 1
        elif o[0] == 'put':
            self.fexp[o[1]] = o[2]

    def _add(self, b):
        self.hist.append((len(self.hist), (self.t + self.case.get('tz', 0) * 60000) // DAY, b))
        self.pos.append(self.pos[-1] + len(b))

    def snapshot(self, listing):
        nm = self.names
        files, act, fobs = [], b'', []
        act_mt = 0
        for (n, mt, c) in listing:
            p = nm.parse(n)
            if p:
                files.append({'name': n, 'p': p, 'mt': mt, 'bytes': c, 'seeded': int(n in self.seeded)})
            elif n == nm.active:
                act, act_mt = c, mt
            else:
                fobs.append((n, c))
        files.sort(key=key_of)
        total = b''.join(f['bytes'] for f in files) + act
        allb = b''.join(b for (_, _, b) in self.hist)
        start = self.pos[-1] - len(total)
        aligned = start >= 0 and allb[start:] == total and start in set(self.pos)
        if aligned:
            k, inner = self.pos.index(start), 0
            for f in files + [None]:
                n = len(act) if f is None else len(f['bytes'])
                recs = []
                while n > 0:
                    (i, d, b) = self.hist[k]
                    take = min(len(b) - inner, n)
                    recs.append((i, d, b[inner:inner + take]))     # a partial token = a record split across files
                    inner += take; n -= take
                    if inner == len(b):
                        k += 1; inner = 0
                if f is None:
                    act_recs = recs
                else:
                    f['recs'] = recs
        else:
            for f in files:
                f['recs'] = split_fallback(f['bytes'])
            act_recs = split_fallback(act)
        # files that disappeared since the previous listing (identified by their first record)
        lost = 0
        if self.prev is not None:
            firsts = {f['recs'][0][0]: f for f in files if f['recs']}
            newly = []
            for pf in self.prev['files']:
                if pf['name'] in [f['name'] for f in files]:
                    cur = [f for f in files if f['name'] == pf['name']][0]
                    if [r[:1] + r[2:] for r in cur['recs']] == [r[:1] + r[2:] for r in pf['recs']] or not aligned:
                        continue
                fid = pf['recs'][0][0] if pf['recs'] else None
                if fid is not None and fid in firsts and len(firsts[fid]['recs']) == len(pf['recs']):
                    continue                                   # renamed (compressed)
                newly.append(pf)
            newly.sort(key=key_of)
            self.gone += newly
            pa = self.prev['act']
            if pa:
                fid = pa[0][0]
                kept = (act_recs[:len(pa)] == pa) or (fid in firsts and firsts[fid]['recs'] == pa)
                if not kept:
                    lost = 1
        new_rot = [f['name'] for f in files if f['name'] not in self.seen_rot and not f['seeded']]
        if new_rot:
            self.seed_pending = False
        self.seen_rot |= {f['name'] for f in files}
        self.prev = {'files': files, 'act': act_recs}
        fexp = sorted(self.fexp.items())
        lines = []
        if self.sent < len(self.hist):
            lines.append('h ' + recs_str(self.hist[self.sent:]))
            self.sent = len(self.hist)
        lines.append('s %d %d %s %s %s %d %s %s' % (lost, 0 if self.seed_pending else 1, files_str(self.gone), files_str(files),
                                                    recs_str(act_recs), act_mt, pairs_str(fexp), pairs_str(sorted(fobs))))
        info = {'rot': len(files), 'gone': len(self.gone), 'aligned': aligned, 'new_rot': new_rot}
        return lines, info


def oracle_lines(case, listings):
    """listings: parsed implementation listings, one per protocol line (case line first)"""
    g = Ghost(case)
    lines = ['cfg %d %d %d %s %s' % (case['L'], case['N'], case['opts'], hx(case['base']), hx(case['suffix']))]
    infos = []
    seq = [None] + list(case['ops'])
    for o, lst in zip(seq, listings):
        if o is not None:
            g.note_op(o)
        if lst is None:
            infos.append({'rot': 0, 'gone': 0, 'aligned': True, 'new_rot': []})
            continue
        ls, info = g.snapshot(lst)
        lines += ls
        infos.append(info)
    return lines, infos


def verdicts(case, model_exe, listings, only=None):
    lines, infos = oracle_lines(case, listings)
    rc, out, err = vlib.run_lines(model_exe, lines, ['oracle'] + ([only] if only else []), timeout=300)
    bits = [o for o, l in zip(out, lines) if l.startswith('s ')]
    return bits, infos, rc, err


def run_impl_one(impl_exe, case):
    res, rcs = run_exec(impl_exe, [lines_of(case, True)], ('IMPL',), chunks=1, locales=[case.get('locale')])
    nm = Names(case['base'], case['suffix'])
    return [parse_listing(l, nm, True) for l in res[0]], rcs[0]


def first_bad(bits, bit):
    for i, b in enumerate(bits):
        if len(b) != 4 or b[bit] != '1':
            return i
    return None


def looked(ls):
    """indices of the listings that exist (a quiet case is looked at only once, at the end)"""
    return [i for i, l in enumerate(ls) if l is not None]


def same_dirs(case, a, b):
    """implementation listing a vs model listing b; a quiet case compares names and contents only: the kernel stamps a
    file when buffered data reaches it, which nobody observed"""
    if case.get('quiet'):
        return a is None or [(n, c) for (n, _, c) in a] == [(n, c) for (n, _, c) in (b or [])]
    return a == b


def show_op(o):
    if o is None:
        return 'construct'
    if o[0] in ('w', 'w2'):
        return '%s %r' % (o[0], o[1][:40]) + ('...(%d bytes)' % len(o[1]) if len(o[1]) > 40 else '') + \
            (' (a text with unpaired UTF-16 surrogates, shown here in "surrogatepass" UTF-8; Qt renders %r)' % shown(o[1])[:40] if _SURR.search(o[1]) else '') + \
            (' type=%s' % MTYPE_NAME.get(o[2], o[2]) if len(o) > 2 else '') + \
            (' (= the FORMATTED text, set%s; raw message text %r)' % (' but empty' if not o[1] else '', o[3][:40]) if len(o) > 3 and o[3] is not None else '') + \
            (' (message object constructed %d ms before it is sent)' % o[4] if len(o) > 4 and o[4] else '')
    if o[0] == 'mkdir':
        return 'somebody creates the sub-directory %r' % (o[1],)
    if o[0] == 'wo':
        return 'write through another sink on %r: %r' % (o[1], o[2][:40])
    if o[0] == 'put':
        return 'put %r' % (o[1],)
    if o[0] == 'seed':
        return 'seed %r' % (o[1],)
    return ' '.join(str(x) for x in o)


def show_listing(lst):
    if lst is None:
        return 'not looked at (quiet case)'
    return [[n.decode('utf-8', 'replace'), mt, (c[:60].decode('utf-8', 'replace') + ('...(%d bytes)' % len(c) if len(c) > 60 else ''))]
            for (n, mt, c) in lst]


def case_json(case):
    c = dict(case)
    c['base'] = case['base'].decode(); c['suffix'] = case['suffix'].decode()
    c['ops'] = [[o[0]] + [x.hex() if isinstance(x, bytes) else x for x in o[1:]] for o in case['ops']]
    return c


def case_from_json(c):
    c = dict(c)
    c['base'] = c['base'].encode(); c['suffix'] = c['suffix'].encode()
    c['ops'] = [tuple([o[0]] + [bytes.fromhex(x) if isinstance(x, str) else x for x in o[1:]]) for o in c['ops']]
    return c


KIND = {'C05': 'records-not-conserved', 'C06': 'retention', 'C07': 'size-or-split', 'C09': 'days-or-names'}

META_NOTE = ('Trusted: Coq 8.16.1 kernel (vm_compute only for the closed sweep over the 146097 days of one Gregorian era, the '
             'shape equality and the examples), no axioms; tools/s2c/rotate.py (regex translation of the decision shapes of '
             'rotatingfilesink.cpp/filesink.cpp/iodevicesink.cpp into SrcRotate.v, and of the sink choice of SimplePipeline::sendToFile into SrcRotateFront.v); extraction (ExtrOcamlBasic only) and '
             'ocaml/drv_rotate.ml; harness/h_rotate.cpp (virtual wall clock by interposing gettimeofday/clock_gettime/time, mtimes '
             're-stamped with utimensat); checks/rotate_util.py (ghost reconstruction from the directory listings, Python gzip as '
             'independent decoder).  Modelled, not verified: QFile/QDir/kernel file system (a directory is a list of named files), '
             'QRegularExpression (the two patterns are a hand-written recogniser), QDate (civil-from-days), toLocal8Bit in a UTF-8 '
             'locale, gzip bytes (C08).  Hypotheses of the theorems: the wall clock never goes backwards and stays before year '
             '10000; nobody else creates files that match the sink\'s own rotated-name scheme; (L, N, options) fixed across restarts; '
             'no I/O errors; indices below 2^31.  The QtMsgType of a record is part of the Write operation and provably irrelevant '
             '(C07_message_type_irrelevant); so is the raw text of a message that has a formatted text (WriteMsg / shown_text, '
             'C07_raw_text_of_a_formatted_message_irrelevant).  Harness-only (no model): refused rename, message age, daylight-saving zone, second sink with another N.')


def probe_newline_lookalike(chk, impl, model):
    """C06, foreign_untouched: a file whose name is a rotated name followed by a newline does NOT follow the
    sink's scheme, but an unanchored-at-the-very-end `$` of the cleanup pattern (PCRE: `$` also matches before a
    final newline) would take it for one of the sink's own files: count it, and delete it as the oldest."""
    found = 0
    for base, suffix, gz in ((b'my.app', b'log', False), (b'applog', b'', True)):
        nm = Names(base, suffix)
        t0 = 19675 * DAY + 1000
        name = nm.rotated(datestr(19675), b'1', gz) + b'\n'
        case = {'L': 8, 'N': 2, 'opts': 0, 'gran': 1, 'base': base, 'suffix': suffix, 't0': t0, 'tz': 0,
                'ops': [('put', name, b'not a log of this sink\n')] + [('w', b'r%d.yyy' % i) for i in range(3)]}
        ls, _ = run_impl_one(impl, case)
        if len(ls) != len(case['ops']) + 1:
            chk.broke('probe: harness produced no listing', {'kind': 'harness', 'case': case_json(case)}); continue
        bits, _, _, _ = verdicts(case, model, ls, 'C06')
        present = [any(n == name and c == b'not a log of this sink\n' for (n, _, c) in l) for l in ls[1:]]
        fb = first_bad(bits, BIT['C06'])
        if not all(present) or fb is not None:
            found += 1
            chk.fail('C06 falsified on the real RotatingFileSink: the foreign file %r (a rotated name followed by a newline: not a name of '
                     'the sink\'s scheme) is %s by retention after %d writes (L=8 N=2); the cleanup pattern ends in `$`, which PCRE also '
                     'matches before a final newline' % (name, 'removed' if not all(present) else 'counted', len(case['ops']) - 1),
                     {'kind': 'foreign-lookalike-trailing-newline', 'lookalike': 'trailing-newline', 'case': case_json(case),
                      'name_hex': name.hex(), 'L': 8, 'N': 2, 'options': 0, 'foreign_file_present_after_each_op': present,
                      'oracle_bits_per_step(c05,c06,c07,c09)': bits,
                      'implementation_listings': [show_listing(l) for l in ls]}, kind='foreign-lookalike-trailing-newline')
    return found


def probe_two_sink_objects(chk, impl, model):
    """C06 (oracle only, outside the model): TWO live RotatingFileSink objects on the same path, written alternately with
    records of exactly L bytes, so that every write rotates (a record never lands in a file the other object renamed).
    Each object must see the files the other one created: the count bound and the conservation equation are evaluated on
    the real directory after every write."""
    found = 0
    for (N, opts, gran) in ((3, 0, 1000), (2, 4, 1), (3, 1, 1000)):
        case = {'L': 8, 'N': N, 'opts': opts, 'gran': gran, 'base': b'my.app', 'suffix': b'log', 't0': 19700 * DAY + 5000, 'tz': 0,
                'ops': [('w' if k % 2 == 0 else 'w2', b'r%d.yyyyyyy' % k)[:2] for k in range(12)]}
        case['ops'] = [(o, p[:7]) for (o, p) in case['ops']]
        ls, _ = run_impl_one(impl, case)
        if len(ls) != len(case['ops']) + 1:
            chk.broke('two-sink probe: harness produced no listing', {'kind': 'harness', 'case': case_json(case)}); continue
        bits, _, _, _ = verdicts(case, model, ls, 'C06')
        fb = first_bad(bits, BIT['C06'])
        if fb is not None:
            found += 1
            chk.fail('C06 falsified on the real RotatingFileSink: two live sink objects write the same path alternately (L=8 N=%d options=%d, '
                     'every write rotates); after write %d the directory violates the count bound / conservation - an object does not '
                     'see the rotated files the other one created' % (N, opts, fb),
                     {'kind': 'two-sink-objects', 'case': case_json(case), 'L': 8, 'N': N, 'options': opts, 'first_bad_step': fb,
                      'oracle_bits_per_step(c05,c06,c07,c09)': bits, 'ops_readable': [show_op(o) for o in case['ops']],
                      'implementation_listing_at_failure': show_listing(ls[fb]),
                      'note': 'w2 = write through the second object'}, kind='two-sink-objects')
    return found


def probe_huge_sparse_file(chk, impl):
    """C07 near INT_MAX (outside the model: the active file is a pre-existing SPARSE file of L-10 bytes whose content is never
    read): one 21-byte record must rotate - exactly two files, the big one under a rotated name, the record alone in the
    active file."""
    found = 0
    for L in (2147483647, 2147483644):
        nm = Names(b'big', b'log')
        case = {'L': L, 'N': 3, 'opts': 0, 'gran': 1, 'base': b'big', 'suffix': b'log', 't0': 19700 * DAY + 5000, 'tz': 0,
                'ops': [('sparse', L - 10), ('w', b'r0.yyyyyyyyyyyyyyyyy')]}
        ls, _ = run_impl_one(impl, case)
        if len(ls) != 3:
            chk.broke('sparse-file probe: harness produced no listing', {'kind': 'harness', 'case': case_json(case)}); continue
        final = ls[-1]
        sizes = sorted((n, len(c) if not c.startswith(b'@') else int(c[1:])) for (n, _, c) in final)
        rot = [(n, sz) for (n, sz) in sizes if nm.parse(n)]
        act = [sz for (n, sz) in sizes if n == nm.active]
        ok = len(sizes) == 2 and len(rot) == 1 and rot[0][1] == L - 10 and act == [21]
        if not ok:
            found += 1
            chk.fail('C07 falsified on the real RotatingFileSink: L=%d, active file of %d bytes, one record of 21 bytes: expected the big '
                     'file rotated and the record alone in a new active file, found %s' % (L, L - 10, [(n.decode(), sz) for n, sz in sizes]),
                     {'kind': 'size-near-int-max', 'case': case_json(case), 'L': L, 'N': 3, 'options': 0,
                      'files_and_sizes': [(n.decode(), sz) for n, sz in sizes]}, kind='size-near-int-max')
    return found


def probe_huge_file_daily(chk, impl):
    """C09 with an active file of 2 GiB and more (outside the model: a SPARSE file whose content is never read), size limit OFF
    (L = 0 is the only way such a file arises: L is an int), daily rotation: a record is written on day 1, the file is extended
    to S bytes, the clock moves to the next day (in one variant the sink is also restarted) and one more record is written.
    The big file must be rotated under day 1's name and the new record must be alone in the active file."""
    found = 0
    nm = Names(b'big', b'log')
    t0 = 19700 * DAY + 5000
    for S, restart in ((1 << 31, False), ((1 << 31) + 4096, True), ((1 << 32) - 1, False), (1 << 32, True), ((1 << 32) + (1 << 31) + 7, False)):
        case = {'L': 0, 'N': 0, 'opts': 2, 'gran': 1, 'base': b'big', 'suffix': b'log', 't0': t0, 'tz': 0,
                'ops': [('w', b'day1 record'), ('sparse', S), ('adv', DAY)] + ([('restart',)] if restart else []) + [('w', b'day2 record')]}
        ls, _ = run_impl_one(impl, case)
        if len(ls) != len(case['ops']) + 1:
            chk.broke('huge-file daily probe: harness produced no listing', {'kind': 'harness', 'case': case_json(case)}); continue
        before = sorted((n, len(c) if not c.startswith(b'@') else int(c[1:])) for (n, _, c) in ls[-2])
        if before != [(nm.active, S)]:
            chk.broke('huge-file daily probe: could not create a sparse file of %d bytes in the scratch directory (found %s)' % (S, before),
                      {'kind': 'harness', 'case': case_json(case)}); continue
        sizes = sorted((n, len(c) if not c.startswith(b'@') else int(c[1:])) for (n, _, c) in ls[-1])
        want = sorted([(nm.rotated(datestr(19700), b'1'), S), (nm.active, len(b'day2 record\n'))])
        act = [c for (n, _, c) in ls[-1] if n == nm.active]
        if sizes != want or act != [b'day2 record\n']:
            found += 1
            chk.fail('C09 falsified on the real RotatingFileSink: daily rotation, no size limit (L=0 N=0 options=2), active file of %d bytes '
                     '(>= 2 GiB) holding a record of 2023-12-09; one record written on 2023-12-10%s: expected the big file under the name %s '
                     'and the new record alone in big.log, found %s - records of two calendar days share a file' % (
                         S, ' by a restarted sink' if restart else '', want[0][0].decode(), [(n.decode(), sz) for n, sz in sizes]),
                     {'kind': 'daily-rotation-file-over-2gib', 'case': case_json(case), 'L': 0, 'N': 0, 'options': 2, 'active_file_bytes': S,
                      'restart_before_the_new_day_record': restart, 'ops_readable': [show_op(o) for o in case['ops']],
                      'expected_files_and_sizes': [(n.decode(), sz) for n, sz in want],
                      'files_and_sizes': [(n.decode(), sz) for n, sz in sizes]}, kind='daily-rotation-file-over-2gib')
    return found


def _perspective(case, ls, mine, main):
    """the case and listings as the sink `mine` ((base, suffix)) sees them: the files of the OTHER sinks of the probe are theirs
    (filtered out of the listings), their writes are no-ops for this sink"""
    nms = {k: Names(*k) for k in set([main] + [o[1] for o in case['ops'] if o[0] == 'wo_'])}
    def owner(n):
        for k, nm in nms.items():
            if n == nm.active or nm.parse(n):
                return k
        return None
    ops = []
    for o in case['ops']:
        if o[0] == 'w':
            ops.append(o if mine == main else ('adv', 0))
        elif o[0] == 'wo_':
            ops.append(('w', o[2]) if o[1] == mine else ('adv', 0))
        elif o[0] == 'seed':
            ops.append(o if nms[mine].parse(o[1]) else ('adv', 0))
        else:
            ops.append(o)
    sub = dict(case, base=mine[0], suffix=mine[1], ops=ops)
    nm = nms[mine]
    lss = []
    for l in ls:
        keep = []
        for (n, mt, c) in l:
            if owner(n) in (mine, None):
                p = nm.parse(n)
                if p and p['gz'] and owner(n) == mine and mine != main:       # run_impl_one decoded with the main sink's names
                    try:
                        c = gzip.decompress(c)
                    except Exception:
                        pass
                keep.append((n, mt, c))
        lss.append(sorted(keep))
    return sub, lss


def probe_unrelated_sinks_share_nothing(chk, impl, model, pid):
    """C05 C06 C07 C09 (oracle only, outside the model): TWO sinks of one process on DIFFERENT log files of one directory, written
    alternately; one of them starts over rotated files an earlier run left (same date, indices 1..k).  Each sink must behave as
    if it were alone: the oracle is evaluated on each sink's own files (the other sink's files are not this sink's business).
    State shared between sink objects (a process-wide cache of the next index, of the file list, of the current date) shows
    here: the second sink takes an index the first one handed out, the rename onto an existing file is refused, and the file
    keeps growing across the day change / past L."""
    found = 0
    day0 = 19700
    # the second pair: the SAME complete base name with different suffixes (app.log / app.trace) - anything keyed by the base
    # name alone (a cached name pattern, a cached index) is shared by these two; in the last configurations the sinks also
    # have different file-count limits (the `wo` sink gets N2)
    configs = [((b'my.app', b'log'), (b'audit', b'log'), cfg + (None,)) for cfg in
               ((0, 0, 2, 1, 2, True), (16, 0, 2, 1000, 3, False), (16, 4, 0, 1, 2, True), (12, 0, 6, 1, 2, False), (0, 5, 3, 1000, 1, True))]
    configs += [((b'app', b'log'), (b'app', b'trace'), cfg) for cfg in
                ((16, 4, 0, 1, 2, True, None), (16, 6, 0, 1, 2, True, 3), (12, 6, 4, 1000, 1, False, 3), (16, 3, 2, 1, 2, False, 6), (0, 5, 3, 1000, 1, True, None))]
    configs += [((b'my.app', b'log'), (b'my.app', b'txt'), (16, 3, 0, 1, 0, True, 5))]
    for (main, other, (L, N, opts, gran, nseed, seed_main, N2)) in configs:
        seeded, walker = (main, other) if seed_main else (other, main)
        nms = Names(*seeded)
        case = {'L': L, 'N': N, 'opts': opts, 'gran': gran, 'base': main[0], 'suffix': main[1], 't0': day0 * DAY + 40000000, 'tz': 0, 'ops': []}
        ops = [('seed', nms.rotated(datestr(day0), b'%d' % (i + 1), bool(opts & 4))) for i in range(nseed)]
        k = [0]
        def w(who, n=9):
            k[0] += 1
            p = (b'r%d.' % k[0] + b'y' * n)[:n]
            return ('w', p) if who == main else ('wo_', who, p)
        # day 0: both write (with a size limit the walker rotates here already and primes whatever is shared)
        ops += [w(walker), w(seeded), w(walker), w(walker), w(seeded)]
        ops += [('adv', DAY)]
        if opts & 1:
            ops += [('restart',)]
        # day 1: the walker first (its rotation is named after day 0), then the sink that has day-0 files of an earlier run
        ops += [w(walker), w(seeded), w(seeded), w(walker), w(seeded), ('adv', 1000), w(walker), w(seeded)]
        case['ops'] = ops
        wire = dict(case, ops=[(('wo', Names(*o[1]).active, o[2]) + ((4, N2) if N2 is not None else ())) if o[0] == 'wo_' else o for o in ops])
        ls, _ = run_impl_one(impl, wire)
        if len(ls) != len(ops) + 1:
            chk.broke('unrelated-sinks probe: harness produced no listing', {'kind': 'harness', 'case': case_json(wire)}); continue
        for mine in (seeded, walker):
            sub, lss = _perspective(case, ls, mine, main)
            if mine != main and N2 is not None:
                sub = dict(sub, N=N2)
            bits, _, _, _ = verdicts(sub, model, lss, pid)
            fb = first_bad(bits, BIT[pid])
            if fb is not None:
                found += 1
                chk.fail('%s falsified on the real RotatingFileSink: two sinks of one process on two log files of one directory (%s and %s; L=%d N=%d%s '
                         'options=%d), %s starts over %d rotated file(s) of an earlier run dated like its active file; the oracle on the files of %s '
                         'is false after operation %d (%s): the sink objects are not independent of each other' % (
                             pid, Names(*main).active.decode(), Names(*other).active.decode(), L, N, '' if N2 is None else ' (N=%d for the second)' % N2,
                             opts, Names(*seeded).active.decode(), nseed,
                             Names(*mine).active.decode(), fb, show_op(([None] + list(sub['ops']))[fb])),
                         {'kind': 'unrelated-sinks-not-independent', 'case': case_json(wire), 'L': L, 'N': N, 'N_of_the_second_sink': N if N2 is None else N2,
                          'options': opts, 'granularity_ms': gran, 'log_files': [Names(*main).active.decode(), Names(*other).active.decode()],
                          'sink_under_observation': Names(*mine).active.decode(), 'first_bad_step': fb,
                          'ops_readable': [show_op(o) for o in wire['ops']],
                          'oracle_bits_per_step(c05,c06,c07,c09)': bits,
                          'directory_at_failure': show_listing(ls[fb]), 'directory_before': show_listing(ls[fb - 1]) if fb else None},
                         kind='unrelated-sinks-not-independent')
                break
    return found


def probe_plain_and_gz_twin(chk, impl, model):
    """C06 (model and oracle): an earlier life of the sink left BOTH <base>.<date>.<i>.<suffix> and the same name + .gz (a crash
    between closing the .gz and removing the original, or `gzip -dk`): two files that follow the sink's scheme and share (date,
    index).  Retention must count both: at most N files after every write that rotated, victims oldest first (the plain name
    sorts before its .gz twin)."""
    found = 0
    for (base, suffix, N, opts, twin_idx, others) in ((b'my.app', b'log', 4, 0, b'1', [b'2']), (b'applog', b'', 3, 4, b'2', [b'1']),
                                                        (b'my.app', b'log', 2, 0, b'1', []), (b'a+b', b'txt', 5, 1, b'3', [b'1', b'2'])):
        nm = Names(base, suffix)
        day0 = 19700
        d = datestr(day0 - 1)
        seeds = sorted([nm.rotated(d, twin_idx, False), nm.rotated(d, twin_idx, True)] + [nm.rotated(d, i, bool(opts & 4)) for i in others],
                       key=lambda n: (nm.parse(n)['idx'], n))
        case = {'L': 8, 'N': N, 'opts': opts, 'gran': 1000, 'base': base, 'suffix': suffix, 't0': day0 * DAY + 5000, 'tz': 0,
                'ops': [('seed', n) for n in seeds] + [('w', b'r%d.yyyy' % i) for i in range(2 * N + 3)]}
        ls, _ = run_impl_one(impl, case)
        if len(ls) != len(case['ops']) + 1:
            chk.broke('twin probe: harness produced no listing', {'kind': 'harness', 'case': case_json(case)}); continue
        bits, _, _, _ = verdicts(case, model, ls, 'C06')
        fb = first_bad(bits, BIT['C06'])
        mo = run_exec(model, [lines_of(case, False)], (), chunks=1)[0][0]
        ml = [parse_listing(l, nm, False) for l in (mo or [])]
        if fb is not None:
            found += 1
            nfiles = len(ls[fb])
            chk.fail('C06 falsified on the real RotatingFileSink: L=8 N=%d options=%d file=%s; an earlier life left %s - a plain file and its .gz twin '
                     'with the same date and index, both names of the sink\'s scheme; after operation %d (%s) the directory holds %d log files '
                     '(limit %d) or a file older than a removed one survives' % (N, opts, nm.active.decode(), [n.decode() for n in seeds], fb,
                                                                                    show_op(([None] + list(case['ops']))[fb]), nfiles, N),
                     {'kind': 'plain-and-gz-twin', 'case': case_json(case), 'L': 8, 'N': N, 'options': opts, 'first_bad_step': fb,
                      'log_files_at_failure': nfiles, 'ops_readable': [show_op(o) for o in case['ops']],
                      'oracle_bits_per_step(c05,c06,c07,c09)': bits,
                      'implementation_listing_at_failure': show_listing(ls[fb]),
                      'model_listing_at_failure': show_listing(ml[fb]) if fb < len(ml) else None}, kind='plain-and-gz-twin')
        elif ml != ls:
            i = [a == b for a, b in zip(ls, ml)].index(False) if len(ml) == len(ls) and ml != ls else min(len(ml), len(ls))
            chk.broke('correspondence (plain/.gz twin probe): model and RotatingFileSink directories differ after operation %d of a case with '
                      'L=8 N=%d options=%d' % (i, N, opts),
                      {'kind': 'correspondence', 'case': case_json(dict(case, ops=case['ops'][:i])), 'step': i,
                       'implementation': show_listing(ls[i]) if i < len(ls) else None, 'model': show_listing(ml[i]) if i < len(ml) else None})
    return found


def probe_buffered_record_crosses_midnight(chk, impl, model):
    """C09, known finding F21 (deterministic): a record written at 23:59 stays in QFile's write buffer (nobody flushes or looks),
    the sink is destroyed at 00:01 - the data reaches the file then and the kernel stamps it with the NEW day - and a new sink
    object dates the file to the new day and appends without rotating: two calendar days share one file."""
    case = {'L': 0, 'N': 0, 'opts': 2, 'gran': 1, 'base': b'my.app', 'suffix': b'log', 't0': 19700 * DAY + DAY - 60000, 'tz': 0,
            'quiet': True, 'ops': [('w', b'day1 record'), ('adv', 120000), ('restart',), ('w', b'day2 record'), ('end',)]}
    ls, _ = run_impl_one(impl, case)
    if len(ls) != len(case['ops']) + 1 or ls[-1] is None:
        chk.broke('buffered-record probe: harness produced no listing', {'kind': 'harness', 'case': case_json(case)})
        return 0
    bits, _, _, _ = verdicts(case, model, ls, 'C09')
    if first_bad(bits, BIT['C09']) is None:
        return 0
    chk.fail('C09 falsified on the real RotatingFileSink: daily rotation, no size limit; a record written 60 s before midnight is still '
             'buffered when the sink is destroyed 60 s after midnight, the restarted sink dates the file to the new day and appends: '
             'records of two calendar days share %s' % [n.decode() for (n, _, c) in ls[-1] if c.count(b'\n') > 1],
             {'kind': 'buffered-record-crosses-midnight-restart',
              'history': ['my.app.log L=0 N=0 options=2 (daily) t0=%d (23:59:00 UTC), nothing flushes or looks until the end' % case['t0']]
                         + [show_op(o) for o in case['ops']],
              'final_listing': show_listing(ls[-1]), 'case': case_json(case),
              'oracle_bits(c05,c06,c07,c09)': bits}, kind='buffered-record-crosses-midnight-restart')
    return 1


def probe_rename_refused(chk, impl, model):
    """C05 (oracle on the implementation only: the model's hypothesis is "no I/O errors"): somebody created a SUB-DIRECTORY named like
    the next rotated file, so the rename of every rotation is refused (the directory scans list files only: the index stays 1).
    Whatever the sink does about it, nothing written before or after the refused rename may be lost: N <= 0 or nothing ever
    rotated, so the files of the sink must hold the whole history (the unchanged code reports the failure and reopens the active
    file in append mode - it then outgrows L, which is C10's and the maintainers' business, not a loss)."""
    found = 0
    day0 = 19700
    for (L, N, opts, gran, base, suffix, plan) in ((16, 0, 0, 1, b'my.app', b'log', 'size'), (16, 0, 4, 1000, b'applog', b'', 'size'),
                                                    (0, 0, 2, 1, b'my.app', b'log', 'day'), (12, 3, 0, 1, b'a+b', b'txt', 'size'),
                                                    (0, -1, 3, 1, b'my.app', b'log', 'restart'), (64, 0, 6, 1, b'.app', b'log', 'day')):
        nm = Names(base, suffix)
        blocker = nm.rotated(datestr(day0), b'1')
        w = lambda k: ('w', (b'r%d.yyyyyyyyy' % k)[:9])
        ops = [w(0), ('mkdir', blocker), w(1)]
        if plan == 'day':
            ops += [('adv', DAY), w(2), w(3), ('adv', 1000), w(4)]
        elif plan == 'restart':
            ops += [('adv', 5000), ('restart',), w(2), w(3), ('restart',), w(4)]
        else:
            ops += [w(2), w(3), ('adv', 1000), w(4), w(5)]
        case = {'L': L, 'N': N, 'opts': opts, 'gran': gran, 'base': base, 'suffix': suffix, 't0': day0 * DAY + 40000000, 'tz': 0, 'ops': ops}
        ls, _ = run_impl_one(impl, case)
        if len(ls) != len(ops) + 1:
            chk.broke('refused-rename probe: harness produced no listing', {'kind': 'harness', 'case': case_json(case)}); continue
        bits, _, _, _ = verdicts(case, model, ls, 'C05')
        fb = first_bad(bits, BIT['C05'])
        written = b''.join(written_bytes(case, o[1]) for o in ops if o[0] == 'w')
        have = b''.join(c for (n, _, c) in sorted((e for e in ls[-1] if nm.parse(e[0])), key=lambda e: (nm.parse(e[0])['date'], nm.parse(e[0])['idx']))) \
            + b''.join(c for (n, _, c) in ls[-1] if n == nm.active)
        if fb is not None or have != written:
            found += 1
            fbx = fb if fb is not None else len(ls) - 1
            chk.fail('C05 falsified on the real RotatingFileSink: L=%d N=%d options=%d file=%s; a sub-directory named %s (the name of the next rotated file) '
                     'makes the rename of the rotation fail; records are lost: %d bytes written, %d bytes in the sink\'s files at the end; oracle prop_c05_b '
                     'false after operation %s (%s)' % (L, N, opts, nm.active.decode(), blocker.decode(), len(written), len(have), fb,
                                                        show_op(([None] + ops)[fbx])),
                     {'kind': 'records-lost-after-refused-rename', 'case': case_json(case), 'L': L, 'N': N, 'options': opts, 'first_bad_step': fb,
                      'ops_readable': [show_op(o) for o in ops], 'oracle_bits_per_step(c05,c06,c07,c09)': bits,
                      'bytes_written': len(written), 'bytes_in_the_files_at_the_end': len(have),
                      'implementation_listing_at_failure': show_listing(ls[fbx]), 'final_listing': show_listing(ls[-1])},
                     kind='records-lost-after-refused-rename')
    return found


def probe_message_older_than_the_send(chk, impl, model):
    """C09 never_rotates_empty (+ C08: every .gz is a valid gzip file), harness only: a LogMessage object samples the wall clock
    when it is CONSTRUCTED; one constructed before midnight and sent after it (a queued message of asynchronous logging)
    reaches a sink whose lazily taken log date is already the new day while the log is still EMPTY.  There is nothing to
    rotate: no file of the rotated-name scheme may appear, in particular no empty one and no .gz that is not a gzip file.
    (What the model dates records by is the wall clock at the send; the message age is not a model dimension - DESIGN F7.)"""
    found = 0
    f7 = 0
    for (L, N, opts, plan) in ((0, 0, 2, 'fresh'), (0, 0, 6, 'fresh'), (64, 3, 6, 'restart'), (0, 0, 3, 'startup'), (0, 5, 7, 'startup'), (64, 0, 2, 'restart')):
        nm = Names(b'my.app', b'log')
        aged = ('w', b'constructed 23:59, sent 00:01', 4, None, 120000)
        if plan == 'fresh':
            ops = [('adv', 120000), aged]
        elif plan == 'restart':
            ops = [('adv', 120000), ('restart',), aged]
        else:                       # a record of the old day, rotated at the restart: the new active file is empty
            ops = [('w', b'old day record'), ('adv', 120000), ('restart',), aged]
        ops += [('w', b'new day record')]
        case = {'L': L, 'N': N, 'opts': opts, 'gran': 1, 'base': b'my.app', 'suffix': b'log', 't0': 19700 * DAY + DAY - 60000, 'tz': 0, 'ops': ops}
        ls, _ = run_impl_one(impl, case)
        if len(ls) != len(ops) + 1:
            chk.broke('aged-message probe: harness produced no listing', {'kind': 'harness', 'case': case_json(case)}); continue
        bits, _, _, _ = verdicts(case, model, ls, 'C09')
        fb = first_bad(bits, BIT['C09'])
        bad = None
        for i, l in enumerate(ls):
            for (n, _, c) in l:
                p = nm.parse(n)
                if p and (c == b'' or c.startswith(b'<<not gzip')):
                    bad = bad or (i, n, c)
        want_rot = 1 if plan == 'startup' else 0
        nrot = len([1 for (n, _, c) in ls[-1] if nm.parse(n)])
        if bad or fb is not None or nrot != want_rot:
            found += 1
            i = bad[0] if bad else (fb if fb is not None else len(ls) - 1)
            chk.fail('C09 falsified on the real RotatingFileSink: daily rotation (L=%d N=%d options=%d); a message object constructed at 23:59 is sent at '
                     '00:01 to a sink whose log is EMPTY (%s): %s - an empty log must never be rotated' % (
                         L, N, opts, plan, ('the file %s appears with %s' % (bad[1].decode(), 'no content' if bad[2] == b'' else 'bytes that are not a gzip stream (%d bytes)' % (len(bad[2]) - bad[2].index(b'>>') - 2))
                                            if bad else '%d rotated file(s) at the end, expected %d' % (nrot, want_rot))),
                     {'kind': 'empty-log-rotated-for-an-older-message', 'case': case_json(case), 'L': L, 'N': N, 'options': opts, 'first_bad_step': i,
                      'ops_readable': [show_op(o) for o in ops], 'oracle_bits_per_step(c05,c06,c07,c09)': bits,
                      'implementation_listing_at_failure': show_listing(ls[i]), 'implementation_listing_before': show_listing(ls[i - 1]) if i else None},
                     kind='empty-log-rotated-for-an-older-message')
        elif len([1 for (n, _, c) in ls[-1] if n == nm.active and c.count(b'\n') == 2]) == 1:
            f7 += 1          # informational (DESIGN F7): the message dated to the old day and the new day's message share the active file
    chk.cov['aged_message_and_next_day_message_share_the_active_file(F7, informational)'] = f7
    return found


def _utc_ms(y, m, d, hh, mm):
    import calendar
    return calendar.timegm((y, m, d, hh, mm, 0)) * 1000


def probe_daylight_saving_days(chk, impl):
    """C09 days_apart / name_carries_day in a zone WITH daylight-saving time (harness only: the model's zones are fixed offsets):
    TZ=CET-1CEST,M3.5.0,M10.5.0/3.  The local day of the spring-forward night has 23 hours, the one of the fall-back night 25: a
    record written at 00:30 local time of the next day is less than 24 h after the previous local midnight (spring), one written
    at 23:30 is more than 24 h after it (autumn).  Files must hold one LOCAL day each and carry that day in their names."""
    found = 0
    TZ = 'CET-1CEST,M3.5.0,M10.5.0/3'
    nm = Names(b'my.app', b'log')
    plans = []
    # spring 2024-03-31: local day = [03-30T23:00Z, 03-31T22:00Z)
    for restart in (False, True):
        for (L, opts) in ((0, 2), (64, 6)):
            t0 = _utc_ms(2024, 3, 31, 10, 0)
            ops = [('w', b'03-31 12:00 CEST'), ('adv', _utc_ms(2024, 3, 31, 21, 30) - t0), ('w', b'03-31 23:30 CEST'),
                   ('adv', 3600000)] + ([('restart',)] if restart else []) + [('w', b'04-01 00:30 CEST'), ('adv', 12 * 3600000), ('w', b'04-01 12:30 CEST')]
            want = {nm.rotated(b'2024-03-31', b'1', bool(opts & 4)): b'03-31 12:00 CEST\n03-31 23:30 CEST\n', nm.active: b'04-01 00:30 CEST\n04-01 12:30 CEST\n'}
            plans.append(('spring-forward night (a local day of 23 hours)', L, opts, t0, ops, want))
            # autumn 2024-10-27: local day = [10-26T22:00Z, 10-27T23:00Z)
            t0 = _utc_ms(2024, 10, 27, 10, 0)
            ops = [('w', b'10-27 11:00 CET'), ('adv', _utc_ms(2024, 10, 27, 22, 30) - t0)] + ([('restart',)] if restart else []) + \
                  [('w', b'10-27 23:30 CET'), ('adv', 3600000), ('w', b'10-28 00:30 CET'), ('adv', 3600000), ('w', b'10-28 01:30 CET')]
            want = {nm.rotated(b'2024-10-27', b'1', bool(opts & 4)): b'10-27 11:00 CET\n10-27 23:30 CET\n', nm.active: b'10-28 00:30 CET\n10-28 01:30 CET\n'}
            plans.append(('fall-back night (a local day of 25 hours)', L, opts, t0, ops, want))
    for (what, L, opts, t0, ops, want) in plans:
        case = {'L': L, 'N': 0, 'opts': opts, 'gran': 1, 'base': b'my.app', 'suffix': b'log', 't0': t0, 'tz': 0, 'tzname': TZ, 'ops': ops}
        ls, _ = run_impl_one(impl, case)
        if len(ls) != len(ops) + 1:
            chk.broke('daylight-saving probe: harness produced no listing', {'kind': 'harness', 'case': case_json(case)}); continue
        got = {n: c for (n, _, c) in ls[-1]}
        if got != want:
            found += 1
            chk.fail('C09 falsified on the real RotatingFileSink: daily rotation (L=%d N=0 options=%d) in the zone %s around the %s: expected the files %s, found %s - '
                     'records of two local calendar days share a file, or a file is named after another day than the one its records were written on' % (
                         L, opts, TZ, what, sorted((n.decode(), c.decode()) for n, c in want.items()), sorted((n.decode(), c.decode('utf-8', 'replace')) for n, c in got.items())),
                     {'kind': 'daylight-saving-day-length', 'case': case_json(case), 'L': L, 'N': 0, 'options': opts, 'TZ': TZ, 'night': what,
                      'ops_readable': [show_op(o) for o in ops], 'expected_final_listing': sorted((n.decode(), c.decode()) for n, c in want.items()),
                      'final_listing': show_listing(ls[-1])}, kind='daylight-saving-day-length')
    return found


def run_check(pid):
    chk = vlib.Check(pid)
    bit = BIT[pid]
    chk.trusted = ['Coq 8.16.1 kernel; vm_compute on closed terms only (era sweep for civil_mono, shape_eqb src_shape std_shape, examples)',
                   'axioms: none (every Print Assumptions: Closed under the global context)',
                   'tools/s2c/rotate.py translator (rotatingfilesink.cpp, filesink.cpp, iodevicesink.cpp -> SrcRotate.v)',
                   'extraction ExtrOcamlBasic, no Extract Constant; ocaml/drv_rotate.ml',
                   'harness/h_rotate.cpp (virtual clock, utimensat re-stamping); checks/rotate_util.py (ghost reconstruction); Python gzip',
                   'modelled not verified: file system, QRegularExpression, QDate, local 8-bit codec = UTF-8, gzip bytes (C08)']
    chk.assumptions = ['the wall clock never goes backwards (Advance dt >= 0) and stays before 9999-12-31; the process time zone is a fixed offset (no DST change during a history)',
                       'no other program creates files matching the sink\'s rotated-name scheme while it runs (pre-existing ones = an earlier life of the same sink)',
                       '(L, N, options) stay fixed across restarts; messages are dated by the wall clock at the time they are written (synchronous logging; DESIGN F7) - a message object older than its send is exercised by a C09 probe with the oracles never-rotates-empty / every .gz valid only',
                       'every record reaches the file, and stamps it, at the time it is written (the sink is flushed / looked at between operations); the other case is the open finding F21, probed deterministically by C09',
                       'no I/O errors (C10), a UTF-8 locale (C, fa_IR, ar_EG exercised), rotation indices below 2^31']
    chk.proof(vlib.proof_leg('Properties_' + pid, ['rotate']))
    model = vlib.build_model('rotate')
    impl = vlib.build_harness('rotate')
    thorough = chk.tier == 'thorough'
    ncases = 2500 if thorough else 500
    cases = []
    cdir = os.path.join(vlib.VERIF, 'corpus', pid)
    for p in sorted(os.listdir(cdir)) if os.path.isdir(cdir) else []:
        if p.endswith('.json'):
            cases.append(case_from_json(json.load(open(os.path.join(cdir, p)))))
    ncorpus = len(cases)
    while len(cases) < ncases + ncorpus:
        cases.append(gen_case(chk.rng, thorough))
    rc, sh_out, _ = vlib.run_lines(model, [], ['shape'])
    shape_std = sh_out[:1] == ['1']
    t0 = time.time()
    impl_out, rcs_i = run_exec(impl, [lines_of(c, True) for c in cases], ('IMPL',), chunks=6, locales=[c.get('locale') for c in cases])
    model_out, rcs_m = run_exec(model, [lines_of(c, False) for c in cases], (), chunks=4)
    t_run = time.time() - t0
    crashed = [rc for rc, _ in rcs_i if rc != 0]
    if crashed:
        chk.broke('the rotation harness exited with status %s' % crashed, {'kind': 'harness-crash', 'stderr': [e[-300:] for _, e in rcs_i]})
    # oracle on the implementation's listings (all cases in a few processes)
    parsed, olines = [], []
    for c, io in zip(cases, impl_out):
        nm = Names(c['base'], c['suffix'])
        ls = [parse_listing(l, nm, True) for l in (io or [])]
        parsed.append(ls)
        olines.append(oracle_lines(c, ls) if len(ls) == len(c['ops']) + 1 else ([], []))
    ores, _ = run_exec(model, [ol[0] for ol in olines], ('oracle', pid), chunks=6)
    disagreements, falsified = [], []
    stats = {'ops': 0, 'rotations': 0, 'removals': 0, 'oracle_evaluations': 0}
    for ci, (c, ls, mo, (ol, infos), orr) in enumerate(zip(cases, parsed, model_out, olines, ores)):
        nm = Names(c['base'], c['suffix'])
        if len(ls) != len(c['ops']) + 1:
            chk.broke('harness produced %d listings for %d operations' % (len(ls), len(c['ops']) + 1), {'kind': 'harness', 'case': case_json(c)})
            continue
        ml = [parse_listing(l, nm, False) for l in (mo or [])]
        if not c.get('codec'):           # (a non-UTF-8 codec is an oracle-only dimension: the model writes what it measures)
            for i, (a, b) in enumerate(zip(ls, ml)):
                if not same_dirs(c, a, b):
                    disagreements.append((ci, i)); break
            else:
                if len(ml) != len(ls):
                    disagreements.append((ci, len(ml)))
        bits = [o for o, l in zip(orr or [], ol) if l.startswith('s ')]
        stats['ops'] += len(c['ops']); stats['oracle_evaluations'] += len(bits)
        stats['rotations'] += sum(len(x['new_rot']) for x in infos)
        stats['removals'] += infos[-1]['gone'] if infos else 0
        fb = first_bad(bits, bit) if len(bits) == len(looked(ls)) else 0
        if fb is not None:
            falsified.append((ci, looked(ls)[fb] if fb < len(looked(ls)) else 0))

    def still_fails(case):
        ls, _ = run_impl_one(impl, case)
        if len(ls) != len(case['ops']) + 1:
            return False
        bits, _, _, _ = verdicts(case, model, ls, pid)
        return len(bits) != len(looked(ls)) or first_bad(bits, bit) is not None

    reported = set()
    for ci, fb in sorted(falsified, key=lambda x: len(cases[x[0]]['ops']))[:3]:
        c = cases[ci]
        tail = [('end',)] if c.get('quiet') else []
        cut = dict(c); cut['ops'] = [o for o in c['ops'][:fb] if o[0] != 'end'] + tail     # listing index fb = after op number fb
        if not still_fails(cut):
            cut = c
        ops = vlib.shrink_list([o for o in cut['ops'] if o[0] != 'end'], lambda o: still_fails(dict(cut, ops=list(o) + tail)), max_steps=120) + tail
        small = dict(cut, ops=ops)
        ls, _ = run_impl_one(impl, small)
        bits, infos, _, _ = verdicts(small, model, ls)
        fbs = first_bad(bits, bit)
        fbs = looked(ls)[fbs] if fbs is not None and fbs < len(looked(ls)) else len(ls) - 1
        bits = [bits[looked(ls).index(i)] if i in looked(ls) and looked(ls).index(i) < len(bits) else '----' for i in range(len(ls))]
        _, mo = None, run_exec(model, [lines_of(small, False)], (), chunks=1)[0][0]
        nm = Names(small['base'], small['suffix'])
        sig = (small['L'] > 0, small['N'], small['opts'], len(ops))
        if sig in reported:
            continue
        reported.add(sig)
        what = '%s falsified on the real RotatingFileSink: L=%d N=%d options=%d granularity=%dms zone=UTC%+dmin locale=%s file=%s, %d operations; oracle prop_%s_b false after operation %d (%s)' % (
            pid, small['L'], small['N'], small['opts'], small['gran'], small.get('tz', 0), small.get('locale') or 'C.UTF-8', nm.active.decode(), len(ops), pid.lower(), fbs,
            show_op(([None] + list(ops))[fbs]))
        chk.fail(what, {'kind': KIND[pid], 'case': case_json(small), 'L': small['L'], 'N': small['N'], 'options': small['opts'],
                        'granularity_ms': small['gran'], 'tz_minutes_east': small.get('tz', 0), 'locale': small.get('locale') or 'C.UTF-8', 'n_ops': len(ops), 'first_bad_step': fbs,
                        'ops_readable': [show_op(o) for o in ops],
                        'oracle_bits_per_step(c05,c06,c07,c09)': bits,
                        'implementation_listing_at_failure': show_listing(ls[fbs]),
                        'implementation_listing_before': show_listing(ls[fbs - 1]) if fbs > 0 else None,
                        'codec': small.get('codec'), 'quiet_until_the_end': bool(small.get('quiet')),
                        'sink_object_obtained_by': 'SimplePipeline().sendToFile(path, L, N, options)' if small.get('front') else 'RotatingFileSink(path, L, N, options)',
                        'model_listing_at_failure': show_listing(parse_listing(mo[fbs], nm, False)) if mo and fbs < len(mo) else None,
                        'falsified_cases': len(falsified), 'source_shape_is_proven_shape': shape_std}, kind=KIND[pid])
    if disagreements:
        ci, i = min(disagreements, key=lambda x: len(cases[x[0]]['ops']))
        c = cases[ci]
        nm = Names(c['base'], c['suffix'])
        ml = [parse_listing(l, nm, False) for l in (model_out[ci] or [])]
        chk.broke('correspondence: model and RotatingFileSink directories differ in %d of %d cases, first after operation %d (%s) of a case with L=%d N=%d options=%d' % (
            len(disagreements), len(cases), i, show_op(([None] + list(c['ops']))[i]) if i <= len(c['ops']) else '?', c['L'], c['N'], c['opts']),
            {'kind': 'correspondence', 'case': case_json(dict(c, ops=c['ops'][:i])), 'step': i,
             'implementation': show_listing(parsed[ci][i]) if i < len(parsed[ci]) else None,
             'model': show_listing(ml[i]) if i < len(ml) else None})
    if pid == 'C06':
        chk.cov['newline_lookalike_probe_failures'] = probe_newline_lookalike(chk, impl, model)
        chk.cov['two_sink_objects_probe_failures'] = probe_two_sink_objects(chk, impl, model)
        chk.cov['plain_and_gz_twin_probe_failures'] = probe_plain_and_gz_twin(chk, impl, model)
    if pid == 'C07':
        chk.cov['huge_sparse_file_probe_failures'] = probe_huge_sparse_file(chk, impl)
    if pid == 'C05':
        chk.cov['refused_rename_probe_failures'] = probe_rename_refused(chk, impl, model)
    if pid == 'C09':
        chk.cov['message_older_than_the_send_probe_failures'] = probe_message_older_than_the_send(chk, impl, model)
        chk.cov['daylight_saving_days_probe_failures'] = probe_daylight_saving_days(chk, impl)
        chk.cov['buffered_record_crosses_midnight_probe_failures'] = probe_buffered_record_crosses_midnight(chk, impl, model)
        chk.cov['huge_file_daily_probe_failures'] = probe_huge_file_daily(chk, impl)
    chk.cov['unrelated_sinks_probe_failures'] = probe_unrelated_sinks_share_nothing(chk, impl, model, pid)
    if not shape_std and not falsified and not disagreements:
        chk.broke('the decision shapes translated from the source differ from the proven ones but no difference was observed', {'kind': 'shape'})

    def hist(f):
        h = {}
        for c in cases:
            k = str(f(c)); h[k] = h.get(k, 0) + 1
        return h
    bnd, kinds, cross, ticks, jumps, predated, tzdiff = {}, {}, {'9->10': 0, '99->100': 0}, 0, 0, 0, 0
    mtypes, fatal_at_limit = {}, 0
    shape_h = {'ends_in_newline': 0, 'lone_newline': 0, 'empty': 0, 'formatted_empty_over_raw': 0, 'formatted_other_than_raw': 0,
               'embedded_nul': 0, 'nul_first': 0, 'nul_last': 0, 'lone_nul': 0, 'unpaired_surrogate': 0}
    for c, (ol, infos) in zip(cases, olines):
        last_rot_t, t = None, c['t0']
        for k, o in enumerate(c['ops']):
            kinds[o[0]] = kinds.get(o[0], 0) + 1
            if o[0] == 'w' and (t + c.get('tz', 0) * 60000) // DAY != t // DAY:
                tzdiff += 1
            if o[0] == 'w':
                shape_h['ends_in_newline'] += o[1].endswith(b'\n'); shape_h['lone_newline'] += o[1] == b'\n'; shape_h['empty'] += o[1] == b''
                shape_h['embedded_nul'] += b'\0' in o[1]; shape_h['nul_first'] += o[1].startswith(b'\0'); shape_h['nul_last'] += o[1].endswith(b'\0')
                shape_h['lone_nul'] += o[1] == b'\0'; shape_h['unpaired_surrogate'] += bool(_SURR.search(o[1]))
                if len(o) > 3 and o[3] is not None:
                    shape_h['formatted_empty_over_raw' if not o[1] else 'formatted_other_than_raw'] += 1
                ty = MTYPE_NAME[o[2] if len(o) > 2 else 4]
                mtypes[ty] = mtypes.get(ty, 0) + 1
                if ty == 'fatal' and infos and k + 1 < len(infos) and infos[k + 1]['new_rot']:
                    fatal_at_limit += 1
            if o[0] == 'w' and c['L'] > 0:
                d = len(shown(o[1])) + 1 - c['L']
                if -2 <= d <= 2:
                    bnd[str(d)] = bnd.get(str(d), 0) + 1
                elif len(o[1]) == 0:
                    bnd['empty'] = bnd.get('empty', 0) + 1
                elif d > 2:
                    bnd['>L+2'] = bnd.get('>L+2', 0) + 1
            if o[0] == 'adv':
                if o[1] >= DAY:
                    jumps += 1
                t += max(0, o[1])
            if o[0] == 'restart' and k > 0 and c['ops'][k - 1][0] == 'adv' and c['ops'][k - 1][1] >= DAY:
                predated += 1
            if infos and k + 1 < len(infos):
                for n in infos[k + 1]['new_rot']:
                    p = Names(c['base'], c['suffix']).parse(n)
                    if p['idx'] == 10:
                        cross['9->10'] += 1
                    if p['idx'] == 100:
                        cross['99->100'] += 1
                    tick = t // c['gran']
                    if last_rot_t == tick and c['gran'] >= 1000:
                        ticks += 1
                    last_rot_t = tick
    chk.cov.update({
        'evaluations': len(cases), 'distinct_nontrivial': len({json.dumps(case_json(c), sort_keys=True) for c, (ol, inf) in zip(cases, olines)
                                                                if inf and any(x['new_rot'] for x in inf)}),
        'rule': 'generated operation histories (corpus first) on the real sink under a virtual clock vs the extracted model; '
                'non-trivial = distinct cases in which the sink rotated at least once',
        'corpus_cases': ncorpus, 'operations': stats['ops'], 'rotations_observed': stats['rotations'], 'files_removed_by_retention': stats['removals'],
        'oracle_evaluated_on_impl_listings': stats['oracle_evaluations'], 'oracle_falsified_cases': len(falsified),
        'disagreements_model_vs_impl': len(disagreements), 'source_shape_is_proven_shape': shape_std,
        'L_histogram': hist(lambda c: c['L']), 'N_histogram': hist(lambda c: c['N']), 'options_histogram': hist(lambda c: c['opts']),
        'granularity_histogram': hist(lambda c: c['gran']), 'time_zone_minutes_histogram': hist(lambda c: c.get('tz', 0)), 'locale_histogram': hist(lambda c: c.get('locale') or 'C.UTF-8'), 'codec_histogram': hist(lambda c: c.get('codec') or 'locale (UTF-8)'),
        'quiet_cases_looked_at_only_at_the_end': sum(1 for c in cases if c.get('quiet')),
        'sink_obtained_through_sendToFile': sum(1 for c in cases if c.get('front')),
        'sendToFile_boundary_configurations': {k: sum(1 for c in cases if c.get('front') and c['L'] <= 0 and c['opts'] & 3 == v) for k, v in (('daily_only', 2), ('startup_only', 1), ('neither(plain FileSink)', 0))},
        'writes_while_local_date_differs_from_utc_date': tzdiff, 'file_name_histogram': hist(lambda c: Names(c['base'], c['suffix']).active.decode()),
        'seeded_cases': sum(1 for c in cases if any(o[0] == 'seed' for o in c['ops'])),
        'payload_shape_histogram': shape_h, 'message_type_histogram': mtypes, 'fatal_records_that_rotated': fatal_at_limit,
        'op_kind_histogram': kinds, 'record_length_minus_L_hits': bnd, 'index_crossings': cross,
        'rotations_within_the_same_coarse_tick': ticks, 'day_jumps': jumps, 'restarts_with_predated_active_file': predated,
        'run_wall_s': round(t_run, 1)})
    pick = [i for i, (ol, inf) in enumerate(olines) if inf and any(x['new_rot'] for x in inf)][:3]
    chk.samples = [{'case': {k: v for k, v in case_json(cases[i]).items() if k != 'ops'}, 'ops': [show_op(o) for o in cases[i]['ops']][:12],
                    'final_implementation_listing': show_listing(parsed[i][-1])[:6]} for i in pick]
    return chk.finish()


def replay_check(pid, path):
    r = json.load(open(path))['replay']
    if isinstance(r, list):
        r = r[0]
    if 'case' not in r:
        print(json.dumps(r, indent=1)); return 0
    case = case_from_json(r['case'])
    vlib.gen_src(['rotate'])
    model = vlib.build_model('rotate'); impl = vlib.build_harness('rotate')
    nm = Names(case['base'], case['suffix'])
    ls, _ = run_impl_one(impl, case)
    mo = run_exec(model, [lines_of(case, False)], (), chunks=1)[0][0]
    # files of the OTHER sinks of a probe (wo) are not this sink's business: the oracles below see the directory without them
    onm = []
    for o in case['ops']:
        if o[0] == 'wo':
            b, _, sx = o[1].rpartition(b'.')
            onm.append(Names(b, sx) if b else Names(sx, b''))
    mine = [[e for e in l if not any(e[0] == x.active or x.parse(e[0]) for x in onm)] if l is not None else None for l in ls]
    bits, infos, _, _ = verdicts(case, model, mine)
    print('configuration  L=%d N=%d options=%d granularity=%dms zone=UTC%+dmin locale=%s file=%s t0=%d' % (case['L'], case['N'], case['opts'], case['gran'], case.get('tz', 0), case.get('locale') or 'C.UTF-8', nm.active.decode(), case['t0']))
    if case.get('tzname') or any(o[0] in ('mkdir', 'wo', 'w2', 'sparse') or (o[0] == 'w' and len(o) > 4 and o[4]) for o in case['ops']):
        print('note: a harness-only probe (%s): the model line below does not know these dimensions and is shown for orientation only; '
              'the verdict of the probe is stated on the implementation' % ', '.join(
                  (['process zone TZ=' + case['tzname']] if case.get('tzname') else []) +
                  sorted({'sub-directory in the way' if o[0] == 'mkdir' else 'second sink' if o[0] in ('wo', 'w2') else 'sparse file' if o[0] == 'sparse'
                          else 'message older than its send' for o in case['ops']
                          if o[0] in ('mkdir', 'wo', 'w2', 'sparse') or (o[0] == 'w' and len(o) > 4 and o[4])})))
    for i, o in enumerate([None] + list(case['ops'])):
        print('--- after operation %d: %s' % (i, show_op(o)))
        print('  implementation', show_listing(ls[i]) if i < len(ls) else None)
        print('  model         ', show_listing(parse_listing(mo[i], nm, False)) if i < len(mo) else None)
        print('  oracles c05,c06,c07,c09 on the implementation:', dict(zip(looked(ls), bits)).get(i))
    return 0
