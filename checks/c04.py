"""C04 — Stopping asynchronous logging drains every accepted message and terminates."""
import json, os, re, subprocess, time
from concurrent.futures import ThreadPoolExecutor
import vlib

META = {
    'id': 'C04',
    'level': 'proof',
    'technique': 'Coq proof (inductive invariant of a transition system of the stop protocol over all action lists, '
                 'termination measure, refutation witness for the no-application case) + source-to-Coq skeleton '
                 'translation of the five functions + extracted trace acceptor and oracle run on recordings of '
                 'child processes of the real library, one per shutdown path',
    'text': 'Theorems (Properties_C04.v): for every interleaving of posts, worker steps, stops, moves and application '
            'death the accepted list = delivered ++ in hand ++ queued, a completed stop has delivered everything in '
            'order, the delivered list is always a prefix of the accepted one (never twice / reordered / skipped, across '
            'move/reset cycles, synchronous fall-back when no worker exists), the stop terminates within measure+2 '
            'enabled steps while the application object lives, and the full-strength "returns with or without a live '
            'QCoreApplication" is REFUTED by a witness (finding F5); for any number of concurrent stopper threads no stop ever acts on a cleared thread (C04_concurrent_stops_safe), which is refuted for the pre-repair skeleton by a two-stopper witness; the verdict of the wrapped handler (a bare OwnThreadHandler<> may wrap a handler whose process() returns false) is an input of the model: a rejected message is counted down like any other, no reachable state has a leaked pending count (C04_pending_count_never_leaks), and for a customEvent that returns early on rejection a stop after accept/reject/accept never returns (C04_stop_after_rejection_refuted_if_decrement_conditional; both model switches are computed from the translated source).  The skeleton of resetOwnThread / moveToOwnThread / '
            'destructor / process / customEvent is re-read from the source on every run and must equal the modelled '
            'one; recordings of the real library on every shutdown path - a Logger, and a bare OwnThreadHandler<FunctionHandler> whose function rejects messages; backlogs up to 8 s of sink work at the stop - are fed to the extracted acceptor (proved: '
            'accepted => a run of the model) and to direct oracles in the property\'s own terms.',
    'note': 'Level is partial for the tie: the model is hand-written; what connects it to the code is (a) the translated '
            'skeleton equality, (b) differential acceptance of recorded schedules, which is testing, not proof. '
            'Trusted: Coq 8.16.1 kernel (vm_compute only in closed Examples), no axioms; tools/s2c/shutdown.py; extraction '
            '(ExtrOcamlBasic only), ocaml/drv_shutdown.ml; harness/h_shutdown.cpp and the QTLOGGER_VERIF_POINT hooks; '
            'modelled, not verified: QThread, Qt posted-event queue (FIFO, discarded for secondary threads without an '
            'application object), QMutex, QAtomicInt; outside the model: real time (10 ms sleeps, wait(3000), terminate), '
            'Qt\'s aboutToQuit emission rules, concurrent stops from two threads.',
    'design_ref': 'DESIGN.md section 4, C04',
    'engine': 'coq+extraction+harness',
}

BOUND_S = 10.0          # wall-clock bound for a child beyond its expected drain time
F5_PATHS = ('noexec', 'noapp')
TOK = {'TAKE': 'T', 'DONE': 'N', 'RLOCKED': 'L', 'RWAIT': 'W', 'RQUIT': 'Q', 'STOP_END': 'S', 'APP_GONE': 'G',
       'MOVE': 'M', 'EXIT': 'X'}
INDEXED = ('RLOCKED', 'RWAIT', 'RQUIT', 'STOP_END')   # carry the stopper thread
NSTOP = 2


# --------------------------------------------------------------------------------- scenarios
def scn(path, backlog=5, delay=0, **kw):
    d = {'path': path, 'backlog': backlog, 'delay': delay}
    d.update(kw)
    return d


def argv_of(s):
    return ['%s=%s' % (k, s[k]) for k in sorted(s) if not k.startswith('_')]


def total_msgs(s):
    p = s['path']
    n = s['backlog']
    if p == 'cycles':
        n = (s['backlog'] + 1) * s.get('cycles', 3)
    if p == 'race':
        n = s.get('producers', 3) * s.get('per', 20) + s.get('after', 2)
    if p == 'rejecting':
        n = (s['backlog'] + 1) * s.get('cycles', 1)
    if s.get('late'):
        n += s.get('cycles', 1) if p == 'cycles' else 1
    return n + s.get('after', 2)


def bound_of(s):
    # + 1 ms per message: a backlog of tens of thousands of messages takes its time on a loaded machine
    return BOUND_S + 1.5 * total_msgs(s) * s['delay'] / 1000.0 + total_msgs(s) / 1000.0


BIG = 1000      # recordings with more messages than this are outside the reach of the extracted acceptor (unary naturals, list
                # comparison at every event: quadratic): direct oracles + the extracted counter test only


def is_big(s):
    return total_msgs(s) > BIG and s['path'] != 'race'


def huge_backlog_scenarios(rng, thorough):
    """a backlog beyond the range of a 16-bit (signed: 32 767, unsigned: 65 535) counter queued behind a sink that stalls
    inside its first delivery until the stop has been called (+ 200 ms), then the stop: every message must be delivered"""
    out = [scn('reset', 40000, 0, loop=0, stagger=1, holdfirst=1, after=1)]
    if thorough:
        out += [scn('quit', 70000, 0, stagger=1, holdfirst=1, after=1),
                scn('scoped', rng.choice([33000, 50000]), 0, loop=rng.randint(0, 1), stagger=1, holdfirst=1),
                scn('reset', rng.choice([32766, 32767, 32768]), 0, loop=1, stagger=1, holdfirst=1, after=1),
                scn('cycles', 33000, 0, cycles=2, loop=0, stagger=1, holdfirst=1)]
    return out


YIELDS = ['', 'reset.quit:3000', 'reset.waiting:2000,own.posted:300', 'worker.processed:1500', 'own.before_lock:200,reset.locked:2000']


def race_scenarios(rng, n_fast, n_paced):
    out = []
    # (6) producers racing the stop; schedule points widened by delays at the hooks
    for i in range(n_fast):
        s = scn('race', 0, rng.choice([0, 1, 1, 3]), producers=rng.choice([1, 2, 4]), per=rng.choice([8, 20, 40]),
                stop=rng.choice(['reset', 'quit']), cycles=rng.choice([1, 1, 2, 3]), seed=rng.randint(1, 10 ** 6))
        y = YIELDS[i % len(YIELDS)]
        if y:
            s['yield'] = y
        out.append(s)
    # producers slower than the sink, so that the backlog keeps touching zero while they still log:
    # the stop leaves its wait loop, quits and clears with posts arriving all the time
    for i in range(n_paced):
        if i % 2 == 0:
            # the region in which the backlog reaches zero again and again while posts keep arriving
            s = scn('race', 0, 1, producers=2, per=40, pace=rng.choice([2000, 2500, 3000]), stop='reset', cycles=3,
                    seed=rng.randint(1, 10 ** 6))
            if i % 4 == 0:
                s['yield'] = 'reset.quit:3000'
        else:
            s = scn('race', 0, rng.choice([0, 1, 1, 2]), producers=rng.choice([1, 2, 2, 3]), per=rng.choice([25, 40]),
                    pace=rng.choice([1500, 2500, 4000]), stop=rng.choice(['reset', 'reset', 'quit']), cycles=rng.choice([2, 3, 4]),
                    seed=rng.randint(1, 10 ** 6))
            if i % 4 == 1:
                s['yield'] = YIELDS[1 + (i // 4) % (len(YIELDS) - 1)]
        out.append(s)
    return out


LONG_BACKLOG_S = 8.0      # seconds of sink work queued when the stop begins: more than any grace period
                          # (3 s drain + wait(3000)) a stop could apply before giving up on the backlog


def long_backlog_scenarios(rng, thorough):
    """a slow sink and a burst worth LONG_BACKLOG_S of work, then the stop: it returns only after all of it has
    been delivered, however long that takes (no message accepted before the stop is dropped).  The children sit
    in usleep; they cost wall time only where nothing else runs that long (the F5 children sit out 10 s anyway)"""
    def sized(path, delay, **kw):
        return scn(path, int(round(LONG_BACKLOG_S * 1000 / delay)), delay, **kw)
    out = [sized('reset', 500, loop=0, after=1, stagger=1)]
    if thorough:
        out += [sized('reset', 100, loop=1, after=1, stagger=rng.randint(0, 1)),
                sized('quit', rng.choice([200, 250]), after=1, stagger=rng.randint(0, 1)),
                sized('scoped', rng.choice([100, 400]), loop=rng.randint(0, 1), stagger=1),
                sized('leakapp', 250, loop=0, stagger=1),
                scn('cycles', 10, 700, cycles=2, loop=0, stagger=1),
                sized('rejecting', 500, stop='reset', loop=0, reject='ar', after=1, stagger=1)]
    return out


REJECT_PATTERNS = ['ara', 'r', 'ar', 'aar', 'raa', 'aaaara', 'rra', 'a']


def rejecting_scenarios(rng, n):
    """a bare OwnThreadHandler<FunctionHandler> (not a Logger) whose wrapped handler rejects some messages -
    process() returns false -: accept, reject, accept, then each way of stopping"""
    out = [scn('rejecting', 3, 0, reject='ara', stop='reset', loop=0, after=2, stagger=0),
           scn('rejecting', 3, 1, reject='ara', stop='quit', after=2, stagger=1),
           scn('rejecting', 3, 1, reject='ara', stop='delete', loop=rng.randint(0, 1), after=0, stagger=rng.randint(0, 1)),
           scn('rejecting', 3, 1, reject='aaaara', stop='reset', cycles=2, loop=1, after=1, stagger=0)]
    for i in range(n):
        out.append(scn('rejecting', rng.choice([1, 2, 5, 30]), rng.choice([0, 1, 5]), reject=REJECT_PATTERNS[i % len(REJECT_PATTERNS)],
                       stop=rng.choice(['reset', 'quit', 'delete']), cycles=rng.choice([1, 1, 2, 3]), loop=rng.randint(0, 1),
                       after=rng.randint(0, 2), stagger=rng.randint(0, 1)))
    out.append(scn('rejecting', 2, 1, reject='ra', stop='reset', loop=0, **{'async': 0}))      # control: never asynchronous
    return out


def widened_scenarios(rng):
    """every single-threaded path again with the schedule points widened"""
    out = []
    for p in ('quit', 'reset', 'cycles'):
        for y in YIELDS[1:]:
            out.append(scn(p, rng.choice([2, 5, 9]), rng.choice([1, 5]), stagger=rng.randint(0, 1), **{'yield': y}))
    return out


def corpus_scenarios():
    """corpus/C04/scenarios.txt: the minimised scenarios that caught a seeded patch or a finding"""
    out = []
    path = os.path.join(vlib.VERIF, 'corpus', 'C04', 'scenarios.txt')
    if not os.path.exists(path):
        return out
    for ln in open(path):
        ln = ln.strip()
        if not ln or ln.startswith('#'):
            continue
        d = {}
        for kv in ln.split():
            k, v = kv.split('=', 1)
            d[k] = int(v) if re.fullmatch(r'-?\d+', v) else v
        if d.pop('san', 0):
            d['_san'] = 1
        d.setdefault('backlog', 0); d.setdefault('delay', 0)
        d['_corpus'] = 1
        out.append(d)
    return out


def scenarios(chk):
    rng = chk.rng
    thorough = chk.tier == 'thorough'
    out = corpus_scenarios()
    backlogs = [0, 1, 2, 5, 30, 100, 300] if thorough else [0, 1, 5, 100]
    delays = [0, 1, 5, 20] if thorough else [0, 1, 20]
    # (1) aboutToQuit via exec()+quit, (2) explicit reset inside / outside a running event loop, (5) cycles
    for b in backlogs:
        for d in delays:
            st = rng.randint(0, 1)
            out.append(scn('quit', b, d, stagger=st, cfg=rng.randint(0, 1), loop=rng.randint(0, 1)))
            out.append(scn('reset', b, d, stagger=1 - st, loop=1))
            out.append(scn('reset', b, d, stagger=rng.randint(0, 1), loop=0, cfg=rng.randint(0, 1)))
            cyc = 2 if b * d >= 1000 else rng.choice([2, 3, 4])
            out.append(scn('cycles', b, d, cycles=cyc, stagger=rng.randint(0, 1), loop=rng.randint(0, 1)))
    # destructor with a LIVE application object: the singleton at exit (application object leaked), without and
    # with an event loop having run before (worker restarted after exec() returned); an own Logger object deleted
    for b in backlogs:
        for d in (delays if thorough else [rng.choice(delays)]):
            out.append(scn('leakapp', b, d, loop=0, stagger=rng.randint(0, 1)))
            out.append(scn('leakapp', b, d, loop=1, cfg=rng.randint(0, 1)))
            out.append(scn('scoped', b, d, loop=rng.randint(0, 1), stagger=rng.randint(0, 1)))
    # a sink that itself logs through the installed logger (from the worker thread) while a backlog is drained
    for p, kw in (('quit', {}), ('reset', {'loop': 1}), ('reset', {'loop': 0}), ('cycles', {'cycles': 2}), ('scoped', {'loop': 0})):
        out.append(scn(p, rng.choice([1, 3, 6]), rng.choice([0, 1, 5]), relog=1, stagger=rng.randint(0, 1), **kw))
    # asynchronous mode switched on from a short-lived non-main thread, then an ordinary exec()+quit / reset
    for b in ([1, 5, 100] if not thorough else backlogs[1:]):
        out.append(scn('quit', b, rng.choice([0, 1]), movethread=1, stagger=rng.randint(0, 1)))
    out.append(scn('cycles', 3, 1, movethread=1, cycles=3))
    out.append(scn('reset', 5, 1, movethread=1, relog=1, loop=1))
    # asynchronous mode switched on AGAIN (second configure(async=true)) while a backlog is queued, then the stop
    for p, kw in (('quit', {}), ('reset', {'loop': 1}), ('reset', {'loop': 0}), ('cycles', {'cycles': 2}), ('scoped', {'loop': 0})):
        out.append(scn(p, rng.choice([2, 3, 6]), rng.choice([1, 5]), moveagain=1, stagger=1, **kw))
    out.append(scn('reset', 5, 2, loop=1, moveagain=1, stagger=0))
    # two stops at the same time (outside the model: only the direct oracles apply)
    out.append(scn('reset', 5, 5, loop=0, concurrent=1))
    out.append(scn('reset', rng.choice([1, 2, 8]), rng.choice([1, 3]), loop=1, concurrent=1, stagger=rng.randint(0, 1)))
    out.append(scn('cycles', rng.choice([2, 5]), rng.choice([1, 5]), cycles=3, concurrent=1, loop=rng.randint(0, 1)))
    # stops when no thread exists: a second reset in a row, and a logger that never went asynchronous
    for b in (0, 3):
        out.append(scn('cycles', b, 1, cycles=2, double=1, loop=rng.randint(0, 1)))
        out.append(scn('reset', b, 1, loop=rng.randint(0, 1), **{'async': 0}))
        out.append(scn('quit', b, 1, **{'async': 0}))
    # (3) destructor after the application object left scope without exec(), (4) no application object
    for p in F5_PATHS:
        for b in backlogs:
            for d in ([0, 20] if not thorough else delays):
                out.append(scn(p, b, d, cfg=rng.randint(0, 1) if b else 0))
        out.append(scn(p, 3, 1, **{'async': 0}))    # control: synchronous logger on the same exit path
    out += race_scenarios(rng, 40 if thorough else 8, 32 if thorough else 8)
    # a sink slower than wait(3000): the stop must still wait for the delivery
    out.append(scn('reset', 1, 3300, loop=1, after=0))
    if thorough:
        out.append(scn('quit', 2, 1700, loop=1, after=0))
        out.append(scn('cycles', 1, 3200, cycles=2, loop=0))
    out += long_backlog_scenarios(rng, thorough)
    out += huge_backlog_scenarios(rng, thorough)
    # a message logged while the stop is under way and the logger thread is inside the pipeline for the LAST queued message
    # (slow sink): it is queued behind it or delivered after it, never next to it
    out.append(scn('reset', 2, 400, loop=0, stagger=1, late=100, after=1))
    out.append(scn('reset', 1, 400, loop=1, late=100, after=rng.randint(0, 2)))
    if thorough:
        out += [scn('reset', rng.choice([1, 2, 3]), rng.choice([300, 500]), loop=rng.randint(0, 1), stagger=1, late=rng.choice([50, 100, 150]), after=1) for _ in range(4)]
        out.append(scn('cycles', 2, 300, cycles=2, loop=0, stagger=1, late=100))
    # messages logged through the Qt macros AFTER the application object has been destroyed, on paths where the stop
    # has completed (the logger is synchronous again): "messages logged after the stop are delivered synchronously
    # instead of being dropped" also holds then
    for p, kw in (('quit', {}), ('reset', {'loop': 1}), ('reset', {'loop': 0}), ('quit', {'async': 0})):
        out.append(scn(p, rng.choice([0, 2, 5]), rng.choice([0, 1]), gone=2, **kw))
    out += rejecting_scenarios(rng, 12 if thorough else 4)
    if thorough:
        out += widened_scenarios(rng)
    # an own Logger deleted inside the running event loop, then quit: run under the sanitizers
    out.append(scn('scoped', 3, 1, loop=1, _san=1))
    seen, uniq = set(), []
    for s in out:       # the corpus comes first; a generated duplicate of a corpus line is dropped
        key = (tuple(argv_of(s)), bool(s.get('_san')))
        if key not in seen:
            seen.add(key); uniq.append(s)
    out = uniq
    for i, s in enumerate(out):
        s['_n'] = i
    return out


# --------------------------------------------------------------------------------- running a child
def gdb_stacks(pid):
    try:
        p = subprocess.run(['gdb', '-batch', '-ex', 'thread apply all bt 14', '-p', str(pid)],
                           stdout=subprocess.PIPE, stderr=subprocess.DEVNULL, timeout=30)
        txt = p.stdout.decode('utf-8', 'replace')
        keep = [l[:200] for l in txt.splitlines() if l.startswith('#') or l.startswith('Thread ')]
        return keep[:70]
    except Exception as e:  # noqa
        return ['gdb failed: %r' % (e,)]


def run_child(exe, s, want_stacks=False, env=None):
    t0 = time.time()
    p = subprocess.Popen([exe] + argv_of(s), stdout=subprocess.PIPE, stderr=subprocess.PIPE, env=env)
    hung, stacks = False, None
    try:
        out, err = p.communicate(timeout=bound_of(s))
    except subprocess.TimeoutExpired:
        hung = True
        if want_stacks:
            stacks = gdb_stacks(p.pid)
        p.kill()
        out, err = p.communicate()
    return {'lines': out.decode('utf-8', 'replace').splitlines(), 'rc': p.returncode, 'hung': hung,
            'wall': round(time.time() - t0, 2), 'stacks': stacks, 'stderr': err.decode('utf-8', 'replace')[-600:],
            'stderr_head': err.decode('utf-8', 'replace')[:1800]}


# --------------------------------------------------------------------------------- direct oracles
def analyze(s, r):
    """independent of the model: the property's own terms on the recorded lines.
    returns (problems [(kind, text)], acceptor tokens, facts)"""
    lines = r['lines']
    problems, toks = [], []
    posted, delivered = [], []
    post_at, acc_at, del_at, producer, sync = {}, {}, {}, {}, {}
    stops = []          # (begin index, end index)
    cur_begin = None
    facts = {'wait_iterations': 0, 'posts_during_wait_loop': 0, 'sync_deliveries': 0, 'moves': 0, 'stops_without_thread': 0,
             'first_check_empty': 0, 'check_with_message_in_hand': 0, 'foreign': 0, 'rejected_by_handler': 0,
             'rejected_on_worker': 0}
    hand_rejected = False    # the wrapped handler returned false for the message the worker has in hand
    in_sleep = False
    in_hand = False
    rlocked_since_begin = False
    prev = None
    oracle_points = []   # (posted so far, delivered so far, stopped)
    racing = s['path'] == 'race'
    for i, ln in enumerate(lines):
        f = ln.split()
        if not f:
            continue
        k = f[0]
        if k == 'POST':
            m = int(f[1]); posted.append(m); post_at[m] = i; toks.append('P%d' % m)
            if in_sleep:
                facts['posts_during_wait_loop'] += 1
        elif k == 'ACCEPTED':
            m = int(f[1]); acc_at[m] = i; producer[m] = int(f[2]); toks.append('R%d' % m)
        elif k == 'DELIVER':
            m = int(f[1]); delivered.append(m); del_at.setdefault(m, i); sync[m] = f[2] == 's'
            toks.append('D%d%s' % (m, f[2]))
            facts['sync_deliveries'] += f[2] == 's'
            rej = len(f) > 3 and f[3] == 'r'
            facts['rejected_by_handler'] += rej
            if f[2] == 'a':
                hand_rejected = rej; facts['rejected_on_worker'] += rej
        elif k in TOK:
            toks.append(TOK[k] + (f[1] if k in INDEXED and len(f) > 1 else '') + ('0' if k == 'DONE' and hand_rejected else ''))
            if k == 'TAKE':
                in_hand = True
            elif k == 'DONE':
                in_hand = False; hand_rejected = False
            elif k == 'RLOCKED':
                rlocked_since_begin = True
            elif k == 'RWAIT':
                facts['wait_iterations'] += 1; in_sleep = True
                facts['check_with_message_in_hand'] += in_hand
            elif k == 'RQUIT':
                in_sleep = False
                facts['first_check_empty'] += prev == 'RLOCKED'
            elif k == 'MOVE':
                facts['moves'] += 1
            elif k == 'STOP_END':
                if cur_begin is not None:
                    stops.append((cur_begin, i))
                    if not rlocked_since_begin:
                        facts['stops_without_thread'] += 1
                    if not s.get('concurrent'):
                        cur_begin = None
                # a returned stop: everything posted has been delivered (with racing producers a
                # synchronous delivery may be under way: only the prefix relation is required)
                oracle_points.append((list(posted), list(delivered), not racing))
        elif k == 'STOP_BEGIN':
            cur_begin = i; rlocked_since_begin = False
        elif k == 'OVERLAP':
            problems.append(('overlap', 'two threads inside the sink at once (message %s)' % f[1]))
        elif k == 'FOREIGN':
            facts['foreign'] += 1
        prev = k
    exited = 'EXIT' in [l.strip() for l in lines]
    oracle_points.append((list(posted), list(delivered), exited))
    # no duplicates
    if len(set(delivered)) != len(delivered):
        d = sorted({m for m in delivered if delivered.count(m) > 1})
        problems.append(('duplicate', 'delivered more than once: %s' % d[:5]))
    # order: deliveries follow acceptance order (POST lines are written under the handler mutex)
    if delivered != posted[:len(delivered)] and len(set(delivered)) == len(delivered):
        j = next((x for x in range(min(len(delivered), len(posted))) if delivered[x] != posted[x]), min(len(delivered), len(posted)))
        skipped = j < len(posted) and posted[j] not in delivered
        problems.append(('lost' if skipped else 'reorder', 'delivery #%d is message %s but acceptance #%d is message %s%s' % (
            j, delivered[j] if j < len(delivered) else None, j, posted[j] if j < len(posted) else None,
            ' (which is never delivered: skipped)' if skipped else '')))
    # hook-free order: per producer, ids are delivered increasingly
    last = {}
    for m in delivered:
        p = producer.get(m)
        if p is None:
            continue
        if last.get(p, -1) > m:
            problems.append(('reorder', 'producer %d: message %d delivered after %d' % (p, m, last[p])))
            break
        last[p] = m
    # every message whose call returned before a stop began is delivered before that stop returns
    for (b, e) in stops:
        late = [m for m, a in acc_at.items() if a < b and not (m in del_at and del_at[m] < e)]
        if late:
            problems.append(('stop_incomplete', 'stop returned (line %d) but %d message(s) accepted before it began (line %d) were not '
                             'delivered yet, e.g. %s' % (e, len(late), b, sorted(late)[:5])))
            break
    # messages logged when no worker exists are delivered synchronously, before their call returns
    for m, a in acc_at.items():
        if sync.get(m) and not (del_at[m] < a):
            problems.append(('sync_late', 'message %d delivered synchronously but after its call returned' % m))
            break
    # termination and completeness at exit
    if r['hung']:
        problems.append(('hang', 'no exit within %.1f s; %d accepted, %d delivered; last lines %s' % (
            bound_of(s), len(posted), len(delivered), lines[-4:])))
    elif r['rc'] != 0:
        head = [l for l in r.get('stderr_head', '').splitlines() if 'ERROR: AddressSanitizer' in l or 'runtime error' in l or l.lstrip().startswith('#0 ')]
        problems.append(('crash', 'child exit status %s; stderr %r' % (r['rc'], ' | '.join(head[:3])[:400] if head else r['stderr'][-200:])))
    elif not exited:
        problems.append(('crash', 'child ended without reaching the end of static destruction'))
    else:
        lost = [m for m in posted if m not in del_at]
        if lost:
            problems.append(('lost', '%d accepted message(s) never delivered although the process exited, e.g. %s' % (len(lost), lost[:5])))
        elif s.get('gone'):
            # the calls made after the application object was destroyed returned (ACCEPTED) - each must have reached the sinks
            never = sorted(m for m in acc_at if m not in del_at and m not in posted)
            if never:
                problems.append(('lost', '%d message(s) logged through the Qt macros after the stop (application object already destroyed) '
                                 'never reached the logger, e.g. %s' % (len(never), never[:5])))
    facts.update({'posted': len(posted), 'delivered': len(delivered), 'exited': exited, 'oracle_points': oracle_points})
    return problems, toks, facts


def model_line(s, toks):
    app0 = '0' if s['path'] == 'noapp' else '1'
    return ' '.join([app0, '0', str(NSTOP)] + toks)


def parse_model(line):
    f = line.split()
    d = {'ok': f and f[0] == 'OK', 'raw': line}
    if f and f[0] == 'REJ':
        d['rejected_at'] = int(f[1])
    for kv in f:
        if '=' in kv:
            k, v = kv.split('=', 1)
            d[k] = v
    # the two ways a stop can hang in the model: the backlog can never be handed over (C04_stuck_forever), or a
    # pending count has leaked while a stop is in its wait loop (C04_leak_forever; unreachable with du = 1)
    d['predicts_hang'] = d.get('stuck') == '1' or (d.get('leak') == '1' and any(c in d.get('stops', '') for c in 'CS'))
    return d


def kind_for(s, kind, r=None):
    after_main = r is not None and 'MAIN_RETURN' in r['lines']
    if s['path'] in F5_PATHS and int(s.get('async', 1)) and kind in ('hang', 'lost', 'crash') and after_main:
        # F5: nothing stopped the worker before the process left main on an exit path without an event
        # loop; what follows (hang in the destructor's stop, undelivered backlog, the still running worker
        # crashing inside static destruction) is one and the same finding
        return 'exit_without_event_loop'
    if s.get('concurrent') and kind in ('crash', 'hang'):
        return 'concurrent_stops_crash'
    if s['path'] == 'scoped' and s.get('_san') and kind == 'crash' and r is not None and 'heap-use-after-free' in r.get('stderr_head', ''):
        return 'dangling_about_to_quit_lambda'
    if s['path'] == 'leakapp' and kind == 'crash' and r is not None and 'MAIN_RETURN' in r['lines']:
        # the singleton drains its backlog from a static destructor while the other exit handlers run
        return 'crash_during_exit_drain'
    return kind


def collapse(lines):
    """runs of one and the same line (the wait loop) as `LINE xN`"""
    out = []
    for l in lines:
        if out and out[-1][0] == l:
            out[-1][1] += 1
        else:
            out.append([l, 1])
    return [l if n == 1 else '%s x%d' % (l, n) for l, n in out]


def replay_obj(s, r, problems, mv, kind):
    o = {'kind': kind, 'scenario': {k: v for k, v in s.items() if not k.startswith('_')}, 'argv': argv_of(s),
         'command': 'build/h_shutdown ' + ' '.join(argv_of(s)),
         'async': bool(int(s.get('async', 1))), 'backlog': s['backlog'], 'delay_ms': s['delay'], 'path': s['path'],
         'hung': r['hung'], 'exit_status': r['rc'], 'wall_s': r['wall'], 'bound_s': round(bound_of(s), 1),
         'problems': ['%s: %s' % p for p in problems][:6],
         'accepted': r['facts']['posted'], 'delivered': r['facts']['delivered'],
         'model': mv.get('raw') if mv else None,
         'model_predicts_hang': bool(mv.get('predicts_hang')) if mv else None,
         'trace_head': collapse(r['lines'])[:25], 'trace_tail': collapse(r['lines'])[-25:], 'stacks': r.get('stacks')}
    if s['path'] in F5_PATHS or s['path'] == 'leakapp':
        o['exit_path'] = s['path']
    o['cfg'] = int(s.get('cfg', 0))
    o['crashed'] = (not r['hung']) and r['rc'] != 0
    o['after_main_return'] = 'MAIN_RETURN' in r['lines']
    o['concurrent'] = bool(s.get('concurrent'))
    o['loop'] = s.get('loop')
    o['handler'] = 'bare OwnThreadHandler<FunctionHandler>' if s['path'] == 'rejecting' else 'Logger'
    if s['path'] == 'rejecting':
        o['reject_pattern'] = s.get('reject', 'ara'); o['stop'] = s.get('stop', 'reset')
    o['backlog_work_s'] = round(s['backlog'] * s['delay'] / 1000.0, 2)
    o['sanitizer'] = bool(s.get('_san'))
    if s.get('_san') and r['rc'] != 0:
        o['asan_head'] = r.get('stderr_head', '').splitlines()[:14]
    return o


def size_key(s):
    return (s['backlog'] == 0, s['backlog'] if s['path'] != 'race' else s.get('producers', 3) * s.get('per', 20), s['delay'],
            s.get('cycles', 1), len(s.get('yield', '')), s.get('cfg', 0), s.get('stagger', 0))


# --------------------------------------------------------------------------------------- run
def run():
    chk = vlib.Check('C04')
    chk.trusted = ['Coq 8.16.1 kernel; vm_compute only in the closed non-vacuity Examples; no native_compute',
                   'axioms: none (every Print Assumptions: Closed under the global context)',
                   'tools/s2c/shutdown.py (brace-aware statement parser + classifier: ownthreadhandler.h -> SrcShutdown.v)',
                   'extraction ExtrOcamlBasic only, no Extract Constant; ocaml/drv_shutdown.ml',
                   'harness/h_shutdown.cpp, the QTLOGGER_VERIF_POINT hooks (order of write(2) calls = order of events), gdb for stacks',
                   'modelled not verified: QThread, Qt posted events (FIFO; discarded in secondary threads once QCoreApplication::instance() is null), QMutex, QAtomicInt']
    chk.assumptions = ['any number of threads may be inside resetOwnThread at once in the model (one entry of `stops` each); the recordings use at most two stopper threads',
                       'moveToOwnThread is not called concurrently with logging calls in the recordings (the harness holds the logger lock around it)',
                       'real time is outside the model: "bounded time" is checked on the implementation only, as exit within %.0f s + 1.5 x expected drain time' % BOUND_S,
                       'Qt emits aboutToQuit when exec() returns after quit() (Qt behaviour, not modelled)',
                       'the longest backlog a stop is made to wait for is %.0f s of sink work (a stop that gives up later than that is not exposed by the recordings)' % LONG_BACKLOG_S]
    # the proof leg (Coq, shared build lock) runs while the children of the standard scenario set run
    pex = ThreadPoolExecutor(max_workers=1)
    proof_future = pex.submit(vlib.proof_leg, 'Properties_C04', ['shutdown'])
    model = vlib.build_model('shutdown')
    impl = vlib.build_harness('shutdown')
    thorough = chk.tier == 'thorough'
    scs = scenarios(chk)
    san = None
    if any(x.get('_san') for x in scs):
        try:
            san = vlib.build_harness('shutdown', 'san')
        except Exception as e:  # noqa
            chk.broke('sanitizer build of the harness failed: %s' % str(e)[-300:], {'kind': 'build'})

    stack_budget = {'noexec': 1, 'noapp': 1, 'other': 2}

    def job(s):
        exe = impl
        env = None
        if s.get('_san'):
            exe = san
            env = dict(os.environ, ASAN_OPTIONS='detect_leaks=0:abort_on_error=0', UBSAN_OPTIONS='print_stacktrace=1')
        key = s['path'] if s['path'] in F5_PATHS else 'other'
        want = stack_budget.get(key, 0) > 0 and s['backlog'] > 0
        if want:
            stack_budget[key] -= 1
        return run_child(exe, s, want_stacks=want, env=env)

    if san is None:
        scs = [x for x in scs if not x.get('_san')]
    if san and thorough:
        extra = []
        for s in scs:
            if s['path'] in ('race', 'cycles') and s['delay'] <= 5 and s['backlog'] <= 30:
                t = dict(s); t['_san'] = 1
                extra.append(t)
        scs += extra[:40]
        for i, s in enumerate(scs):
            s['_n'] = i
    # children that are expected to sit out the whole bound go first
    # the corpus first; then the children that are expected to sit out the whole bound
    order = sorted(scs, key=lambda s: (0 if s.get('_corpus') else 1 if (s['path'] in F5_PATHS and s['backlog'] > 0 and int(s.get('async', 1))) else 2, -bound_of(s)))
    with ThreadPoolExecutor(max_workers=16) as ex:
        results = dict(zip([s['_n'] for s in order], ex.map(job, order)))
    pr = proof_future.result()
    pex.shutdown()
    proof_ok = chk.proof(pr)
    extended = not proof_ok and not thorough
    if extended:
        # the skeleton (or a proof) no longer checks: search schedules harder before giving a verdict
        more = race_scenarios(chk.rng, 12, 24) + widened_scenarios(chk.rng) + long_backlog_scenarios(chk.rng, True)[1:] + rejecting_scenarios(chk.rng, 12)[4:]
        for i, s in enumerate(more):
            s['_n'] = len(scs) + i
        with ThreadPoolExecutor(max_workers=16) as ex:
            results.update(dict(zip([s['_n'] for s in more], ex.map(job, more))))
        scs += more

    def evaluate(pairs):
        """pairs of (scenario, child result) -> analysis + model verdicts (batched)"""
        mlines, olines, owner = [], [], []
        small = [(s, r) for s, r in pairs if not is_big(s)]
        for s, r in pairs:
            r['problems'], r['toks'], r['facts'] = analyze(s, r)
            r['oracle_bad'] = []
            if is_big(s):
                # the model's prediction for this backlog: is the drain loop entered?  (the loop test of the code on the
                # translated width of m_pendingCount == the loop test of the model: C04_src_counter_covers_every_backlog)
                n_pending = s['backlog']
                _, co, _ = vlib.run_lines(model, [str(n_pending)], ['counter'])
                cv = dict(kv.split('=') for kv in (co[0].split() if co else []) if '=' in kv)
                waited = r['facts']['wait_iterations'] > 0
                r['model'] = {'ok': True, 'skipped': True, 'predicts_hang': False, 'counter': cv,
                              'raw': 'not fed to the acceptor (%d events); counter: %s; drain loop entered: %s' % (len(r['toks']), co[0] if co else '?', waited)}
                if cv.get('code_test') != cv.get('model_test') or not cv:
                    r['model']['ok'] = False
                    r['model']['counter_disagrees'] = ('with %d messages pending the loop test of the drain loop on a %s-bit counter is %s, the model\'s test is %s'
                                                       % (n_pending, cv.get('bits'), cv.get('code_test'), cv.get('model_test')))
                elif cv.get('model_test') == '1' and not waited and not r['hung'] and r['facts']['posted'] >= n_pending:
                    r['model']['ok'] = False
                    r['model']['counter_disagrees'] = ('model: %d messages pending, the stop enters its wait loop; implementation: it never waited' % n_pending)
                continue
            mlines.append(model_line(s, r['toks']))
            for (po, de, st) in r['facts']['oracle_points']:
                olines.append('%s | %s | %d' % (','.join(map(str, po)), ','.join(map(str, de)), 1 if st else 0))
                owner.append((s, r, (len(po), len(de), st)))
        _, mo, _ = vlib.run_lines(model, mlines)
        _, oo, _ = vlib.run_lines(model, olines, ['oracle'])
        for (s, r), ml in zip(small, mo + [''] * (len(small) - len(mo))):
            r['model'] = parse_model(ml)
        for (s, r, pt), v in zip(owner, oo + ['ERR'] * (len(owner) - len(oo))):
            if v.strip() != '1':
                r['oracle_bad'].append(pt)
        return len(olines)

    pairs = [(s, results[s['_n']]) for s in scs]
    n_oracle = evaluate(pairs)

    def disagreement(s, r):
        mv = r['model']
        if mv.get('skipped'):
            return mv.get('counter_disagrees')
        if not mv.get('ok'):
            k = mv.get('rejected_at')
            return 'acceptor rejects the recording at event %s (%s) in model state [%s]' % (
                k, r['toks'][k] if k is not None and k < len(r['toks']) else '?', mv.get('raw'))
        if bool(mv.get('predicts_hang')) != r['hung']:
            return 'model %s a hang (state [%s]) but the child %s' % (
                'predicts' if mv.get('predicts_hang') else 'does not predict', mv.get('raw'), 'timed out' if r['hung'] else 'exited')
        return None

    # flake guard: a recording the model rejects while the property's own oracles are satisfied is re-run once
    unreproduced = 0
    for s, r in pairs:
        if not r['problems'] and not r['oracle_bad'] and disagreement(s, r):
            r2 = run_child(impl if not s.get('_san') else san, s)
            evaluate([(s, r2)])
            if not r2['problems'] and not r2['oracle_bad'] and not disagreement(s, r2):
                unreproduced += 1
                r['unreproduced_disagreement'] = disagreement(s, r)
                r['model'] = r2['model']; r['toks'] = r2['toks']

    # ---- verdicts
    by_kind = {}
    for s, r in pairs:
        probs = list(r['problems'])
        if r['oracle_bad'] and not probs:
            probs.append(('oracle', 'extracted prop_c04_b false at (posted, delivered, stopped) = %s' % (r['oracle_bad'][:3],)))
        if r['facts'].get('foreign') and not probs and False:
            pass
        for kind, text in probs[:1]:
            k = kind_for(s, kind, r)
            by_kind.setdefault((k, s['path'] if k in ('exit_without_event_loop', 'crash_during_exit_drain') else ''), []).append((s, r, probs))
    def shrink_backlog(s, r, probs, kind):
        """smallest backlog (bisection between the largest ordinary backlog and the failing one, at most 14 children) that still
        shows a violation of the same kind"""
        lo, hi, best = 300, s['backlog'], (s, r, probs)
        for _ in range(14):
            if hi - lo <= 1:
                break
            mid = (lo + hi) // 2
            s2 = dict(s, backlog=mid)
            r2 = run_child(impl, s2)
            evaluate([(s2, r2)])
            if any(kind_for(s2, k2, r2) == kind for k2, _ in r2['problems']):
                hi, best = mid, (s2, r2, [p for p in r2['problems']])
            else:
                lo = mid
        return best + ({'shrunk_from_backlog': s['backlog'], 'largest_backlog_without_violation_seen': lo},)

    for (k, p), items in sorted(by_kind.items()):
        s, r, probs = min(items, key=lambda it: size_key(it[0]))
        shrunk = None
        if s.get('holdfirst') and s['backlog'] > BIG and not s.get('_san') and k in ('lost', 'stop_incomplete'):
            s, r, probs, shrunk = shrink_backlog(s, r, probs, k)
        obj = replay_obj(s, r, probs, r.get('model'), k)
        obj['failing_scenarios_of_this_kind'] = len(items)
        if shrunk:
            obj.update(shrunk)
        obj['smallest_of'] = [' '.join(argv_of(it[0])) for it in sorted(items, key=lambda it: size_key(it[0]))[:6]]
        if not obj.get('stacks'):
            for it in items:
                if it[1].get('stacks'):
                    obj['stacks'] = it[1]['stacks']; obj['stacks_from'] = ' '.join(argv_of(it[0])); break
        chk.fail('%s on path %s: %s  [%s]' % (k, s['path'], probs[0][1][:300], ' '.join(argv_of(s))), obj, kind=k)
    dis = [(s, r, disagreement(s, r)) for s, r in pairs if disagreement(s, r) and 'unreproduced_disagreement' not in r]
    # a disagreement on a scenario that also violates the property is already reported with its failing input
    dis_clean = [(s, r, d) for s, r, d in dis if not r['problems'] and not r['oracle_bad']]
    if dis_clean:
        s, r, d = min(dis_clean, key=lambda it: size_key(it[0]))
        chk.broke('correspondence: %d recording(s) of the real library are not runs of the model, e.g. %s: %s' % (
            len(dis_clean), ' '.join(argv_of(s)), d[:400]),
            replay_obj(s, r, [('correspondence', d)], r['model'], 'correspondence'))

    # ---- evidence
    def hist(f):
        h = {}
        for s, r in pairs:
            k = str(f(s, r)); h[k] = h.get(k, 0) + 1
        return dict(sorted(h.items()))
    tot = lambda name: sum(r['facts'][name] for _, r in pairs)  # noqa
    nontrivial = {tuple(argv_of(s)) for s, r in pairs if r['facts']['posted'] > 0 and int(s.get('async', 1))}
    chk.cov.update({
        'evaluations': len(pairs), 'distinct_nontrivial': len(nontrivial),
        'rule': 'one child process of the real library per scenario (path x backlog x sink delay x stagger/cfg/loop/cycles/'
                'producers/hook delays); non-trivial = asynchronous and at least one message accepted; every recording goes '
                'through the direct oracles, the extracted prop_c04_b at every stop point and the extracted acceptor; plus backlogs of 40 000 '
                '(thorough: up to 70 000, and 32 766..32 768) tiny messages queued behind a sink that stalls in its first delivery until the stop '
                'has been called: direct oracles + the extracted loop test on the translated counter width (those recordings are too long for the acceptor)',
        'by_path': hist(lambda s, r: s['path']), 'by_backlog': hist(lambda s, r: s['backlog']), 'by_delay_ms': hist(lambda s, r: s['delay']),
        'hung_children_by_path': {p: sum(1 for s, r in pairs if r['hung'] and s['path'] == p) for p in sorted({s['path'] for s in scs})},
        'oracle_points_evaluated': n_oracle, 'oracle_points_false': sum(len(r['oracle_bad']) for _, r in pairs),
        'recordings_accepted_by_model': sum(1 for _, r in pairs if r['model'].get('ok') and not r['model'].get('skipped')),
        'huge_backlog_children_direct_oracles_and_counter_test_only': sum(1 for _, r in pairs if r['model'].get('skipped')),
        'largest_backlog_messages': max(s['backlog'] for s, _ in pairs),
        'largest_backlog_fully_delivered': max([0] + [s['backlog'] for s, r in pairs if not r['problems'] and int(s.get('async', 1)) and s['path'] not in F5_PATHS]),
        'counter_test_at_largest_backlog': next((r['model'].get('counter') for s, r in sorted(pairs, key=lambda it: -it[0]['backlog']) if r['model'].get('skipped')), None),
        'recordings_rejected_by_model': sum(1 for _, r in pairs if not r['model'].get('ok') and not r['model'].get('skipped')),
        'hang_prediction_agrees': sum(1 for _, r in pairs if bool(r['model'].get('predicts_hang')) == r['hung']),
        'unreproduced_disagreements': unreproduced,
        'unreproduced_examples': [' '.join(argv_of(s)) + ' :: ' + r['unreproduced_disagreement'][:300] for s, r in pairs if r.get('unreproduced_disagreement')][:3],
        'messages_accepted_total': tot('posted'), 'messages_delivered_total': tot('delivered'),
        'boundary_hits': {k: tot(k) for k in ('wait_iterations', 'posts_during_wait_loop', 'sync_deliveries', 'moves',
                                             'stops_without_thread', 'first_check_empty', 'check_with_message_in_hand', 'foreign',
                                             'rejected_by_handler', 'rejected_on_worker')},
        'by_handler': hist(lambda s, r: 'bare OwnThreadHandler<FunctionHandler>' if s['path'] == 'rejecting' else 'Logger'),
        'long_backlog_children': sum(1 for s, r in pairs if s['backlog'] * s['delay'] >= 1000 * LONG_BACKLOG_S * 0.85),
        'longest_backlog_drained_s': max([0] + [round(s['backlog'] * s['delay'] / 1000.0, 1) for s, r in pairs if not r['problems'] and int(s.get('async', 1)) and s['path'] not in F5_PATHS]),
        'corpus_scenarios_replayed_first': sum(1 for s in scs if s.get('_corpus')),
        'extended_schedule_search': extended, 'sanitizer_children': sum(1 for s in scs if s.get('_san')),
        'max_child_wall_s': max(r['wall'] for _, r in pairs), 'skeleton_translator': pr.get('translator', {}),
    })
    show = [pairs[0], pairs[len(pairs) // 3], pairs[-1]]
    chk.samples = [{'argv': ' '.join(argv_of(s)), 'lines': len(r['lines']), 'head': r['lines'][:12], 'model': r['model'].get('raw'),
                    'hung': r['hung'], 'wall_s': r['wall']} for s, r in show]
    return chk.finish()


def replay(path):
    rp = json.load(open(path))['replay']
    if isinstance(rp, list):
        rp = rp[0]
    sc = rp.get('scenario')
    if not sc:
        print(json.dumps(rp, indent=1)); return 0
    vlib.gen_src(['shutdown'])
    model = vlib.build_model('shutdown'); impl = vlib.build_harness('shutdown')
    env = None
    if rp.get('sanitizer'):
        impl = vlib.build_harness('shutdown', 'san'); sc = dict(sc, _san=1)
        env = dict(os.environ, ASAN_OPTIONS='detect_leaks=0:abort_on_error=0', UBSAN_OPTIONS='print_stacktrace=1')
    print('command        ', impl, ' '.join(argv_of(sc)))
    r = run_child(impl, sc, want_stacks=True, env=env)
    probs, toks, facts = analyze(sc, r)
    print('implementation  hung=%s exit=%s wall=%.1fs accepted=%d delivered=%d' % (r['hung'], r['rc'], r['wall'], facts['posted'], facts['delivered']))
    cl = collapse(r['lines'])
    for l in cl[:80]:
        print('   ', l)
    if len(cl) > 80:
        print('    ... (%d lines)' % len(r['lines']))
    print('direct oracles ', probs or 'all satisfied')
    if r['rc'] not in (0, None):
        print('stderr         ', r.get('stderr_head', '')[:1500])
    if is_big(sc):
        _, mo, _ = vlib.run_lines(model, [str(sc['backlog'])], ['counter'])
        print('model          recording too long for the acceptor; loop test of the drain loop with %d pending: %s' % (sc['backlog'], mo[0] if mo else None))
    else:
        _, mo, _ = vlib.run_lines(model, [model_line(sc, toks)])
        print('model acceptor ', mo[0] if mo else None)
    if r['stacks']:
        print('stacks:'); print('\n'.join(r['stacks'][:40]))
    return 0
