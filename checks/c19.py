"""C19 — Configuration front-ends build the documented pipeline, end to end."""
import calendar, gzip, itertools, json, os, pty, re, select, shutil, subprocess, tempfile, time, tty
from concurrent.futures import ThreadPoolExecutor
import vlib

META = {
    'id': 'C19',
    'level': 'proof',
    'technique': 'Coq proof (shape of the built handler lists + pipeline-evaluation lemma, scanner specification of '
                 'the SGR stripper, invariant over install/restore/foreign histories of several Logger objects that are created and '
                 'destroyed, which-file-holds-which-line invariants of the startup/daily rotation options) + source-to-Coq translation '
                 'of configure.cpp/logger.cpp + differential run of the extracted model against one child process '
                 'per generated configuration and against the real qInstallMessageHandler state',
    'text': 'Theorems (Properties_C19.v) state, for ALL settings objects / one-line arguments over the modelled value '
            'menus and ALL message streams, that the handler list configure() builds (as translated from the source on '
            'every run) delivers every passing message exactly once to each configured output, formatted by the '
            'selected formatter, and to no other; that with the one-line configuration the file text is the console '
            'text minus its SGR sequences; what exactly the stripper removes; for ALL histories of install / '
            'restore / foreign calls by ANY number of Logger objects (the singleton and stack / scoped / heap loggers that are '
            'created and destroyed on the way), which handler a restore leaves and who receives the messages afterwards - also after '
            'the installing logger is gone; and, for every old content of the log file (lines last written on an earlier day) and every '
            'stream, which FILE holds which line under the startup / daily / count options of both front-ends (old lines of another day are '
            'moved to <base>.<that day>.<index>.<suffix>, no file mixes days, nothing is lost).  The extracted model and the boolean oracles are '
            'run against child processes that log through Qt\'s macros (stdout, stderr, log directory captured) and '
            'against the real handler state.',
    'note': 'Trusted: Coq 8.16.1 kernel (vm_compute only for the closed source-configuration checks and examples), no '
            'axioms; tools/s2c/config.py (regex translation of configure.cpp, logger.cpp, prettyformatter.h, '
            'stderrsink.h, platformstdsink.h, rotatingfilesink.h) and tools/s2c/fluent.py (every fluent method of simplepipeline.cpp as a table: class constructed, arguments handed on); extraction (ExtrOcamlBasic only) and '
            'ocaml/drv_config.ml; harness/h_config.cpp, harness/h_install.cpp and this script (INI writing, capture, '
            'decompression and concatenation of rotated files).  The pattern mini-language (C12), Qt category rules '
            '(C15) and regular expressions are NOT modelled here in general: configurations are restricted to closed '
            'menus (patterns made of literals, %{message} %{type} %{category} and the conditional sections %{if-<type>}...%{endif}, incl. patterns in which no section applies to a message: an EMPTY record, never the raw text; rules = exact name or name+trailing '
            '"*", optional .debug/.info/.warning/.critical suffix; regular expressions = literal, ^literal, literal$) '
            'decided by few-line matchers of this model; the general languages belong to C12/C15/C16.  Modelled not '
            'verified: QSettings INI lexing and QVariant conversions (values are written quoted; boolean spellings are '
            'converted by the generator using Qt\'s rule), QDateTime rendering (time text passed in, virtual clock), '
            'isatty (pipes and ptys both exercised), the qInstallMessageHandler of Qt itself and default handler (the install harness sees the default handler print on fd 2), the locale codec (QTextCodec: a share of the children select ISO-8859-1 with QTextCodec::setCodecForLocale; expected bytes are the UTF-16 text of the model mapped per code unit, above U+00FF to a question mark, and console and file are compared as bytes), rotation BY SIZE, retention and compression of the file sink (C05-C08: the '
            'check concatenates the rotated files, gunzips, and accepts a record-aligned suffix when retention '
            'trimmed; the file-layout model / oracle cover startup and daily rotation of a synchronous stream and are consulted only where the size limit '
            'and the retention limit cannot trigger and the old lines are not dated after the first message; the mtime of the old file is set with utime, '
            'the date in a rotated name is mapped to a day number by this script), asynchronous hand-off (C03/C04: async runs drain through exec()+quit or resetOwnThread with a '
            'live QCoreApplication), syslog (the sink is configured but cannot be captured offline: only its presence '
            'in the handler list and the other outputs being unaffected are observed), embedded NUL characters '
            '(console sinks print C strings), qFatal (aborts the process; belongs to C11).  On this platform the platform log '
            '(platform_std_log, default true) is a second StdErrSink: a configuration with the stderr key AND the platform log '
            'writes each record twice to the stderr stream - once per configured output, which is what the property asks; the '
            'model keeps the two outputs apart (OStderr / OPlatform) and predicts their interleaving.  Asynchronous streams are '
            'kept within one virtual day: a backlog processed after the date changed makes daily rotation name files out of '
            'order (DESIGN section 5 F7, C09).  strip_sgr is proved NOT idempotent (C19_strip_sgr_idempotent_refuted, same as '
            'QString::remove); the partial statement is proved instead.  Thorough tier adds ASan+UBSan+leak-checked children and coqchk.',
    'design_ref': 'DESIGN.md section 4, C19',
    'engine': 'coq+extraction+harness',
}

BKEYS = ['stdout', 'stdout_color', 'stderr', 'stderr_color', 'platform_std_log', 'rotate_on_startup',
         'rotate_daily', 'compress_old_files', 'async']
BDEF = {'stdout': False, 'stdout_color': False, 'stderr': False, 'stderr_color': False, 'platform_std_log': True,
        'rotate_on_startup': True, 'rotate_daily': False, 'compress_old_files': False, 'async': False}
TYPES = 'dwci'
CATS = ['default', 'net', 'app', 'app.ui', 'app.db', 'x', 'app.u.ui.list', 'aa', 'nenet']
TEXTS = ['hello', 'Ünï ©', 'zażółć gęślą', 'smile 😀 end', 'keep me', 'Alpha 1', 'password=1', 'z', '', 'a b c', 'tail z', 'Amid keep', 'café 日本', 'line1\nline2',
         '\x1b[31mred\x1b[0m', 'x\x1b[1;38;5;88my', '\x1b[', '\x1b[3\x1b[0m1m', '100% %{message}', ' lead', 'semi;colon=1']
ESC_FRAGS = ['\x1b[0m', '\x1b[31m', '\x1b[1;38;5;88m', '\x1b[', '\x1b', '[0m', 'm', '1;', 'x', '\x1b[;m', '\x1b[3', '\x1b[m',
             'abc', ' ', '\x1b[38;5;172mtext\x1b[0m', '\x1b[3\x1b[0m1m', '\x1b\x1b[0m', '\x1b[0;', '\x1b[:m', '\x1b[0n', ';', '9']
LITS = ['', ' ', ': ', '[', '] ', ' - ', 'LOG ', '#', 'a=b;c', '"q" ', 'back\\slash ', ', ']
RXLITS = ['keep', 'A', 'z', 'a b', '1', '', 'e', 'a', 'l', 'nomatch']
TRUE_SP = ['true', '1', 'TRUE', 'True', 'yes', 'on', '2']
FALSE_SP = ['false', '0', 'FALSE', 'False', '']


def hx16(s):
    b = s.encode('utf-16-le', 'surrogatepass')
    return ''.join('%02x%02x' % (b[i + 1], b[i]) for i in range(0, len(b), 2)) if b else '-'


def unhx16(h):
    if h in ('-', ''):
        return ''
    b = b''.join(int(h[i:i + 4], 16).to_bytes(2, 'little') for i in range(0, len(h), 4))
    return b.decode('utf-16-le', 'surrogatepass')


def hx8(s):
    return (s.encode('utf-8') if isinstance(s, str) else s).hex() or '-'


def latin1_map(s):
    """QLatin1Codec::convertFromUnicode, per UTF-16 code unit: above U+00FF -> '?'"""
    b = s.encode('utf-16-le', 'surrogatepass')
    return ''.join(chr(u) if u < 256 else '?' for u in (b[i] | (b[i + 1] << 8) for i in range(0, len(b), 2)))


def to_bytes(h, codec='utf8'):
    """bytes a sink writes for the model's UTF-16 text under the process's locale codec (the codec is
    outside the model)"""
    if codec == 'latin1':
        return latin1_map(unhx16(h)).encode('latin-1')
    return unhx16(h).encode('utf-8', 'surrogatepass')


def of_bytes(b, codec='utf8'):
    return hx16(b.decode('latin-1') if codec == 'latin1' else b.decode('utf-8', 'replace'))


def timestr(t):
    return time.strftime('%d.%m.%Y %H:%M:%S', time.gmtime(t))


# ------------------------------------------------------------------------------------ generators
def gen_msgs(rng, n, esc=False, same_day=False):
    """same_day: asynchronous configurations process the backlog later, when the (virtual) current date may
    already differ from the messages' dates - daily rotation then names files out of order (C09's
    business, DESIGN section 5 F7); keep such streams within one day"""
    ms, t = [], 1700000000 + rng.randrange(0, 10 ** 7)
    if same_day:
        t = (t // 86400) * 86400 + rng.randrange(0, 3600)
    nthreads = rng.choice([1, 1, 2, 4])
    for _ in range(n):
        t += rng.choice([0, 0, 1, 59, 3600, 3600 if same_day else 86400])
        if esc and rng.random() < 0.7:
            text = ''.join(rng.choice(ESC_FRAGS) for _ in range(rng.randint(0, 7)))
        else:
            text = rng.choice(TEXTS)
        if text.endswith('\n'):
            text += '.'
        ms.append({'t': rng.choice(TYPES), 'w': rng.randrange(nthreads), 'cat': rng.choice(CATS + ['default', 'averyveryverylongcategoryname']),
                   'text': text, 'time': t})
    return ms


def gen_rule(rng):
    # wild: 0 = exact name, 1 = "name*" (starts with), 2 = "*name*" (contains; the literal behind the leading
    # wildcard makes the library's matcher backtrack: 'app.u.ui.list' / '.ui.', 'aa' / 'a', 'nenet' / 'net')
    wild = rng.choice([0, 0, 0, 1, 1, 1, 2, 2])
    name = (rng.choice(['', 'app.', 'app', 'n', 'net']) if wild == 1 else
            rng.choice(['.ui.', '.ui.', 'net', 'net', 'a', 'pp', 'et', 'ui.l', 'aa', '']) if wild == 2 else rng.choice(CATS + ['nomatch']))
    return {'name': name, 'wild': wild, 'type': rng.choice(['-', '-', 'd', 'i', 'w', 'c']), 'en': rng.random() < 0.5}


def gen_pattern(rng):
    menu = [['m'], ['t', ('l', ': '), 'm'], [('l', '['), 'c', ('l', '] '), 'm']]
    # conditional-only patterns: a message of another type gets an EMPTY record (not the raw text)
    cond = [[('i', 'c'), ('l', 'CRIT '), 'm', 'e', ('i', 'w'), ('l', 'WARN '), 'm', 'e'],
            [('i', 'w'), 'm', 'e'], [('i', 'd'), ('l', 'dbg: '), 'm'], [('i', 'i'), 't', 'e', ('i', 'c'), 'c'],
            [('i', 'f'), ('l', 'never'), 'e'], [('i', 'd'), 'e'], [('l', 'all '), ('i', 'i'), 'm', 'e', ('l', '.')]]
    x = rng.random()
    if x < 0.35:
        return rng.choice(menu)
    if x < 0.6:
        return rng.choice(cond)
    p = []
    for _ in range(rng.randint(1, 6)):
        p.append(rng.choice(['m', 't', 'c', ('l', rng.choice(LITS)), ('l', rng.choice(LITS)), ('i', rng.choice('dwcif')), 'e']))
    # adjacent literals are fine (they concatenate); make sure a placeholder does not get glued to a '%'
    return p


def gen_ini_case(rng, i, subset=None):
    keys = ['filter_rules', 'regexp_filter', 'message_pattern', 'syslog_ident', 'path', 'max_file_size', 'max_file_count'] + BKEYS
    if subset is None:
        dens = rng.choice([0.15, 0.4, 0.7, 1.0])
        subset = {k for k in keys if rng.random() < dens}
    c = {'front': 'ini', 'id': i, 'keys': sorted(subset)}
    c['rules'] = [gen_rule(rng) for _ in range(rng.randint(1, 4))] if 'filter_rules' in subset and rng.random() < 0.9 else []
    c['rx'] = (rng.choice('cps'), rng.choice(RXLITS)) if 'regexp_filter' in subset else None
    c['pattern'] = gen_pattern(rng) if 'message_pattern' in subset and rng.random() < 0.9 else []
    c['syslog'] = 'c19test' if 'syslog_ident' in subset and rng.random() < 0.9 else ''
    c['path'] = 'path' in subset and rng.random() < 0.95
    c['size'] = rng.choice([0, 1, 25, 60, 1048576, -1]) if 'max_file_size' in subset else None
    c['count'] = rng.choice([0, 1, 2, 3, 100, 100, -1]) if 'max_file_count' in subset else None
    c['b'] = {k: (rng.random() < 0.5) if k in subset else None for k in BKEYS}
    c['writer'] = rng.choice(['qsettings', 'python'])
    c['spell'] = {k: rng.choice(TRUE_SP if v else FALSE_SP) for k, v in c['b'].items() if v is not None}
    c['group'] = rng.choice(['-', '-', 'logger', 'log2', 'My Group'])
    c['api'] = rng.choice(['ini', 'inis'])
    c['end'] = rng.choice(['exec', 'reset'])
    c['tty'] = rng.choice([(0, 0), (0, 0), (1, 1), (1, 0), (0, 1)])
    c['codec'] = rng.choice(['utf8', 'utf8', 'utf8', 'latin1'])
    c['msgs'] = gen_msgs(rng, rng.randint(1, 10), esc=rng.random() < 0.15, same_day=bool(c['b']['async']))
    k2 = [r for r in c['rules'] if r['wild'] == 2 and r['name']]
    if k2 and rng.random() < 0.7:
        # aim messages at a "*name*" rule: categories that contain the name, the ones where a proper prefix of the name
        # sits right before its occurrence ('app.u.ui.list' / '.ui.', 'nenet' / 'net') first (the matcher has to backtrack)
        r = rng.choice(k2)
        hot = [x for x in ('app.u.ui.list', 'nenet', 'aa') if r['name'] in x and x != r['name']] or [x for x in CATS if r['name'] in x]
        for m in rng.sample(c['msgs'], min(len(c['msgs']), rng.randint(1, 2))):
            if hot:
                m['cat'] = rng.choice(hot)
                if r['type'] != '-' and rng.random() < 0.7:
                    m['t'] = r['type']
    gen_pre(rng, c)
    if c['rx'] and rng.random() < 0.6:
        # aim the literal at one of the messages so that the filter passes some and rejects others
        safe = [m['text'] for m in c['msgs'] if re.fullmatch(r'[A-Za-z0-9 ]+', m['text'])]
        if safe:
            t = rng.choice(safe)
            k = rng.randint(1, len(t))
            lit = {'c': t[rng.randrange(0, len(t) - k + 1):][:k], 'p': t[:k], 's': t[len(t) - k:]}[c['rx'][0]]
            c['rx'] = (c['rx'][0], lit)
    if c['rx'] and c['rx'][0] == 's':
        for m in c['msgs']:
            m['text'] = m['text'].replace('\n', ' ')
    return c


def gen_oneline_case(rng, i):
    c = {'front': 'oneline', 'id': i}
    c['path'] = rng.random() < 0.8
    c['size'] = rng.choice([0, 0, 1, 30, 100, 1048576, -5])
    c['count'] = rng.choice([0, 0, 1, 2, 5, 100])
    c['opts'] = rng.randrange(8)
    c['async'] = rng.random() < 0.5
    c['end'] = rng.choice(['exec', 'reset'])
    c['tty'] = rng.choice([(0, 0), (0, 0), (0, 1), (1, 1)])
    c['codec'] = rng.choice(['utf8', 'utf8', 'latin1'])
    c['msgs'] = gen_msgs(rng, rng.randint(1, 14), esc=rng.random() < 0.6, same_day=c['async'])
    gen_pre(rng, c)
    return c


PRE_DEFAULT_MTIME = 1600000000          # older than every virtual message date


def gen_pre(rng, c):
    """what the log file holds when the process starts and when it was last written: nothing / lines of a
    much earlier day / of the day before the first message / of the same day as the first message"""
    c['pre'] = rng.choice(['', '', 'OLD RECORD\n', 'OLD 1\nOLD 2\n'])
    t0 = c['msgs'][0]['time']
    day0 = (t0 // 86400) * 86400
    c['pre_mtime'] = rng.choice([PRE_DEFAULT_MTIME, PRE_DEFAULT_MTIME, day0 - 1, day0 - 86400 * rng.choice([1, 2, 31, 366]) + rng.randrange(86400),
                                 day0 + rng.randrange(0, t0 - day0 + 1)])


def gen_daily_case(rng, i, front):
    """daily rotation asked for, old lines in the file, messages today (and on the following days when the
    configuration is synchronous): which FILE holds which line.  Sizes / counts are chosen so that neither
    rotation by size nor the retention limit can interfere (both belong to C05-C09)."""
    if front == 'oneline':
        c = {'front': 'oneline', 'id': i, 'path': True, 'size': rng.choice([0, 0, -5, 1048576]), 'count': rng.choice([0, 0, 5, 100, 1]),
             'opts': rng.choice([2, 2, 2, 6, 3, 7]), 'async': rng.random() < 0.3, 'end': rng.choice(['exec', 'reset']),
             'tty': (0, 0), 'codec': 'utf8'}
        asyn = c['async']
    else:
        sub = {'path', 'rotate_daily'} | {k for k in ('rotate_on_startup', 'max_file_size', 'max_file_count', 'compress_old_files', 'message_pattern',
                                                       'platform_std_log', 'async') if rng.random() < 0.4}
        c = gen_ini_case(rng, i, subset=sub)
        c['path'] = True
        c['b']['rotate_daily'] = True; c['spell']['rotate_daily'] = rng.choice(TRUE_SP)
        if c['size'] is not None:
            c['size'] = rng.choice([0, -1, 1048576])
        if c['count'] is not None:
            c['count'] = rng.choice([0, 100, 100, 1, -1])
        c['tty'] = (0, 0)
        asyn = bool(c['b']['async'])
    t = 1700000000 + rng.randrange(0, 10 ** 7)
    ms = []
    for _ in range(rng.randint(1, 6)):
        ms.append({'t': rng.choice(TYPES), 'w': 0, 'cat': rng.choice(['default', 'app', 'net']), 'text': rng.choice(['hello', 'keep me', 'Alpha 1', 'z', 'a b c']), 'time': t})
        t += rng.choice([0, 1, 3600, 86400, 86400]) if not asyn and len({m['time'] // 86400 for m in ms}) < 3 else rng.choice([0, 1])
    if asyn:
        d = (ms[0]['time'] // 86400) * 86400
        for k, m in enumerate(ms):
            m['time'] = d + 100 + k
    c['msgs'] = ms
    day0 = (ms[0]['time'] // 86400) * 86400
    c['pre'] = rng.choice(['OLD RECORD\n', 'OLD 1\nOLD 2\n', 'OLD RECORD\n', ''])
    c['pre_mtime'] = rng.choice([day0 - 1, day0 - 86400 * rng.choice([1, 2, 31, 366]) + rng.randrange(86400), day0 - 86400 * rng.randint(1, 5),
                                 PRE_DEFAULT_MTIME, day0 + rng.randrange(0, ms[0]['time'] - day0 + 1)])
    return c


def msg_tokens(ms):
    out = ['M%d' % len(ms)]
    for m in ms:
        out += [m['t'], hx16(m['cat']), hx16(m['text']), str(m['w']), hx16(timestr(m['time'])), str(m['time'] // 86400)]
    return out


def ini_line(c):
    t = ['E%d%d' % tuple(c['tty']), 'R%d' % len(c['rules'])]
    for r in c['rules']:
        t += [hx16(r['name']), str(int(r['wild'])), r['type'], '1' if r['en'] else '0']
    t.append('X-' if c['rx'] is None else 'X%s:%s' % (c['rx'][0], hx16(c['rx'][1])))
    t.append('P%d' % len(c['pattern']))
    for p in c['pattern']:
        t.append(p if isinstance(p, str) else ('l:' + hx16(p[1]) if p[0] == 'l' else 'i:' + p[1]))
    t.append('B' + ''.join('-' if c['b'][k] is None else ('1' if c['b'][k] else '0') for k in BKEYS))
    t += ['Y' + hx16(c['syslog']), 'F' + (hx16('p') if c['path'] else '-'),
          'Z' + ('-' if c['size'] is None else str(c['size'])), 'C' + ('-' if c['count'] is None else str(c['count']))]
    return ' '.join(t + msg_tokens(c['msgs']))


def oneline_line(c):
    o = c['opts']
    t = ['E%d%d' % tuple(c['tty']), 'F' + (hx16('p') if c['path'] else '-'), 'Z%d' % c['size'], 'C%d' % c['count'],
         'B%d%d%d%d' % (o & 1, (o >> 1) & 1, (o >> 2) & 1, 1 if c['async'] else 0)]
    return ' '.join(t + msg_tokens(c['msgs']))


# ------------------------------------------------------------------------------------ running a child
ENV = {'LC_ALL': 'C.UTF-8', 'PATH': os.environ.get('PATH', '/usr/bin:/bin'), 'HOME': '/tmp',
       'ASAN_OPTIONS': 'detect_leaks=1', 'UBSAN_OPTIONS': 'print_stacktrace=1'}


def spawn(cmd, tty_out, tty_err, timeout=30):
    def mk(t):
        if t:
            m, s = pty.openpty()
            tty.setraw(s)
            return m, s
        return os.pipe()
    ro, wo = mk(tty_out)
    re_, we = mk(tty_err)
    p = subprocess.Popen(cmd, stdin=subprocess.DEVNULL, stdout=wo, stderr=we, env=ENV, close_fds=True)
    os.close(wo); os.close(we)
    bufs = {ro: b'', re_: b''}
    live = {ro, re_}
    t0 = time.time()
    hung = False
    while live:
        left = timeout - (time.time() - t0)
        if left <= 0:
            hung = True
            p.kill()
            break
        r, _, _ = select.select(list(live), [], [], min(left, 1.0))
        for fd in r:
            try:
                d = os.read(fd, 65536)
            except OSError:
                d = b''
            if d:
                bufs[fd] += d
            else:
                live.discard(fd)
    try:
        rc = p.wait(timeout=5)
    except subprocess.TimeoutExpired:
        p.kill(); rc = p.wait(); hung = True
    os.close(ro); os.close(re_)
    return (124 if hung else rc), bufs[ro], bufs[re_]


def py_quote(v):
    return '"' + v.replace('\\', '\\\\').replace('"', '\\"') + '"'


def write_ini(impl, c, texts, d, logpath):
    """INI file of the case; texts = (rules, regexp, pattern) as rendered by the model"""
    vals = []
    rules, rxt, pat = texts
    if 'filter_rules' in c['keys']:
        vals.append(('filter_rules', rules))
    if 'regexp_filter' in c['keys']:
        vals.append(('regexp_filter', rxt))
    if 'message_pattern' in c['keys']:
        vals.append(('message_pattern', pat))
    if 'syslog_ident' in c['keys']:
        vals.append(('syslog_ident', c['syslog']))
    if 'path' in c['keys']:
        vals.append(('path', logpath if c['path'] else ''))
    if c['size'] is not None:
        vals.append(('max_file_size', str(c['size'])))
    if c['count'] is not None:
        vals.append(('max_file_count', str(c['count'])))
    group = 'logger' if c['group'] == '-' else c['group']
    ini = os.path.join(d, 'conf.ini')
    if c['writer'] == 'qsettings':
        for k in BKEYS:
            if c['b'][k] is not None:
                vals.append((k, 'true' if c['b'][k] else 'false'))
        rc, out, err = vlib.sh([impl, 'mkini', ini, group] + ['%s=%s' % (k, hx8(v)) for k, v in vals])
        if rc != 0:
            raise RuntimeError('mkini failed: ' + err)
    else:
        lines = ['; written by checks/c19.py', '[%s]' % group.replace(' ', '%20')]
        for k, v in vals:
            plain = re.fullmatch(r'[A-Za-z0-9_./-]*', v) is not None
            lines.append('%s=%s' % (k, v if plain and c['id'] % 2 else py_quote(v)))
        for k in BKEYS:
            if c['b'][k] is not None:
                lines.append('%s = %s' % (k, c['spell'][k]))
        with open(ini, 'w') as f:
            f.write('\n'.join(lines) + '\n')
    return ini


ROT = re.compile(r'^app\.(\d{4}-\d{2}-\d{2})\.(\d+)\.log(\.gz)?$')


def collect_files(logdir):
    """records of the log directory in rotation order: rotated files by (date, index), then the active file;
    also file by file: [(date, index, bytes)] and the bytes of the active file"""
    names = sorted(os.listdir(logdir)) if os.path.isdir(logdir) else []
    rot, other, active = [], [], None
    for n in names:
        m = ROT.match(n)
        if m:
            rot.append(((m.group(1), int(m.group(2))), n))
        elif n == 'app.log':
            active = n
        else:
            other.append(n)
    data = b''
    per = []
    for (date, idx), n in sorted(rot):
        b = open(os.path.join(logdir, n), 'rb').read()
        if n.endswith('.gz'):
            try:
                b = gzip.decompress(b)
            except Exception:
                b = b'<<bad gzip>>'
        data += b
        per.append((date, idx, b))
    act = b''
    if active:
        act = open(os.path.join(logdir, active), 'rb').read()
        data += act
    return data, len(rot), other, names, per, act


def run_case(impl, c, texts, work):
    d = tempfile.mkdtemp(prefix='c%d_' % c['id'], dir=work)
    logdir = os.path.join(d, 'log')
    os.mkdir(logdir)
    logpath = os.path.join(logdir, 'app.log')
    if c['pre'] and c['path']:
        with open(logpath, 'w') as f:
            f.write(c['pre'])
        mt = c.get('pre_mtime', PRE_DEFAULT_MTIME)
        os.utime(logpath, (mt, mt))
    shape = os.path.join(d, 'shape.txt')
    s = ['shape ' + shape]
    if c.get('codec', 'utf8') == 'latin1':
        s.append('codec ISO-8859-1')
    if c['front'] == 'ini':
        ini = write_ini(impl, c, texts, d, logpath)
        s.append('%s %s %s' % (c['api'], hx8(ini), '-' if c['group'] == '-' else hx8(c['group'])))
    else:
        s.append('oneline %s %d %d %d %d' % (hx8(logpath) if c['path'] else '-', c['size'], c['count'], c['opts'], 1 if c['async'] else 0))
    for m in c['msgs']:
        s.append('time %d' % m['time'])
        s.append('msg %s %d %s %s' % (m['t'], m['w'], '-' if m['cat'] == 'default' and (m['time'] % 2) else hx8(m['cat']), hx8(m['text'])))
    s.append('end ' + c['end'])
    script = os.path.join(d, 'script.txt')
    with open(script, 'w') as f:
        f.write('\n'.join(s) + '\n')
    rc, out, err = spawn([impl, 'run', script], c['tty'][0], c['tty'][1])
    data, nrot, other, names, per, act = collect_files(logdir)
    try:
        sh = open(shape).read().split()
    except FileNotFoundError:
        sh = ['?', '?']
    shutil.rmtree(d, ignore_errors=True)
    return {'rc': rc, 'out': out, 'err': err, 'file': data, 'nrot': nrot, 'other': other, 'names': names,
            'per_file': per, 'active': act,
            'shape': sh[0] if sh else '?', 'async': sh[1] if len(sh) > 1 else '?'}


def eff_count(c):
    if c['front'] == 'ini':
        return 5 if c['count'] is None else c['count']
    return c['count']


def file_view(c, obs, expected):
    """observed file text with the pre-existing content removed; a record-aligned suffix is accepted
    (and completed) when retention (C06) can have removed the oldest rotated files"""
    data = obs['file']
    pre = c['pre'].encode() if c['path'] else b''
    full = pre + expected
    if data == full:
        return expected, False
    n = eff_count(c)
    if n >= 2 and obs['nrot'] == n - 1 and len(data) < len(full) and full.endswith(data) and \
            (len(full) == len(data) or full[len(full) - len(data) - 1:len(full) - len(data)] == b'\n'):
        return expected, True
    return (data[len(pre):] if data.startswith(pre) else data), False


# ------------------------------------------------------------------------------------ which file holds which record
def day_of_date(s):
    y, m, d = (int(x) for x in s.split('-'))
    return calendar.timegm((y, m, d, 0, 0, 0)) // 86400


def eff_size(c):
    if c['front'] == 'ini':
        return 1048576 if c['size'] is None else c['size']
    return c['size']


def is_async(c):
    return bool(c['b']['async']) if c['front'] == 'ini' else bool(c['async'])


def pre_of(c):
    """(number of old lines, day they were last written) of the file found at start"""
    if not (c['pre'] and c['path']):
        return 0, 0
    return c['pre'].count('\n'), c.get('pre_mtime', PRE_DEFAULT_MTIME) // 86400


def layout_applicable(c, rec_bytes, model_layout):
    """the layout model covers startup / daily rotation of a synchronous stream; the check asks it only where
    rotation by size and the retention limit cannot interfere and where name order = creation order"""
    if not c['path']:
        return False
    days = [m['time'] // 86400 for m in c['msgs']]
    if days != sorted(days):
        return False
    npre, d0 = pre_of(c)
    if npre and d0 > days[0]:
        return False
    if is_async(c) and len(set(days)) > 1:
        return False
    sz = eff_size(c)
    if sz > 0 and sz < len(c['pre']) + sum(len(r) for r in rec_bytes) + 64:
        return False
    n = eff_count(c)
    nrot = 0 if model_layout.split()[0] == '-' else model_layout.split()[0].count(',') + 1
    if n >= 2 and nrot > n - 1:
        return False
    return True


def observed_layout(c, o, rec_bytes):
    """'<day>:<index>:<records>,... <records of the active file>' of the log directory, or None when a file does not
    hold whole records of the expected stream (then the stream oracle / file_view has already objected)"""
    recs = [l + b'\n' for l in c['pre'].encode().split(b'\n')[:-1]] if (c['pre'] and c['path']) else []
    recs += rec_bytes
    k, out = 0, []
    for date, idx, b in list(o['per_file']) + [(None, None, o['active'])]:
        n, got = 0, b''
        while len(got) < len(b) and k < len(recs):
            got += recs[k]; k += 1; n += 1
        if got != b:
            return None
        out.append((date, idx, n))
    if k != len(recs):
        return None
    rot = ','.join('%d:%d:%d' % (day_of_date(d), i, n) for d, i, n in out[:-1]) or '-'
    return '%s %d' % (rot, out[-1][2])


def show_layout(txt):
    if txt is None:
        return None
    rot, act = txt.split()
    fs = [] if rot == '-' else [f.split(':') for f in rot.split(',')]
    return {'rotated_files': ['app.%s.%s.log[.gz]: %s record(s)' % (time.strftime('%Y-%m-%d', time.gmtime(int(d) * 86400)), i, n) for d, i, n in fs],
            'app.log': '%s record(s)' % act}


# ------------------------------------------------------------------------------------ the check
def compare_front(chk, front, cases, model, impl, work, stats):
    """returns list of failing cases (oracle falsified) and list of model/impl disagreements"""
    lines = [ini_line(c) if front == 'ini' else oneline_line(c) for c in cases]
    if front == 'ini':
        _, tx, _ = vlib.run_lines(model, lines, ['initext'])
        texts = [tuple(unhx16(x) for x in t.split()) for t in tx]
    else:
        texts = [None] * len(cases)
    _, mo, _ = vlib.run_lines(model, lines, ['ini' if front == 'ini' else 'oneline'])
    with ThreadPoolExecutor(max_workers=min(12, vlib.NCPU)) as ex:
        obs = list(ex.map(lambda ct: run_case(impl, ct[0], ct[1], work), zip(cases, texts)))
    orc_in, views, olines = [], [], []
    for c, line, m, o in zip(cases, lines, mo, obs):
        f = m.split()
        cd = c.get('codec', 'utf8')
        exp_file = to_bytes(f[4], cd) if len(f) > 4 else b''
        fv, trimmed = file_view(c, o, exp_file)
        views.append((fv, trimmed))
        if front == 'ini':
            if cd == 'latin1':
                # the streams are decoded as Latin-1; the oracle is given the message texts as the codec renders
                # them (units above U+00FF -> '?'; no menu literal contains '?', so the filters decide alike)
                line = ini_line(dict(c, msgs=[dict(mm, text=latin1_map(mm['text'])) for mm in c['msgs']]))
            orc_in.append('%s | %s %s %s' % (line, of_bytes(o['out'], cd), of_bytes(o['err'], cd), of_bytes(fv, cd)))
        else:
            # console bytes and file bytes compared as bytes (decoded unit per byte under Latin-1)
            orc_in.append('%s %s' % (of_bytes(o['err'], cd), of_bytes(fv, cd)) if c['path'] else '- -')
        olines.append(line)
    _, verdict, _ = vlib.run_lines(model, orc_in, ['inioracle' if front == 'ini' else 'oloracle'])
    # which FILE holds which record (startup / daily options): model of the sink, observed directory, oracle
    lmode = 'ini' if front == 'ini' else 'ol'
    pres = [pre_of(c) for c in cases]
    _, mlay, _ = vlib.run_lines(model, ['%s | %d %d' % (line, np, d0) for line, (np, d0) in zip(olines, pres)], [lmode + 'layout'])
    lay = []
    for c, m, o, ml in zip(cases, mo, obs, mlay):
        f = m.split()
        k = 6 if front == 'ini' else 5
        cd = c.get('codec', 'utf8')
        rb = [] if len(f) <= k or f[k] == '-' else [to_bytes('-' if h == '.' else h, cd) + b'\n' for h in f[k].split(',')]
        ok = len(f) > k and len(ml.split()) == 2 and layout_applicable(c, rb, ml)
        lay.append({'applicable': ok, 'model': ml, 'observed': observed_layout(c, o, rb) if ok else None, 'verdict': '1'})
    idx = [i for i, l in enumerate(lay) if l['applicable'] and l['observed'] is not None]
    _, lver, _ = vlib.run_lines(model, ['%s | %d %d %s' % (olines[i], pres[i][0], pres[i][1], lay[i]['observed']) for i in idx], [lmode + 'layoracle'])
    for i, v in zip(idx, lver):
        lay[i]['verdict'] = v
    failing, disagree = [], []
    for c, line, m, o, (fv, trimmed), v, l in zip(cases, lines, mo, obs, views, verdict, lay):
        f = m.split()
        cd = c.get('codec', 'utf8')
        if len(f) < 5:
            disagree.append((c, 'model driver error: ' + m, o)); continue
        stats['trimmed'] += trimmed
        o['layout'] = show_layout(l['observed']); o['layout_model'] = show_layout(l['model']) if l['applicable'] else None
        why = []
        if o['rc'] != 0:
            why.append('child exit code %d%s' % (o['rc'], ' (timeout: hang)' if o['rc'] == 124 else ''))
        if v != '1':
            why.append('oracle: observed streams are not what the configuration says')
        if front == 'oneline':
            if o['out'] != b'':
                why.append('one-line configuration wrote to stdout')
            if not c['path'] and o['names']:
                why.append('files were created although no path was given')
        if front == 'ini' and not c['path'] and o['names']:
            why.append('files were created although no path key was given')
        if o['other']:
            why.append('unexpected files in the log directory: %s' % o['other'])
        if l['applicable']:
            stats['layout_checked'] = stats.get('layout_checked', 0) + 1
            np, d0 = pre_of(c)
            if np and d0 != c['msgs'][0]['time'] // 86400 and ((c['opts'] & 2) if front == 'oneline' else c['b'].get('rotate_daily')) and eff_count(c) != 1:
                stats['layout_daily_old_lines'] = stats.get('layout_daily_old_lines', 0) + 1
            if l['observed'] is not None and l['verdict'] != '1':
                why.append('file layout oracle: the files of the log directory do not hold the records the rotation options say (old lines of an earlier day '
                           'left in the active file / a file mixing days / records lost): %s' % json.dumps(o['layout']))
        if why:
            failing.append((c, why, o))
            continue
        diffs = []
        if o['shape'] != f[0]:
            diffs.append('handler list: model %s, implementation %s' % (f[0], o['shape']))
        if o['async'] != f[1]:
            diffs.append('own thread: model %s, implementation %s' % (f[1], o['async']))
        if o['out'] != to_bytes(f[2], cd):
            diffs.append('stdout differs')
        if o['err'] != to_bytes(f[3], cd):
            diffs.append('stderr differs')
        if fv != to_bytes(f[4], cd):
            diffs.append('log file differs')
        if l['applicable'] and l['observed'] != l['model']:
            diffs.append('file layout: model %s, implementation %s' % (json.dumps(show_layout(l['model'])),
                                                                        json.dumps(o['layout']) if l['observed'] else 'files that are not whole records of the stream'))
        if diffs:
            disagree.append((c, '; '.join(diffs), o))
    return failing, disagree, obs, mo


def small(o, codec='utf8'):
    enc = 'latin-1' if codec == 'latin1' else 'utf-8'
    return {'rc': o['rc'], 'stdout': o['out'].decode(enc, 'replace')[:600], 'stderr': o['err'].decode(enc, 'replace')[:900],
            'log_records': o['file'].decode(enc, 'replace')[:600], 'streams_decoded_as': enc, 'files': o['names'], 'handlers': o['shape'], 'own_thread': o['async'],
            'file_layout': o.get('layout'), 'file_layout_model_of_the_code': o.get('layout_model')}


def shrink_case(c, still_bad):
    """fewer messages first, then fewer keys"""
    cur = dict(c)
    ms = vlib.shrink_list(cur['msgs'], lambda l: bool(l) and still_bad(dict(cur, msgs=l)), max_steps=40)
    cur['msgs'] = ms
    if cur['front'] == 'ini':
        for k in list(cur['keys']):
            cand = dict(cur, keys=[x for x in cur['keys'] if x != k])
            if k in BKEYS:
                cand['b'] = dict(cur['b']); cand['b'][k] = None
            elif k == 'filter_rules':
                cand['rules'] = []
            elif k == 'regexp_filter':
                cand['rx'] = None
            elif k == 'message_pattern':
                cand['pattern'] = []
            elif k == 'syslog_ident':
                cand['syslog'] = ''
            elif k == 'path':
                cand['path'] = False
            elif k == 'max_file_size':
                cand['size'] = None
            elif k == 'max_file_count':
                cand['count'] = None
            if still_bad(cand):
                cur = cand
    return cur


def describe(c, texts=None):
    d = {k: c[k] for k in c if k not in ('msgs', 'spell', 'id')}
    d['messages'] = [{'type': m['t'], 'thread': m['w'], 'category': m['cat'], 'text': m['text'], 'time': m['time']} for m in c['msgs']]
    if c['front'] == 'ini':
        d['values_written'] = {k: (c['spell'][k] if c['writer'] == 'python' else str(c['b'][k]).lower()) for k in BKEYS if c['b'][k] is not None}
        if texts:
            d['filter_rules'], d['regexp_filter'], d['message_pattern'] = texts
    return d


# ------------------------------------------------------------------------------------ configuration histories
def gen_scenario(rng, i):
    """configure (rules that disable something) -> emit -> { clear() + configure without rules | restore } -> emit
    the same kinds of messages again.  Synchronous, one emitting thread (PrettyFormatter::instance() keeps its
    thread table across configurations), default size/count (no retention)."""
    keys = ['filter_rules', 'message_pattern', 'path'] + [k for k in BKEYS if k != 'async']
    sub = {'filter_rules'} | {k for k in keys if rng.random() < 0.4}
    if not ({'stdout', 'stderr', 'path'} & sub) and rng.random() < 0.7:
        sub.add(rng.choice(['stdout', 'stderr', 'path']))
    p1 = gen_ini_case(rng, 500000 + i, subset=set(sub))
    cats = ['net', 'app.ui', 'app.db', 'x']
    p1['rules'] = [gen_rule(rng) for _ in range(rng.randint(0, 2))] + \
                  [{'name': rng.choice(['net', 'app.', 'app.ui', '']), 'wild': int(rng.random() < 0.6), 'type': rng.choice(['-', 'd', 'i', 'w']), 'en': False}]
    for r in p1['rules']:
        if not r['wild'] and not r['name']:
            r['wild'] = 1
    p1.update(tty=(0, 0), codec='utf8', pre='', end='exec', size=None, count=None)
    p1['keys'] = [k for k in p1['keys'] if k not in ('max_file_size', 'max_file_count')]
    t = 1700000000 + rng.randrange(10 ** 6)
    ms = []
    for k in range(rng.randint(2, 5)):
        ms.append({'t': rng.choice(TYPES), 'w': 0, 'cat': rng.choice(cats), 'text': rng.choice(['one', 'two', 'keep me', 'Alpha 1', 'z']), 'time': t + k})
    # make sure something is actually disabled in phase 1: one message aimed at the last rule
    last = p1['rules'][-1]
    ms.append({'t': last['type'] if last['type'] != '-' else rng.choice(TYPES), 'w': 0,
               'cat': (last['name'] + ('ui' if last['name'].endswith('.') else '')) if last['name'] else rng.choice(cats), 'text': 'aimed', 'time': t + 9})
    p1['msgs'] = ms
    kind = rng.choice(['reconf', 'reconf', 'restore'])
    sc = {'front': 'history', 'id': i, 'kind': kind, 'phase1': p1, 'msgs2': [dict(m, time=m['time'] + 100, text=m['text'] + ' again') for m in ms]}
    if kind == 'reconf':
        p2 = dict(p1, keys=[k for k in p1['keys'] if k != 'filter_rules'], rules=[], id=p1['id'] + 1, msgs=sc['msgs2'])
        if rng.random() < 0.3:
            p2['rx'] = None; p2['keys'] = [k for k in p2['keys'] if k != 'regexp_filter']
        sc['phase2'] = p2
    return sc


def msg_script(ms):
    out = []
    for m in ms:
        out.append('time %d' % m['time'])
        out.append('msg %s %d %s %s' % (m['t'], m['w'], hx8(m['cat']), hx8(m['text'])))
    return out


def run_scenario(impl, model, sc, work):
    d = tempfile.mkdtemp(prefix='h%d_' % sc['id'], dir=work)
    logdir = os.path.join(d, 'log'); os.mkdir(logdir)
    logpath = os.path.join(logdir, 'app.log')
    foreign = os.path.join(d, 'foreign.txt')
    phases = [sc['phase1']] + ([sc['phase2']] if sc['kind'] == 'reconf' else [])
    lines = [ini_line(p) for p in phases]
    _, tx, _ = vlib.run_lines(model, lines, ['initext'])
    s = ['shape ' + os.path.join(d, 'shape.txt'), 'foreign ' + foreign]
    for k, (p, t) in enumerate(zip(phases, tx)):
        pd = os.path.join(d, 'p%d' % k); os.mkdir(pd)
        ini = write_ini(impl, p, tuple(unhx16(x) for x in t.split()), pd, logpath)
        if k:
            s.append('clear')
        s.append('%s %s %s' % (p['api'], hx8(ini), '-' if p['group'] == '-' else hx8(p['group'])))
        s += msg_script(p['msgs'])
    if sc['kind'] == 'restore':
        s.append('restore')
        s += msg_script(sc['msgs2'])
    s.append('end exec')
    script = os.path.join(d, 'script.txt')
    with open(script, 'w') as f:
        f.write('\n'.join(s) + '\n')
    rc, out, err = spawn([impl, 'run', script], 0, 0)
    data, nrot, other, names, _per, _act = collect_files(logdir)
    try:
        fl = [l.split() for l in open(foreign).read().splitlines()]
    except FileNotFoundError:
        fl = None
    shutil.rmtree(d, ignore_errors=True)
    # what the configurations say, phase by phase; the observed streams are cut at the specified lengths and each
    # piece is judged by the extracted oracle of its phase
    _, sp, _ = vlib.run_lines(model, lines, ['inispec'])
    spec = [[to_bytes(x) for x in l.split()] for l in sp]
    obs = [out, err, data]
    why, pos = [], [0, 0, 0]
    orc = []
    for k, (line, sx) in enumerate(zip(lines, spec)):
        last = k == len(spec) - 1
        piece = [o[pos[j]:] if last else o[pos[j]:pos[j] + len(sx[j])] for j, o in enumerate(obs)]
        pos = [pos[j] + len(sx[j]) for j in range(3)]
        orc.append('%s | %s %s %s' % (line, of_bytes(piece[0]), of_bytes(piece[1]), of_bytes(piece[2])))
    _, ver, _ = vlib.run_lines(model, orc, ['inioracle'])
    for k, v in enumerate(ver):
        if v != '1':
            why.append('configuration %d of the history: the outputs are not what ITS keys say' % (k + 1))
    if rc != 0:
        why.append('child exit code %d' % rc)
    if sc['kind'] == 'restore':
        want = [[m['t'], hx8(m['cat']), hx8(m['text'])] for m in sc['msgs2']]
        if fl != want:
            why.append('after restorePreviousMessageHandler() the previously installed handler received %d of the %d messages emitted' % (
                len(fl or []), len(want)))
    observed = {'rc': rc, 'stdout': out.decode('utf-8', 'replace'), 'stderr': err.decode('utf-8', 'replace'), 'log_records': data.decode('utf-8', 'replace'),
                'foreign_handler_received': None if fl is None else [' '.join([l[0], bytes.fromhex(l[1]).decode() if l[1] != '-' else '', bytes.fromhex(l[2]).decode('utf-8', 'replace') if l[2] != '-' else '']) for l in fl if len(l) == 3]}
    specified = {'per_configuration': [dict(zip(('stdout', 'stderr', 'log_records'), (x.decode('utf-8', 'replace') for x in sx))) for sx in spec]}
    if sc['kind'] == 'restore':
        specified['foreign_handler_receives'] = ['%s %s %s' % (m['t'], m['cat'], m['text']) for m in sc['msgs2']]
    return why, observed, specified, tx


def describe_scenario(sc, tx=None):
    d = {'front': 'history', 'kind': sc['kind'],
         'history': ['qInstallMessageHandler(F)', 'configure(ini #1)', 'emit messages #1'] +
                    (['clear()', 'configure(ini #2)', 'emit messages #2'] if sc['kind'] == 'reconf' else ['restorePreviousMessageHandler()', 'emit messages #2']),
         'phase1': describe(sc['phase1'], [unhx16(x) for x in tx[0].split()] if tx else None),
         'messages2': [{'type': m['t'], 'thread': m['w'], 'category': m['cat'], 'text': m['text'], 'time': m['time']} for m in sc['msgs2']]}
    if sc['kind'] == 'reconf':
        d['phase2'] = describe(sc['phase2'], [unhx16(x) for x in tx[1].split()] if tx else None)
    return d


def scenario_of(d):
    p1 = case_of(d['phase1'])
    sc = {'front': 'history', 'id': 0, 'kind': d['kind'], 'phase1': p1,
          'msgs2': [{'t': m['type'], 'w': m['thread'], 'cat': m['category'], 'text': m['text'], 'time': m['time']} for m in d['messages2']]}
    if d['kind'] == 'reconf':
        sc['phase2'] = case_of(d['phase2'], 1)
    return sc


def history_leg(chk, model, impl, work, n):
    rng = chk.rng
    scs = [gen_scenario(rng, i) for i in range(n)]
    with ThreadPoolExecutor(max_workers=min(12, vlib.NCPU)) as ex:
        res = list(ex.map(lambda sc: run_scenario(impl, model, sc, work), scs))
    bad = [(sc, r) for sc, r in zip(scs, res) if r[0]]
    for kind in ('reconf', 'restore'):
        kb = [x for x in bad if x[0]['kind'] == kind]
        if not kb:
            continue
        sc, (why, observed, specified, tx) = min(kb, key=lambda x: len(x[0]['phase1']['msgs']) + len(x[0]['phase1']['keys']))
        chk.fail('configuration history (%s): %s' % (' -> '.join(describe_scenario(sc)['history']), '; '.join(why)),
                 {'kind': 'config_history', 'front': 'history', 'why': why, 'scenario': describe_scenario(sc, tx), 'observed': observed,
                  'specified': specified, 'falsified_histories': len(kb)}, kind='config_history')
    dropped1 = sum(1 for sc, r in zip(scs, res) if len(r[2]['per_configuration'][0]['stderr'] + r[2]['per_configuration'][0]['stdout'] + r[2]['per_configuration'][0]['log_records']) == 0)
    return {'history_cases': n, 'history_kinds': {k: sum(1 for sc in scs if sc['kind'] == k) for k in ('reconf', 'restore')},
            'history_oracle_falsified': len(bad),
            'history_phase1_rejecting_rules_hit': sum(1 for sc in scs if not all(
                _py_pass(sc['phase1']['rules'], m) for m in sc['phase1']['msgs']))}


def _py_pass(rules, m):
    """generator statistics only: does the rule list let the message through (same few-line matcher as the model)"""
    en = True
    for r in rules:
        hit = ((r['name'] in m['cat']) if r['wild'] == 2 else m['cat'].startswith(r['name']) if r['wild'] else m['cat'] == r['name']) and r['type'] in ('-', m['t'])
        if hit:
            en = r['en']
    return en


def lexing_probe(model, impl):
    """information only (QSettings INI lexing is outside the model): what an UNQUOTED rules value containing
    ';' and '=' means to QSettings, decided by comparing the child with the model on the full / truncated value"""
    rules = [{'name': 'net', 'wild': False, 'type': 'd', 'en': False}, {'name': 'app', 'wild': True, 'type': '-', 'en': False}]
    base = {'front': 'ini', 'id': 1, 'keys': ['filter_rules', 'message_pattern', 'stdout', 'platform_std_log'], 'rx': None, 'pattern': ['m'],
            'syslog': '', 'path': False, 'size': None, 'count': None, 'b': {k: None for k in BKEYS}, 'writer': 'python',
            'spell': {'stdout': 'true', 'platform_std_log': 'false'}, 'group': '-', 'api': 'ini', 'end': 'exec', 'tty': (0, 0), 'pre': '',
            'msgs': [{'t': 'd', 'w': 0, 'cat': 'net', 'text': 'netdebug', 'time': 1700000000},
                     {'t': 'd', 'w': 0, 'cat': 'app.ui', 'text': 'appdebug', 'time': 1700000000},
                     {'t': 'i', 'w': 0, 'cat': 'net', 'text': 'netinfo', 'time': 1700000000}]}
    base['b']['stdout'] = True; base['b']['platform_std_log'] = False
    work = tempfile.mkdtemp(prefix='c19l_')
    try:
        res = {}
        for name, rs in (('all rules', rules), ('first rule only', rules[:1])):
            c = dict(base, rules=rs)
            _, m, _ = vlib.run_lines(model, [ini_line(c)], ['ini'])
            res[name] = to_bytes(m[0].split()[2])
        c = dict(base, rules=rules, id=1)     # odd id + plain value => written unquoted; ';' is not "plain", so force it
        d = tempfile.mkdtemp(prefix='probe_', dir=work)
        ini = os.path.join(d, 'conf.ini')
        with open(ini, 'w') as f:
            f.write('[logger]\nfilter_rules=net.debug=false;app*=false\nmessage_pattern=%{message}\nstdout=true\nplatform_std_log=false\n')
        script = os.path.join(d, 's.txt')
        with open(script, 'w') as f:
            f.write('ini %s -\n' % hx8(ini) + ''.join('time %d\nmsg %s 0 %s %s\n' % (m['time'], m['t'], hx8(m['cat']), hx8(m['text'])) for m in base['msgs']) + 'end exec\n')
        rc, out, err = spawn([impl, 'run', script], 0, 0)
        for name, exp in res.items():
            if out == exp:
                return 'unquoted `filter_rules=a.debug=false;b*=false` behaves as: %s (QSettings ends the value at the semicolon); quoted values are used throughout' % name
        return 'unquoted value with ; behaves like neither the full nor the truncated rule list: %r' % out[:200]
    finally:
        shutil.rmtree(work, ignore_errors=True)


def case_of(case, cid=0):
    """a case as written by describe() (replay files, corpus/C19/cases.json) back into generator form"""
    c = dict(case)
    c['msgs'] = [{'t': m['type'], 'w': m['thread'], 'cat': m['category'], 'text': m['text'], 'time': m['time']} for m in case['messages']]
    c['id'] = cid
    c['tty'] = tuple(c['tty'])
    if c['front'] == 'ini':
        c['pattern'] = [tuple(p) if isinstance(p, list) else p for p in c['pattern']]
        c['rx'] = tuple(c['rx']) if c['rx'] else None
        c['spell'] = dict(case.get('values_written', {}))
        for k in BKEYS:
            if c['b'].get(k) is not None and k not in c['spell']:
                c['spell'][k] = 'true' if c['b'][k] else 'false'
    return c


def corpus():
    d = os.path.join(vlib.VERIF, 'corpus', 'C19')
    hs, cs = [], []
    try:
        hs = [l.strip() for l in open(os.path.join(d, 'install_histories.txt')) if l.strip() and not l.startswith('#')]
    except FileNotFoundError:
        pass
    try:
        cs = [case_of(c, 900000 + i) for i, c in enumerate(json.load(open(os.path.join(d, 'cases.json'))))]
    except FileNotFoundError:
        pass
    return hs, cs


ALPHA_DOC = ('I gQtLogger.installMessageHandler() (logger 0, the singleton), R Logger::restorePreviousMessageHandler(), 1-3 foreign qInstallMessageHandler(F<n>), '
             'D foreign qInstallMessageHandler(nullptr); a b c = create Logger 1 2 3 (heap / in-place storage as on a stack / QSharedPointer), '
             'i j k = that logger\'s installMessageHandler(), x y z = destroy it; trace = two characters per call: current handler (L logger, D Qt default, 1-3) '
             'and who receives a message emitted then (d Qt default handler, 1-3 foreign, p q r s = pipeline of logger 0..3, - nobody)')


# ------------------------------------------------------------------------------------ several PrettyFormatter objects
PRETTY_LAYOUTS = {'L': 'one Logger per object (formatPretty + capturing sink, Logger::processMessage)',
                  'P': 'one installed Logger, one scoped sub-pipeline per object (pipeline().formatPretty()), Qt macros',
                  'F': 'bare PrettyFormatter objects, format() called directly'}


def gen_pretty_case(rng, i):
    layout = 'LPF'[i % 3] if i < 9 else rng.choice('LLPPF')
    nobj = 2 if i < 6 else rng.choice([1, 2, 2, 2, 3, 3, 4])
    cfgs = [(rng.random() < 0.4, rng.choice([0, 0, 15, 15, 5, 3])) for _ in range(nobj)]
    nthreads = rng.choice([2, 3, 4, 4]) if i >= 3 else 4
    t = 1700000000 + rng.randrange(0, 10 ** 7)
    ms = []
    for _ in range(rng.randint(3, 14)):
        t += rng.choice([0, 0, 1, 59, 3600])
        mask = (1 << nobj) - 1 if layout == 'P' or rng.random() < 0.35 else rng.randrange(1, 1 << nobj)
        ms.append({'mask': mask, 't': rng.choice(TYPES), 'w': rng.randrange(nthreads), 'cat': rng.choice(CATS + ['default', 'averyveryverylongcategoryname']),
                   'text': rng.choice(TEXTS), 'time': t})
    return {'id': i, 'layout': layout, 'cfgs': cfgs, 'msgs': ms}


def pretty_line(c):
    ops = [(k, m) for m in c['msgs'] for k in range(len(c['cfgs'])) if m['mask'] >> k & 1]
    t = ['O%d' % len(c['cfgs'])] + ['%d %d' % (1 if col else 0, w) for col, w in c['cfgs']] + ['D%d' % len(ops)]
    for k, m in ops:
        t += [str(k), m['t'], hx16(m['cat']), hx16(m['text']), str(m['w']), hx16(timestr(m['time'])), str(m['time'] // 86400)]
    return ' '.join(t)


def run_pretty(impl, c, work):
    """-> (rc, 'k:hex16,...' of the records the objects produced, in order)"""
    path = os.path.join(work, 'pretty_%d_%d.txt' % (c['id'], id(c) & 0xffff))
    lines = ['layout ' + c['layout']] + ['obj %d %d' % (1 if col else 0, w) for col, w in c['cfgs']]
    for m in c['msgs']:
        lines.append('time %d' % m['time'])
        lines.append('msg %d %s %d %s %s' % (m['mask'], m['t'], m['w'], '-' if m['cat'] == 'default' else hx8(m['cat']), hx8(m['text'])))
    with open(path, 'w') as f:
        f.write('\n'.join(lines) + '\n')
    env = dict(os.environ, TZ='UTC')
    try:
        p = subprocess.run([impl, 'pretty', path], stdout=subprocess.PIPE, stderr=subprocess.PIPE, timeout=300, env=env)
    finally:
        try:
            os.unlink(path)
        except OSError:
            pass
    recs = []
    for ln in p.stdout.decode('ascii', 'replace').splitlines():
        f = ln.split()
        if len(f) == 2 and f[0].isdigit():
            recs.append('%s:%s' % (f[0], of_bytes(b'' if f[1] == '-' else bytes.fromhex(f[1]))))
    return p.returncode, ','.join(recs) or '-'


def show_recs(s):
    return [] if s in ('-', '') else ['%s: %s' % (r.split(':')[0], unhx16(r.split(':')[1])) for r in s.split(',')]


def describe_pretty(c):
    return {'layout': c['layout'], 'layout_means': PRETTY_LAYOUTS[c['layout']],
            'objects': [{'colorize': col, 'maxCategoryWidth': w} for col, w in c['cfgs']],
            'messages': [{'to_objects': [k for k in range(len(c['cfgs'])) if m['mask'] >> k & 1], 'type': m['t'], 'thread': m['w'],
                          'category': m['cat'], 'text': m['text'], 'time': m['time']} for m in c['msgs']]}


def pretty_of(d):
    return {'id': 0, 'layout': d['layout'], 'cfgs': [(o['colorize'], o['maxCategoryWidth']) for o in d['objects']],
            'msgs': [{'mask': sum(1 << k for k in m['to_objects']), 't': m['type'], 'w': m['thread'], 'cat': m['category'], 'text': m['text'],
                      'time': m['time']} for m in d['messages']]}


def judge_pretty(model, impl, c, work):
    """-> (oracle holds on the implementation's records, they equal the model's, implementation records, model records)"""
    rc, got = run_pretty(impl, c, work)
    line = pretty_line(c)
    _, mo, _ = vlib.run_lines(model, [line], ['pretty'])
    _, orc, _ = vlib.run_lines(model, ['%s | %s' % (line, got)], ['prettyoracle'])
    return (rc == 0 and orc and orc[0] == '1'), (mo and mo[0] == got), got, (mo[0] if mo else '?')


def pretty_leg(chk, model, impl, work, n):
    """messages of 1 + 3 threads through 1-4 PrettyFormatter objects interleaved in one process; every object's records
    against its own model instance (the records of an object are a function of the sequence IT has seen)"""
    rng = chk.rng
    cs = [gen_pretty_case(rng, i) for i in range(n)]
    with ThreadPoolExecutor(max_workers=min(8, vlib.NCPU)) as ex:
        res = list(ex.map(lambda c: judge_pretty(model, impl, c, work), cs))
    bad = [(c, r) for c, r in zip(cs, res) if not r[0]]
    differ = [(c, r) for c, r in zip(cs, res) if r[0] and not r[1]]
    if bad:
        c, r = min(bad, key=lambda x: (len(x[0]['cfgs']), len(x[0]['msgs'])))

        def still_bad(ms, c=c):
            return bool(ms) and not judge_pretty(model, impl, dict(c, msgs=ms), work)[0]
        c = dict(c, msgs=vlib.shrink_list(c['msgs'], still_bad, max_steps=120))
        # a delivery to several objects -> try single objects
        for i in range(len(c['msgs'])):
            for k in range(len(c['cfgs'])):
                m = c['msgs'][i]
                if m['mask'] >> k & 1 and m['mask'] != 1 << k and c['layout'] != 'P':
                    cand = c['msgs'][:i] + [dict(m, mask=m['mask'] & ~(1 << k))] + c['msgs'][i + 1:]
                    if still_bad(cand):
                        c = dict(c, msgs=cand)
        ok, same, got, mo = judge_pretty(model, impl, c, work)
        per_obj = {}
        for k, (col, w) in enumerate(c['cfgs']):
            per_obj['object %d' % k] = {'observed': [x.split(': ', 1)[1] for x in show_recs(got) if x.startswith('%d: ' % k)],
                                        'specified (a fresh formatter over the messages delivered to this object)':
                                            [x.split(': ', 1)[1] for x in show_recs(mo) if x.startswith('%d: ' % k)]}
        chk.fail('several PrettyFormatter objects in one process: the records of an object are not those of a formatter that has seen exactly '
                 'the messages delivered to it (thread numbering / category column leak between objects or threads)',
                 {'kind': 'pretty_objects', 'front': 'pretty_objects', 'pretty_case': describe_pretty(c), 'per_object': per_obj,
                  'falsified_cases': len(bad)}, kind='pretty_objects')
    elif differ:
        c, r = differ[0]
        chk.broke('several PrettyFormatter objects: records differ from the model although every object is consistent (%d cases)' % len(differ),
                  {'kind': 'correspondence', 'front': 'pretty_objects', 'pretty_case': describe_pretty(c), 'observed': show_recs(r[2]), 'model': show_recs(r[3])})
    labelled = sum(1 for c, r in zip(cs, res) if re.search(r'00540031|0054003[2-9]', r[2]))
    return {'pretty_objects_cases': n, 'pretty_objects_falsified': len(bad), 'pretty_objects_disagreements': len(differ),
            'pretty_objects_layouts': {k: sum(1 for c in cs if c['layout'] == k) for k in 'LPF'},
            'pretty_objects_per_case': {str(k): sum(1 for c in cs if len(c['cfgs']) == k) for k in (1, 2, 3, 4)},
            'pretty_objects_cases_with_thread_labels': labelled,
            'pretty_objects_records': sum(0 if r[2] == '-' else r[2].count(',') + 1 for r in res),
            'pretty_objects_thread_first_seen_by_another_object': sum(1 for c in cs if _cross_first(c)),
            'pretty_objects_sample': {'case': describe_pretty(cs[0]), 'observed': show_recs(res[0][2])}}


def _cross_first(c):
    """does some thread reach an object after it went through ANOTHER object first (and that object has seen a different thread before)?"""
    first = {}
    seen = {k: [] for k in range(len(c['cfgs']))}
    for m in c['msgs']:
        for k in range(len(c['cfgs'])):
            if m['mask'] >> k & 1:
                if m['w'] not in seen[k]:
                    if m['w'] in first and first[m['w']] != k:
                        return True
                    seen[k].append(m['w'])
                first.setdefault(m['w'], k)
    return False


def well_formed(h):
    alive = set()
    for ch in h:
        if ch in 'abc':
            if ch in alive:
                return False
            alive.add(ch)
        elif ch in 'ijk':
            if 'abc'['ijk'.index(ch)] not in alive:
                return False
        elif ch in 'xyz':
            k = 'abc'['xyz'.index(ch)]
            if k not in alive:
                return False
            alive.discard(k)
    return True


def gen_lifetime(rng):
    """random history in which Logger objects come and go; mostly well formed (calls on a logger that does not exist
    are skipped by harness and model alike)"""
    alive, h = set(), ''
    for _ in range(rng.randint(2, 14)):
        x = rng.random()
        if x < 0.22:
            k = rng.randrange(3)
            h += 'abc'[k] if k not in alive else 'ijk'[k]
            alive.add(k)
        elif x < 0.45 and alive:
            h += 'ijk'[rng.choice(sorted(alive))]
        elif x < 0.62 and alive:
            k = rng.choice(sorted(alive)); alive.discard(k); h += 'xyz'[k]
        elif x < 0.8:
            h += 'R'
        elif x < 0.97:
            h += rng.choice('I12D')
        else:
            h += rng.choice('abcijkxyz')
    return h


def install_leg(chk, model, impl, thorough):
    rng = chk.rng
    hs = list(corpus()[0])
    alpha = 'IR123D'
    for _ in range(20000 if thorough else 5000):
        k = rng.randint(1, 12)
        w = rng.choice(['IIRR123D', 'IR', 'IIIR1', 'IR123', 'IRRR12D'])
        hs.append(''.join(rng.choice(w) for _ in range(k)))
    ex = 7 if thorough else 5
    for k in range(1, ex + 1):
        hs += [''.join(t) for t in itertools.product('IR123', repeat=k)]
    hs += [''.join(t) for t in itertools.product(alpha, repeat=4)]
    # object lifetime: every history over { singleton install, restore, one foreign handler, create / install / destroy of
    # one non-singleton logger } up to the stated length, two loggers exhaustively at a smaller length, then random ones
    exl = 6 if thorough else 5
    n_before = len(hs)
    for k in range(1, exl + 1):
        hs += [''.join(t) for t in itertools.product('IR1aix', repeat=k)]
    for k in range(1, (5 if thorough else 4) + 1):
        hs += [h for h in (''.join(t) for t in itertools.product('R1aixbjy', repeat=k)) if well_formed(h)]
    hs += [gen_lifetime(rng) for _ in range(20000 if thorough else 4000)]
    n_life = len(hs) - n_before
    rc, out_i, err_i = vlib.run_lines(impl, hs)
    _, out_m, _ = vlib.run_lines(model, hs, ['install'])
    if rc != 0 or len(out_i) != len(hs):
        chk.fail('install/restore harness crashed', {'kind': 'crash', 'rc': rc, 'stderr': err_i[-400:]}, kind='crash')
        out_i = out_i + [''] * (len(hs) - len(out_i))
    # the small exhaustive core again with every history in its own forked process (pristine state, no reset to trust)
    core = list(corpus()[0]) + [''.join(t) for k in range(1, 5) for t in itertools.product('IR1aix', repeat=k)]
    _, out_c, _ = vlib.run_lines(impl, core, ['fork'])
    out_c = out_c + [''] * (len(core) - len(out_c))
    hs_all, out_all = hs + core, out_i + out_c
    _, ver, _ = vlib.run_lines(model, ['%s %s' % (h, o) for h, o in zip(hs_all, out_all)], ['instoracle'])
    cand = sorted({h for h, v in zip(hs_all, ver) if v != '1'}, key=lambda h: (len(h), h))
    _, out_mc, _ = vlib.run_lines(model, core, ['install'])
    dis = [h for h, a, b in zip(hs_all, out_all, out_m + out_mc) if a != b]

    def impl_bad(hist):
        """in a process of its own"""
        h = ''.join(hist)
        if not h:
            return False
        _, o, _ = vlib.run_lines(impl, [h], ['fork'])
        _, v, _ = vlib.run_lines(model, ['%s %s' % (h, o[0] if o else '')], ['instoracle'])
        return bool(v) and v[0] != '1'
    bad = []
    if cand:
        # confirm each candidate from the pristine state: a history that only misbehaves after other histories ran in the
        # same process is not a failing input by itself
        some = cand[:3000]
        _, o2, _ = vlib.run_lines(impl, some, ['fork'])
        _, v2, _ = vlib.run_lines(model, ['%s %s' % (h, o) for h, o in zip(some, o2 + [''] * (len(some) - len(o2)))], ['instoracle'])
        bad = [h for h, v in zip(some, v2) if v != '1']
        if not bad:
            chk.broke('install/restore: %d histories misbehave only when run after other histories in the same process (state left behind survives '
                      'destroying every logger + restore + qInstallMessageHandler(nullptr)), e.g. %r' % (len(cand), cand[0]),
                      {'kind': 'install_state_leak', 'history': cand[0]})
    if bad:
        h = ''.join(vlib.shrink_list(list(bad[0]), impl_bad))
        _, o, _ = vlib.run_lines(impl, [h], ['fork'])
        _, m, _ = vlib.run_lines(model, [h], ['install'])
        tr = o[0] if o else ''
        # classify: which call misbehaved
        what = 'restore' if h.endswith('R') else 'other'
        life = any(ch in h for ch in 'abcijkxyz')
        chk.fail('install/restore history %r%s leaves the wrong message handler current / delivers the messages to the wrong receiver (after each call: %s)' % (
                     h, ' (Logger objects created / destroyed on the way)' if life else '', tr),
                 {'kind': 'install_restore', 'history': h, 'last_call': what, 'logger_lifetime': life,
                  'alphabet': ALPHA_DOC,
                  'implementation_current_and_receiver_after_each_call': tr, 'model_current_and_receiver_after_each_call': m[0] if m else None,
                  'falsified_histories': len(bad)}, kind='install_restore')
    if dis:
        h = min(dis, key=len)
        chk.broke('correspondence: install/restore model (as translated from logger.cpp) and the real handler state differ on %d histories, e.g. %r' % (len(dis), h),
                  {'kind': 'correspondence', 'front': 'install', 'history': h})
    life_nontriv = {h for h in hs if re.search(r'a.*i.*x.*R|b.*j.*y.*R|c.*k.*z.*R', h)}
    return {'install_histories': len(hs), 'install_core_histories_in_own_process': len(core), 'install_exhaustive_up_to': ex, 'install_disagreements': len(dis), 'install_oracle_falsified': len(bad),
            'install_lifetime_histories': n_life, 'install_lifetime_exhaustive_up_to': exl,
            'install_lifetime_restore_after_installer_destroyed': len(life_nontriv),
            'install_messages_swallowed_seen': sum(1 for o in out_i if '-' in o[1::2]),
            'install_distinct_nontrivial': len({h for h in hs if ('I' in h or 'i' in h or 'j' in h or 'k' in h) and 'R' in h and any(d in h for d in '123D')} | life_nontriv),
            'install_samples': [{'history': hs[i], 'impl': out_i[i], 'model': out_m[i]} for i in (0, 1500, len(hs) - 1)]}


def run():
    chk = vlib.Check('C19')
    chk.trusted = ['Coq 8.16.1 kernel; vm_compute only on closed terms (source-configuration checks, examples); no native_compute',
                   'axioms: none (every Print Assumptions: Closed under the global context)',
                   'tools/s2c/config.py translator (configure.cpp, logger.cpp, prettyformatter.h, stderrsink.h, platformstdsink.h, rotatingfilesink.h -> SrcConfig.v)',
                   'extraction ExtrOcamlBasic, no Extract Constant; ocaml/drv_config.ml',
                   'harness/h_config.cpp (one child per configuration, virtual wall clock), harness/h_install.cpp (several Logger objects: heap, in-place storage, QSharedPointer; receiver of a probe message after every call; fd 2 redirected to a file to see Qt\'s default handler), '
                   'checks/c19.py (INI writing, capture through pipes/ptys, concatenation + gunzip of rotated files, record counts per file, back-dating of the old log file)',
                   'modelled not verified: QSettings INI lexing, QVariant conversions, QDateTime rendering, isatty, PCRE, pattern/category languages outside the menus, rotation/retention/compression, async hand-off, syslog']
    chk.assumptions = ['configuration values come from the modelled menus (META.note); string values are written quoted',
                       'messages contain no NUL character; qFatal is not emitted',
                       'install/restore histories: foreign parties install their own handlers or nullptr, never Logger::messageHandler itself; a Logger is destroyed by its owner, not while one of its calls runs',
                       'file layout: the log directory holds no rotated files at start; old lines are dated on or before the first message; size / retention limits out of reach',
                       'one configuration per process (PrettyFormatter::instance() is process-wide state); the several-PrettyFormatter-objects leg runs its objects in one process on purpose',
                       'syslog output is not observed (offline sandbox)',
                       'async configurations are drained with a live QCoreApplication (exec()+quit or resetOwnThread); the no-event-loop exit path is C04']
    chk.proof(vlib.proof_leg('Properties_C19', ['config', 'fluent']))
    model = vlib.build_model('config')
    impl = vlib.build_harness('config')
    impl_i = vlib.build_harness('install')
    thorough = chk.tier == 'thorough'
    rng = chk.rng
    cov = install_leg(chk, model, impl_i, thorough)

    keys = ['filter_rules', 'regexp_filter', 'message_pattern', 'syslog_ident', 'path', 'max_file_size', 'max_file_count'] + BKEYS
    cases = []
    corpus_cases = corpus()[1]
    fixed = [set(), set(keys)] + [{k} for k in keys] + [{'stdout', 'stderr'}, {'stdout', 'stderr', 'path'}, {'stdout_color', 'stderr_color'},
                                                          {'path', 'message_pattern', 'filter_rules'}, {'path', 'async'}, {'stdout', 'async', 'path'}]
    for sub in fixed:
        cases.append(gen_ini_case(rng, len(cases), subset=set(sub)))
    n_ini = 2000 if thorough else 600
    while len(cases) < n_ini:
        cases.append(gen_ini_case(rng, len(cases)))
    for c in cases:
        # a key that selects an output is only interesting when set: force the deterministic single-key cases on
        if len(c['keys']) == 1 and c['keys'][0] in BKEYS and c['keys'][0] != 'platform_std_log' and c['id'] < len(fixed):
            c['b'][c['keys'][0]] = True; c['spell'][c['keys'][0]] = 'true'
    ol = [gen_oneline_case(rng, 100000 + i) for i in range(800 if thorough else 240)]
    # old lines in the file + daily rotation: which file holds which line (both front-ends)
    n_daily = 150 if thorough else 40
    ol += [gen_daily_case(rng, 200000 + i, 'oneline') for i in range(n_daily)]
    cases += [gen_daily_case(rng, 300000 + i, 'ini') for i in range(n_daily)]
    cov['daily_cases_per_front'] = n_daily
    cases = cases + [c for c in corpus_cases if c['front'] == 'ini']
    ol = [c for c in corpus_cases if c['front'] == 'oneline'] + ol
    cov['corpus_cases'] = len(corpus_cases)
    work = tempfile.mkdtemp(prefix='c19_')
    stats = {'trimmed': 0}
    try:
        for front, cs in (('ini', cases), ('oneline', ol)):
            failing, disagree, obs, mo = compare_front(chk, front, cs, model, impl, work, stats)

            def still_bad(c, front=front):
                f, _, _, _ = compare_front(chk, front, [c], model, impl, work, {'trimmed': 0})
                return bool(f)
            if failing:
                c, why, o = min(failing, key=lambda x: (len(x[0]['msgs']), len(x[0].get('keys', []))))
                c = shrink_case(c, still_bad)
                f2, _, obs2, mo2 = compare_front(chk, front, [c], model, impl, work, {'trimmed': 0})
                why2 = f2[0][1] if f2 else why
                texts = None
                if front == 'ini':
                    _, tx, _ = vlib.run_lines(model, [ini_line(c)], ['initext'])
                    texts = [unhx16(x) for x in tx[0].split()]
                    _, sp, _ = vlib.run_lines(model, [ini_line(c)], ['inispec'])
                    spec = dict(zip(('stdout', 'stderr', 'log_records'), (unhx16(x) for x in sp[0].split())))
                    kind = 'ini_output'
                    what = 'INI configuration: observed outputs are not what the keys say (%s)' % '; '.join(why2)
                else:
                    _, sp, _ = vlib.run_lines(model, [of_bytes(obs2[0]['err'], c.get('codec', 'utf8'))], ['stripspec'])
                    spec = {'log_records = console text minus SGR sequences': unhx16(sp[0])}
                    kind = 'oneline_output'
                    what = 'one-line configuration: the log file is not the console text minus its colour codes / extra output / the files do not hold what the rotation options say (%s)' % '; '.join(why2)
                if any(w.startswith('file layout') for w in why2):
                    spec['files'] = ('daily: no file mixes days and a rotated file is named after the day of its lines (old lines of an earlier day are moved out when a '
                                     'message of another day arrives); startup: the lines found at start are alone in the first rotated file; count 1 / no option: no rotated file; nothing lost')
                chk.fail(what, {'kind': kind, 'front': front, 'why': why2, 'case': describe(c, texts), 'observed': small(obs2[0], c.get('codec', 'utf8')),
                                'specified': spec, 'model_of_the_code': mo2[0][:800], 'falsified_cases': len(failing)}, kind=kind)
            if disagree:
                c, why, o = min(disagree, key=lambda x: len(x[0]['msgs']))
                chk.broke('correspondence (%s): model of configure() and the real child process differ on %d cases, e.g. %s' % (front, len(disagree), why),
                          {'kind': 'correspondence', 'front': front, 'why': why, 'case': describe(c), 'observed': small(o)})
            cov[front + '_cases'] = len(cs)
            cov[front + '_oracle_falsified'] = len(failing)
            cov[front + '_disagreements'] = len(disagree)
            nontriv = 0
            for c, m, o in zip(cs, mo, obs):
                f = m.split()
                if len(f) >= 5 and (f[2] != '-' or f[3] != '-' or f[4] != '-'):
                    nontriv += 1
            cov[front + '_distinct_nontrivial'] = nontriv
            cov[front + '_layout_checked'] = stats.pop('layout_checked', 0)
            cov[front + '_layout_daily_with_old_lines_of_another_day'] = stats.pop('layout_daily_old_lines', 0)
            if front == 'ini':
                cov['ini_key_presence'] = {k: sum(1 for c in cs if k in c['keys']) for k in keys}
                cov['ini_outputs_configured'] = {
                    'stdout': sum(1 for m in mo if 'StdOutSink' in m.split()[0]), 'two_stderr_sinks': sum(1 for m in mo if m.split()[0].count('StdErrSink') == 2),
                    'file': sum(1 for m in mo if 'RotatingFileSink' in m.split()[0]), 'syslog': sum(1 for m in mo if 'SyslogSink' in m.split()[0]),
                    'none': sum(1 for m in mo if not re.search(r'Sink', m.split()[0]))}
                cov['ini_formatter'] = {'pattern': sum(1 for m in mo if 'PatternFormatter' in m.split()[0]), 'pretty': sum(1 for m in mo if 'PrettyFormatter' in m.split()[0])}
                cov['ini_filters'] = {'category': sum(1 for m in mo if 'CategoryFilter' in m.split()[0]), 'regexp': sum(1 for m in mo if 'RegExpFilter' in m.split()[0])}
                cov['ini_async'] = sum(1 for m in mo if m.split()[1] == '1')
                cov['ini_latin1_codec'] = sum(1 for c in cs if c.get('codec') == 'latin1')
                cov['ini_empty_records'] = sum((o['out'] + o['err'] + o['file']).count(b'\n\n') for o in obs)
                cov['ini_conditional_patterns'] = sum(1 for c in cs if any(isinstance(p, tuple) and p[0] == 'i' for p in c['pattern']))
                cov['ini_writer'] = {w: sum(1 for c in cs if c['writer'] == w) for w in ('qsettings', 'python')}
                cov['ini_tty'] = {str(t): sum(1 for c in cs if tuple(c['tty']) == t) for t in ((0, 0), (1, 1), (1, 0), (0, 1))}
                cov['ini_coloured_console_records'] = sum(1 for o in obs if b'\x1b[' in o['out'] + o['err'])
                cov['ini_cases_without_any_record'] = sum(1 for c, o in zip(cs, obs) if o['err'].count(b'\n') + o['out'].count(b'\n') + o['file'].count(b'\n') == 0)
                cov['ini_rotated_cases'] = sum(1 for o in obs if o['nrot'] > 0)
            else:
                cov['oneline_latin1_codec'] = sum(1 for c in cs if c.get('codec') == 'latin1')
                cov['oneline_latin1_non_ascii_records'] = sum(1 for c, o in zip(cs, obs) if c.get('codec') == 'latin1' and any(b > 127 for b in o['err']))
                cov['oneline_with_file'] = sum(1 for c in cs if c['path'])
                cov['oneline_rotating'] = sum(1 for m in mo if 'RotatingFileSink' in m.split()[0])
                cov['oneline_async'] = sum(1 for m in mo if m.split()[1] == '1')
                cov['oneline_records_with_sgr_removed'] = sum(o['err'].count(b'\x1b[') for c, o in zip(cs, obs) if c['path'])
                cov['oneline_incomplete_sequences_kept'] = sum(o['file'].count(b'\x1b') for c, o in zip(cs, obs) if c['path'])
            if front == 'ini':
                chk.samples.append({'ini_case': describe(cs[len(fixed) + 1]), 'observed': small(obs[len(fixed) + 1])})
            else:
                chk.samples.append({'oneline_case': describe(cs[0]), 'observed': small(obs[0])})
        cov.update(history_leg(chk, model, impl, work, 400 if thorough else 90))
        cov.update(pretty_leg(chk, model, impl, work, 600 if thorough else 120))
        if thorough:
            # the same children under AddressSanitizer + UndefinedBehaviorSanitizer (+ leak check at exit)
            san = vlib.build_harness('config', 'san')
            n_san = 0
            for front, cs in (('ini', cases[:300]), ('oneline', ol[:150])):
                failing, disagree, obs, mo = compare_front(chk, front, cs, model, san, work, {'trimmed': 0})
                n_san += len(cs)
                for c, why, o in failing[:1]:
                    chk.fail('sanitizer build: child process of a %s configuration failed (%s)' % (front, '; '.join(why)),
                             {'kind': 'sanitizer', 'front': front, 'why': why, 'case': describe(c), 'observed': small(o),
                              'stderr_tail': o['err'].decode('utf-8', 'replace')[-1500:]}, kind='sanitizer')
                if disagree and not failing:
                    c, why, o = disagree[0]
                    chk.broke('sanitizer build differs from the model on a %s configuration: %s' % (front, why),
                              {'kind': 'correspondence', 'front': front, 'variant': 'san', 'case': describe(c), 'observed': small(o)})
            pcs = [gen_pretty_case(rng, 1000 + i) for i in range(100)]
            with ThreadPoolExecutor(max_workers=min(8, vlib.NCPU)) as ex:
                pres = list(ex.map(lambda c: judge_pretty(model, san, c, work), pcs))
            for c, r in [(c, r) for c, r in zip(pcs, pres) if not r[0]][:1]:
                chk.fail('sanitizer build: several PrettyFormatter objects in one process: child failed or an object\'s records are not a function of the messages delivered to it',
                         {'kind': 'sanitizer', 'front': 'pretty_objects', 'pretty_case': describe_pretty(c), 'observed': show_recs(r[2]), 'model': show_recs(r[3])}, kind='sanitizer')
            n_san += len(pcs)
            cov['sanitizer_children'] = n_san
    finally:
        shutil.rmtree(work, ignore_errors=True)
    cov['retention_trimmed_cases'] = stats['trimmed']
    cov['ini_lexing_probe'] = lexing_probe(model, impl)
    chk.samples += cov.pop('install_samples')
    chk.samples.append({'pretty_objects': cov.pop('pretty_objects_sample')})
    total = cov['install_histories'] + cov['install_core_histories_in_own_process'] + cov['ini_cases'] + cov['oneline_cases'] + cov['history_cases'] + cov['pretty_objects_cases']
    cov.update({'evaluations': total,
                'distinct_nontrivial': cov['install_distinct_nontrivial'] + cov['ini_distinct_nontrivial'] + cov['oneline_distinct_nontrivial'],
                'rule': 'install: random histories (length <= 12) over I R F1 F2 F3 D plus every history up to the stated length, plus histories in which up to three '
                        'non-singleton Logger objects are created / installed / destroyed (exhaustive over I R F1 + one such logger up to the stated length, random beyond); '
                        'non-trivial = contains an install, a restore and a foreign call, or a restore after the installing logger was destroyed.  ini / one-line: one child process per generated configuration (every single key, no key, '
                        'all keys, then random subsets at four densities; boundary values; quoted and QSettings-written files; pipes and ptys); '
                        'non-trivial = at least one record reached an observable output.  several PrettyFormatter objects: 1-4 objects x 1+3 emitting threads '
                        'in one process (own Loggers / sub-pipelines of one installed Logger / bare objects), random delivery masks'})
    chk.cov.update(cov)
    return chk.finish()


def replay(path):
    r = json.load(open(path))['replay']
    if isinstance(r, list):
        r = r[0]
    vlib.gen_src(['config'])
    model = vlib.build_model('config')
    if r.get('history'):
        impl = vlib.build_harness('install')
        h = r['history']
        print('history        ', h)
        print('implementation ', vlib.run_lines(impl, [h], ['fork'])[1])
        print('model          ', vlib.run_lines(model, [h], ['install'])[1])
        _, o, _ = vlib.run_lines(impl, [h], ['fork'])
        print('oracle         ', vlib.run_lines(model, ['%s %s' % (h, o[0] if o else '')], ['instoracle'])[1])
        return 0
    if r.get('pretty_case'):
        impl = vlib.build_harness('config')
        c = pretty_of(r['pretty_case'])
        work = tempfile.mkdtemp(prefix='c19r_')
        try:
            ok, same, got, mo = judge_pretty(model, impl, c, work)
        finally:
            shutil.rmtree(work, ignore_errors=True)
        print('case           ', json.dumps(describe_pretty(c), ensure_ascii=False))
        print('implementation ', json.dumps(show_recs(got), ensure_ascii=False))
        print('model          ', json.dumps(show_recs(mo), ensure_ascii=False))
        print('verdict        ', 'holds' if ok else 'property falsified: an object\'s records are not a function of the messages delivered to it', '' if same else '(differs from the model)')
        return 0
    if r.get('scenario'):
        impl = vlib.build_harness('config')
        sc = scenario_of(r['scenario'])
        work = tempfile.mkdtemp(prefix='c19r_')
        try:
            why, observed, specified, tx = run_scenario(impl, model, sc, work)
        finally:
            shutil.rmtree(work, ignore_errors=True)
        print('history        ', json.dumps(describe_scenario(sc, tx), ensure_ascii=False))
        print('implementation ', json.dumps(observed, ensure_ascii=False))
        print('specification  ', json.dumps(specified, ensure_ascii=False))
        print('verdict        ', why or 'holds')
        return 0
    case = r.get('case')
    if not case:
        print(json.dumps(r, indent=1)); return 0
    impl = vlib.build_harness('config')
    c = case_of(case)
    if c['front'] == 'ini':
        line = ini_line(c)
        _, tx, _ = vlib.run_lines(model, [line], ['initext'])
        texts = tuple(unhx16(x) for x in tx[0].split())
    else:
        line, texts = oneline_line(c), None
    work = tempfile.mkdtemp(prefix='c19r_')
    try:
        failing, disagree, obs, _ = compare_front(None, c['front'], [c], model, impl, work, {'trimmed': 0})
        o = obs[0]
    finally:
        shutil.rmtree(work, ignore_errors=True)
    print('verdict        ', json.dumps({'property_falsified': [w for _, why, _ in failing for w in why], 'model_differs': [why for _, why, _ in disagree]}, ensure_ascii=False))
    print('case           ', json.dumps(describe(c, texts), ensure_ascii=False))
    print('implementation ', json.dumps(small(o, c.get('codec', 'utf8')), ensure_ascii=False))
    _, m, _ = vlib.run_lines(model, [line], ['ini' if c['front'] == 'ini' else 'oneline'])
    f = m[0].split()
    print('model          ', json.dumps({'handlers': f[0], 'own_thread': f[1], 'stdout': unhx16(f[2]), 'stderr': unhx16(f[3]), 'log_records': unhx16(f[4])}, ensure_ascii=False))
    if c['front'] == 'ini':
        _, sp, _ = vlib.run_lines(model, [line], ['inispec'])
        print('specification  ', json.dumps(dict(zip(('stdout', 'stderr', 'log_records'), (unhx16(x) for x in sp[0].split()))), ensure_ascii=False))
    else:
        _, sp, _ = vlib.run_lines(model, [of_bytes(o['err'], c.get('codec', 'utf8'))], ['stripspec'])
        print('specification  ', json.dumps({'log_records': unhx16(sp[0])}, ensure_ascii=False))
    return 0
