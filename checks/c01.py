"""C01 — Pipeline evaluation follows the sequential handler semantics."""
import glob, json, os
import vlib

META = {
    'id': 'C01',
    'level': 'proof',
    'technique': 'Coq proof (induction over handler trees, stores, messages and message sequences; generic in the '
                 'control-flow configuration translated from the source) + source-to-Coq translation of '
                 'Pipeline::process / the four adapters / pipeline() + differential run of the extracted model '
                 'against real SimplePipeline/Pipeline trees + extracted law-level oracle and a metamorphic '
                 '(inline-unscoped) check on the implementation\'s own recordings',
    'text': 'Properties_C01.v proves, for every tree, handler state and message (and lifted to every message '
            'sequence): the nesting equation, child-never-stops-parent, scoped restore (fmt incl. None/Some [], '
            'attrs; text/type immutable), reject-skips-rest, sibling independence, executed handlers = in-order '
            'traversal cut at rejections (inductive Trav, decided by trav_b), sink-gets-latest, unscoped = inline; '
            'typed attribute values (QString/int/bool/double/QByteArray, compared strictly): the delivered attribute '
            'map carries exactly the LAST written (type, value) per key (C01_last_write_wins / '
            'C01_sink_sees_last_write / C01_untouched_key_kept); histories of messages interleaved with structural '
            'edits of any pipeline of the tree (append/<</fluent, append(list), remove, clear, typed SortedPipeline '
            'calls, clear<Class>): every message is evaluated on the tree as it is at that moment (C01_steps_nth, '
            'C01_steps_lifts, C01_steps_oracle_holds, edit locality lemmas); children that enter the tree as COPIES of a built '
            'pipeline object (copy constructor, operator<<(Logger *, const Pipeline &), copy assignment) are tagged in the '
            'scenario and the tag is forgotten by the model (forget_l): C01_copy_behaves_as_original(_history), '
            'C01_scoped_copy_restores, C01_copied_child_nesting. '
            'The theorems are about run src_cfg where src_cfg is re-read from the C++ on every run; the same '
            'function is extracted and compared event by event with the real library on generated trees.',
    'note': 'Trusted: Coq 8.16.1 kernel (vm_compute only for the closed configuration check and the examples), no '
            'axioms; tools/s2c/pipeline.py (regex translation, anchored on the normalised text of Pipeline::process, '
            'AttrHandler/Filter/Formatter/Sink/FunctionHandler::process, LogMessage accessors incl. setAttribute/'
            'removeAttribute, SimplePipeline::pipeline/end and fluent appends, Pipeline::remove/clear/operator<<, the '
            'SortedPipeline typed calls whose placement rule apply_op re-states (C17 proves the class order)); extraction (ExtrOcamlBasic only) + ocaml/drv_pipeline.ml; '
            'harness/h_pipeline.cpp (scripted std::function behaviours, logging subclasses of '
            'SeqNumberAttr/DuplicateFilter/LevelFilter that call the real virtual). Modelled, not verified: '
            'QList/QSharedPointer/QVariantHash/QString mechanics; handlers are the closed scripted vocabulary '
            'QVariant is modelled by five value types with strict equality (Qt5\'s loose operator== is deliberately NOT '
            'the observation); typed SortedPipeline calls on a list holding a null entry are outside (x->type() on a '
            'null pointer), the generator never makes them; '
            '(any user handler is some composition of: merge/set/remove attributes, read shown text, set/empty/null '
            'the formatted text, accept/reject, deliver); handlers that throw or keep references are outside.',
    'design_ref': 'DESIGN.md section 4, C01',
    'engine': 'coq+extraction+harness',
}

LAWS = {1: 'order', 2: 'scoped-restore', 3: 'delivery-content', 4: 'latest-effect', 9: 'missing-trace'}
# further kinds: root-return, inline, crash, harness-error, edit-structure (the real lists after an edit do not have the shape apply_edit predicts)


# ------------------------------------------------------------------------------------ encoding
def hx(s):
    b = s.encode('utf-16-be')
    return ''.join('%02x%02x' % (b[i], b[i + 1]) for i in range(0, len(b), 2))


def unhx(h):
    return bytes.fromhex(h).decode('utf-16-be', 'replace')


KEYS = ['a', 'b', 'c', 'n', '', 'кл']
VALS = ['x', 'y', 't1', 'hello', '', 'ü€', '\U0001f600']
# typed values; each family is a set of values of DIFFERENT types that Qt5's loose QVariant::operator== tends to call equal
FAMILIES = [['i~1', hx('1'), 'b~1', 'f~2', 'y~31'], ['i~0', hx('0'), 'b~0', 'f~0', 'y~30'], [hx('abc'), 'y~616263'],
            ['i~-5', hx('-5'), 'f~-10'], [hx('true'), 'b~1'], [hx('1.5'), 'f~3'], [hx(''), 'y~'], ['i~42', hx('42'), 'f~84', 'y~3432']]
TYPED = sorted({v for f in FAMILIES for v in f} | {'i~7', 'i~-2147483648', 'f~1', 'y~00ff'})
TAGS = ['t1', 't2', 'g', '', 'é']
SUBS = ['t1', 'g', 'hel', 'zz', 'x', '', ':']
TEXTS = ['hello', 'hello', 'bye', 'x', 't1msg', '', 'hä€', 'g:t1', 'a\U0001f600b']


# ------------------------------------------------------------------------------------ trees
# node = ('L', token) | ('Z',) | ('P', kind, [nodes])   kind in '(' '(!' '(+' '(-', optionally with the suffix ~<how>
# (not on '(!'): the child enters the real tree as a COPY of a built pipeline object - 1 copy constructor of the complete
# original, 2 the by-value helper operator<<(Logger *, const Pipeline &), 3 copy constructor of the still empty original,
# 4 copy assignment.  The model forgets the suffix (Gallina `forget`): a copy is the original.
def base_kind(k):
    return k.split('~')[0]


def with_copy(rng, kind, feat, p=0.2):
    """~20 % of the children that can be copies are copies"""
    if kind == '(!' or rng.random() >= p:
        return kind
    how = rng.choice([1, 1, 2, 3, 4] if kind != '(' else [1, 1, 3, 4])
    feat.add('child_is_copy'); feat.add('copy_how_%d' % how)
    feat.add('copy_of_' + ('scoped' if kind == '(+' else 'unscoped') + '_child')
    return '%s~%d' % (kind, how)


def render(nodes):
    out = []
    for n in nodes:
        if n[0] == 'L':
            out.append(n[1])
        elif n[0] == 'Z':
            out.append('z')
        else:
            out.append(n[1])
            out += render(n[2])
            out.append(')')
    return out


def parse(tokens):
    def go(i):
        nodes = []
        while i < len(tokens):
            t = tokens[i]
            if t == ')':
                return nodes, i + 1
            if base_kind(t) in ('(', '(!', '(+', '(-'):
                ch, i = go(i + 1)
                nodes.append(('P', t, ch))
            elif t == 'z':
                nodes.append(('Z',)); i += 1
            else:
                nodes.append(('L', t)); i += 1
        return nodes, i
    return go(0)[0]


def case_line(tree, msgs):
    return ' '.join(render(tree)) + ' |' + ' '.join(msgs)


def split_case(line):
    t, m = line.split('|')[:2]
    return parse(t.split()), m.split()


# ---- structural edits between messages.  The generator applies every edit to its own copy of the tree (with the
# kinds of the pipelines, which the model does not distinguish) so that later edits address existing pipelines of the
# right C++ class; the MODEL's apply_edit stays the specification - a slip here shows as !ERR of the harness.
CLS = {'as': 'A', 'am': 'A', 'ac': 'A', 'q': 'A', 'ft': 'F', 'ff': 'F', 'fc': 'F', 'fh': 'F', 'fy': 'F', 'd': 'F', 'l': 'F',
       'mt': 'M', 'ma': 'M', 'mn': 'M', 'me': 'M', 's': 'S', 'p': 'G', 'gs': 'G', 'gr': 'G', 'gf': 'G', 'gc': 'G'}


def node_class(n):
    if n[0] == 'P': return 'P'
    if n[0] == 'Z': return None
    return CLS[n[1].split(':')[0]]


def _find_first(l, cs):
    for i, x in enumerate(l):
        if node_class(x) in cs: return i
    return len(l)


def _after_last(l, cs):
    r = 0
    for i, x in enumerate(l):
        if node_class(x) in cs: r = i + 1
    return r


def sorted_insert(l, n):
    c = node_class(n)
    if c == 'A':
        fr = _find_first(l, 'FMSP'); l.insert(_after_last(l[:fr], 'A'), n)
    elif c == 'F':
        fr = _find_first(l, 'MSP'); l.insert(_after_last(l[:fr], 'AF'), n)
    elif c == 'M':
        l[:] = [x for x in l if node_class(x) != 'M']
        ll = _after_last(l, 'AF'); l.insert(ll + _find_first(l[ll:], 'SP'), n)
    elif c == 'S':
        ll = _after_last(l, 'AFMS'); l.insert(ll + _find_first(l[ll:], 'P'), n)
    else:
        l.append(n)


def pipes_of(nodes, pre=()):
    """(path, kind, list) of every pipeline of the tree, the root first"""
    if pre == ():
        yield (), 'root', nodes
    for i, n in enumerate(nodes):
        if n[0] == 'P':
            yield pre + (i,), n[1], n[2]
            yield from pipes_of(n[2], pre + (i,))


def copy_tree(nodes):
    return [('P', n[1], copy_tree(n[2])) if n[0] == 'P' else n for n in nodes]


def _oid_of(n):
    return int(n[1].split(':')[1]) if n[0] == 'L' else None


class _GenEdits:
    def gen_edits(self, tree, msgs):
        """insert 1-3 bursts of edits between the messages (at least one message before the first burst in most
        cases and always one after the last)"""
        rng = self.rng
        cur = copy_tree(tree)
        if len(msgs) < 2:
            msgs = msgs + [msgs[-1]] if rng.random() < 0.5 else msgs + ['%d:%s:n:' % (rng.randrange(5), hx(rng.choice(TEXTS)))]
        cuts = sorted(set(rng.randint(0 if rng.random() < 0.15 else 1, len(msgs) - 1) for _ in range(rng.randint(1, 3))))
        out = []
        for i, m in enumerate(msgs):
            if i in cuts:
                for _ in range(rng.randint(1, 3)):
                    e = self.one_edit(cur)
                    if e: out.append(e)
            out.append(m)
        self.feat.add('history_with_edits')
        return out

    def edit_leaf(self, typed):
        for _ in range(20):
            n = self.leaf(False)
            if n[0] != 'L': continue
            if typed and node_class(n) == 'G': continue
            return n
        return ('L', 's:%d' % self.fresh())

    def one_edit(self, cur):
        rng = self.rng
        pipes = list(pipes_of(cur))
        path, kind, lst = rng.choice(pipes) if rng.random() < 0.6 else pipes[0]
        simple = base_kind(kind) in ('root', '(', '(!')
        typed_ok = simple and not any(n[0] == 'Z' for n in lst)
        ops = ['a'] * 5 + ['r'] * 3 + ['c', 'n', 'ap']
        if typed_ok: ops += ['t'] * 8 + ['k'] * 4 + ['tp']
        op = rng.choice(ops)
        pre = '@%s@' % '/'.join(map(str, path))
        self.feat.add('edit_' + op + ('_on_child' if path else '_on_root'))
        if op == 'a':
            if rng.random() < 0.05: return pre + 'a@z'
            n = self.edit_leaf(False); lst.append(n); return pre + 'a@' + n[1]
        if op == 't':
            if rng.random() < 0.04: return pre + 't@z'
            n = self.edit_leaf(True); sorted_insert(lst, n); return pre + 't@' + n[1]
        if op in ('ap', 'tp'):
            k = with_copy(rng, rng.choice(['(', '(-', '(+'] + (['(!'] if simple and op == 'ap' else [])), self.feat, 0.3)
            lst.append(('P', k, [])); return pre + ('a@' if op == 'ap' else 't@') + k
        if op == 'n':
            lst.append(('Z',)); return pre + 'n'
        if op == 'c':
            del lst[:]; return pre + 'c'
        if op == 'k':
            c = rng.choice('AFMSSP' if rng.random() < 0.8 else 'AFMSP')
            lst[:] = [n for n in lst if node_class(n) != c]; return pre + 'k@' + c
        here = [_oid_of(n) for n in lst if n[0] == 'L']
        o = rng.choice(here) if here and rng.random() < 0.85 else rng.randint(1, max(self.oid, 1))
        lst[:] = [n for n in lst if _oid_of(n) != o]
        return pre + 'r@%d' % o


class Gen(_GenEdits):
    def __init__(self, rng):
        self.rng = rng

    def new_case(self, max_depth=5, max_width=6, accepting=False, edits=False):
        self.accepting = accepting      # no rejecting leaf at all: feeds the inline (unscoped persists) law
        self.oid = 0
        self.shared = {}        # pool name -> token of a shared built-in object
        self.made = []          # tokens of leaves made so far (for re-insertion of the same object)
        self.feat = set()
        self.pending_read = None
        self.simple_here = True
        tree = self.gen_list(0, max_depth, max_width, False, True)
        rng = self.rng
        msgs = []
        for _ in range(rng.randint(1, 6)):
            f = 'n'
            if rng.random() < 0.25:
                f = 'f' + hx(rng.choice(TAGS + ['pre']))
                self.feat.add('msg_preformatted')
            a = ''
            if rng.random() < 0.2:
                a = ','.join('%s.%s' % (hx(rng.choice(KEYS)), self.val()) for _ in range(rng.randint(1, 2)))
            msgs.append('%d:%s:%s:%s' % (rng.randrange(5), hx(rng.choice(TEXTS)), f, a))
        if edits:
            msgs = self.gen_edits(tree, msgs)
        return tree, msgs

    def deep_case(self):
        """a chain of 30-48 nested pipelines (scoped/unscoped, all four kinds), setters/formatters on the way down,
        a probe + sink at the bottom and a probe after every level on the way up"""
        rng = self.rng
        self.accepting = True
        self.oid = 0; self.shared = {}; self.made = []; self.feat = {'deep_chain'}; self.pending_read = None; self.simple_here = True
        depth = rng.randint(31, 48)
        kinds, simple = [], True
        for _ in range(depth):
            k = rng.choice(['(', '(!', '(+', '(-'] if simple else ['(', '(+', '(-'])
            kinds.append(k); simple = k in ('(', '(!')
        inner = [('L', 'p:%d' % self.fresh()), ('L', 's:%d' % self.fresh())]
        for k in reversed(kinds):
            level = []
            r = rng.random()
            if r < 0.3: level.append(('L', 'as:%d:%s:%s' % (self.fresh(), self.key(), hx(rng.choice(VALS)))))
            elif r < 0.5: level.append(('L', 'mt:%d:%s' % (self.fresh(), hx(rng.choice(TAGS)))))
            elif r < 0.6: level.append(('L', self.many(self.fresh())))
            elif r < 0.65: level.append(('Z',))
            if rng.random() < 0.3: level.append(('L', 'p:%d' % self.fresh()))
            level.append(('P', with_copy(rng, k, self.feat), inner))
            if rng.random() < 0.5: level.append(('L', 'p:%d' % self.fresh()))
            if rng.random() < 0.15: level.append(('L', 's:%d' % self.fresh()))
            inner = level
        msgs = ['%d:%s:%s:' % (rng.randrange(5), hx(rng.choice(TEXTS)), rng.choice(['n', 'f' + hx('pre')])) for _ in range(rng.randint(1, 2))]
        return inner, msgs

    def fresh(self):
        self.oid += 1
        return self.oid

    def key(self):
        return hx(self.rng.choice(KEYS))

    def val(self):
        """an attribute value token: mostly a string, otherwise int / bool / double / byte array"""
        rng = self.rng
        if rng.random() < 0.3:
            self.feat.add('typed_value')
            return rng.choice(TYPED)
        return hx(rng.choice(VALS))

    def setter(self, k, v, via=None):
        """a leaf writing value token v to key k (hex) through updateAttributes (as/am) or setAttribute (gs)"""
        rng = self.rng
        via = via or rng.choice(['as', 'gs', 'gs', 'am'])
        o = self.fresh()
        self.feat.add('typed_write_via_' + via)
        if via == 'as': return ('L', 'as:%d:%s:%s' % (o, k, v))
        if via == 'gs': return ('L', 'gs:%d:%s:%s:1' % (o, k, v))
        others = [x for x in rng.sample(KEYS, rng.randint(0, 2)) if hx(x) != k]
        pairs = ['%s.%s' % (hx(x), self.val()) for x in others] + ['%s.%s' % (k, v)]
        rng.shuffle(pairs)
        return ('L', 'am:%d:%s' % (o, ','.join(pairs)))

    def loose_motif(self, out):
        """a key written with one type, later overwritten with a loosely-equal value of ANOTHER type - through
        setAttribute or an attribute handler, in the same list or inside a scoped / unscoped child - then observed"""
        rng = self.rng
        fam = rng.choice(FAMILIES)
        v1, v2 = rng.sample(fam, 2)
        k = self.key()
        out.append(self.setter(k, v1))
        if rng.random() < 0.25:
            out.append(self.leaf(False))
        second = [self.setter(k, v2)]
        if rng.random() < 0.7:
            second.append(('L', '%s:%d' % (rng.choice('sp'), self.fresh())))
        r = rng.random()
        if r < 0.55:
            kind = rng.choice(['(', '(-', '(+', '(!'] if self.simple_here else ['(', '(-', '(+'])
            if rng.random() < 0.3:
                second.insert(0, ('L', 'p:%d' % self.fresh()))
            out.append(('P', with_copy(rng, kind, self.feat), second))
            self.feat.add('loose_overwrite_in_' + ('scoped' if kind in ('(+', '(!') else 'unscoped') + '_child')
        else:
            out += second
            self.feat.add('loose_overwrite_same_list')
        out.append(('L', '%s:%d' % (rng.choice('sp'), self.fresh())))
        self.feat.add('loose_equal_overwrite')

    def many(self, o, must=None):
        """multi-key attribute handler: 2-4 distinct keys (optionally including `must`), rarely 0/1 or a repeated key"""
        rng = self.rng
        ks = rng.sample(KEYS, rng.randint(2, 4))
        if must is not None and must not in ks:
            ks[rng.randrange(len(ks))] = must
        if rng.random() < 0.1:
            ks = ks[:rng.randint(0, 1)]
        elif rng.random() < 0.1:
            ks.append(rng.choice(ks))
        self.feat.add('multi_key_attr_handler')
        return 'am:%d:%s' % (o, ','.join('%s.%s' % (hx(k), self.val() if rng.random() < 0.8 else hx('new')) for k in ks))

    def override_motif(self, out):
        """a key set by an earlier handler, then a later handler returning MORE entries than the message
        carries with that key among them, then a sink (the later handler must win)"""
        rng = self.rng
        k = rng.choice(KEYS)
        out.append(('L', rng.choice(['as:%d:%s:%s', 'gs:%d:%s:%s:1']) % (self.fresh(), hx(k), hx('old'))))
        if rng.random() < 0.3:
            out.append(self.leaf(False))
        out.append(('L', self.many(self.fresh(), must=k)))
        out.append(('L', 's:%d' % self.fresh()))
        self.feat.add('bigger_overlapping_attr_block')

    def leaf(self, in_scoped):
        rng = self.rng
        if self.made and rng.random() < 0.04:
            self.feat.add('same_object_twice')
            return ('L', rng.choice(self.made))
        k = rng.choice(['as', 'as', 'am', 'am', 'ac', 'ft', 'ff', 'fc', 'fh', 'fh', 'fy', 'mt', 'mt', 'ma', 'ma', 'mn', 'me', 's', 's', 's',
                        'p', 'gs', 'gr', 'gf', 'gc', 'q', 'q', 'd', 'l', 'z'])
        if self.accepting and k in ('ff', 'fc', 'fh', 'fy', 'd', 'l'):
            k = rng.choice(['ft', 'as', 'mt', 'q', 's'])
        if k == 'z':
            self.feat.add('null_entry')
            return ('Z',)
        if k in ('q', 'd', 'l'):
            slot = k + str(rng.choice([1, 1, 2]))
            if slot not in self.shared:
                o = self.fresh()
                self.shared[slot] = {'q': 'q:%d:%s' % (o, hx(rng.choice(['n', 'a', 'seq']))), 'd': 'd:%d' % o,
                                     'l': 'l:%d:%d' % (o, rng.randrange(5))}[k]
            else:
                self.feat.add('shared_builtin_reused')
            return ('L', self.shared[slot])
        o = self.fresh()
        r = lambda: int(self.accepting or rng.random() < 0.75)
        if k == 'as': t = 'as:%d:%s:%s' % (o, self.key(), self.val())
        elif k == 'am': t = self.many(o)
        elif k == 'ac': t = 'ac:%d:%s' % (o, self.key())
        elif k in ('ft', 'ff', 'mn', 'me', 's', 'p'): t = '%s:%d' % (k, o)
        elif k == 'fc': t = 'fc:%d:%s' % (o, hx(rng.choice(SUBS)))
        elif k == 'fh': t = 'fh:%d:%s' % (o, self.key())
        elif k == 'fy': t = 'fy:%d:%d' % (o, rng.randrange(5))
        elif k == 'mt': t = 'mt:%d:%s' % (o, hx(rng.choice(TAGS)))
        elif k == 'ma': t = 'ma:%d:%s:%s' % (o, hx(rng.choice(TAGS)), self.key())
        elif k == 'gs': t = 'gs:%d:%s:%s:%d' % (o, self.key(), self.val(), r())
        elif k == 'gr': t = 'gr:%d:%s:%d' % (o, self.key(), r())
        elif k == 'gf': t = 'gf:%d:%s:%d' % (o, hx(rng.choice(TAGS)), r())
        else: t = 'gc:%d:%d' % (o, r())
        if k in ('mn', 'me', 'gc'):
            self.feat.add('fmt_null_or_empty')
        self.made.append(t)
        return ('L', t)

    def gen_child(self, out, depth, max_depth, max_width, simple_parent):
        """append a child pipeline (with the motifs the proofs' case splits name) to `out`"""
        rng = self.rng
        kind = rng.choice(['(', '(-', '(!', '(!', '(+'])
        if kind == '(!' and not simple_parent:   # pipeline() exists on SimplePipeline only
            kind = '(+'
        scoped = kind in ('(!', '(+')
        if scoped and rng.random() < 0.5:       # formatted / attribute set just before a scoped child
            out.append(('L', 'mt:%d:%s' % (self.fresh(), hx(rng.choice(TAGS)))) if rng.random() < 0.6
                       else ('L', 'as:%d:%s:%s' % (self.fresh(), self.key(), hx(rng.choice(VALS)))))
            self.feat.add('set_before_scoped_child')
        if rng.random() < 0.15:
            self.override_motif(out)
        if rng.random() < 0.1:
            self.simple_here = simple_parent
            self.loose_motif(out)
        ch = self.gen_list(depth + 1, max_depth, max_width, scoped, kind in ('(', '(!'))
        if rng.random() < 0.15:
            self.override_motif(ch)
        if rng.random() < 0.12:
            self.simple_here = kind in ('(', '(!')
            self.loose_motif(ch)
        if rng.random() < 0.6:                  # probe = first thing the child runs
            ch.insert(0, ('L', 'p:%d' % self.fresh()))
        if scoped and rng.random() < 0.5:       # something set inside that a later sibling could read
            k = self.key()
            ch.insert(rng.randint(0, len(ch)), ('L', rng.choice(['as:%d:%s:%s', 'gs:%d:%s:%s:1']) % (self.fresh(), k, hx('in'))))
            self.pending_read = k
            self.feat.add('attr_set_inside_scoped')
        if rng.random() < 0.4 and not self.accepting:   # a rejection inside the child
            ch.insert(rng.randint(0, len(ch)), ('L', rng.choice(['ff:%d', 'gc:%d:0', 'gf:%d:0067:0']) % self.fresh()))
            if rng.random() < 0.7:
                ch.append(('L', 's:%d' % self.fresh()))
            self.feat.add('reject_inside_child')
        out.append(('P', with_copy(rng, kind, self.feat), ch))
        self.feat.add('scoped_child' if scoped else 'unscoped_child')
        if rng.random() < 0.6:                  # probe = first thing run after the child
            out.append(('L', 'p:%d' % self.fresh()))
        if self.pending_read is not None and rng.random() < 0.7:
            k = self.pending_read
            out.append(('L', rng.choice(['ma:%d:006d:%s', 'ac:%d:%s'] + ([] if self.accepting else ['fh:%d:%s'])) % (self.fresh(), k)))
            self.pending_read = None
            self.feat.add('sibling_reads_attr')
        if rng.random() < 0.5:
            out.append(('L', 's:%d' % self.fresh()))
            self.feat.add('parent_sink_after_child')

    def gen_list(self, depth, max_depth, max_width, in_scoped, simple_parent):
        rng = self.rng
        out = []
        if depth == 0 and rng.random() < 0.2:
            self.override_motif(out)
        if depth == 0 and rng.random() < 0.2:
            self.simple_here = simple_parent
            self.loose_motif(out)
        for _ in range(rng.randint(0, max_width)):
            if rng.random() < 0.27 and depth < max_depth:
                self.gen_child(out, depth, max_depth, max_width, simple_parent)
            else:
                out.append(self.leaf(in_scoped))
        if depth == 0 and not any(n[0] == 'P' for n in out) and rng.random() < 0.85:
            self.gen_child(out, depth, max_depth, max_width, simple_parent)
            if rng.random() < 0.5:
                out.append(self.leaf(in_scoped))
        return out


def saturate(nodes, ctr):
    """probes as the first thing of every child and right after every child (probes are transparent)"""
    out = []
    for n in nodes:
        if n[0] == 'P':
            ctr[0] += 1
            ch = [('L', 'p:%d' % ctr[0])] + saturate(n[2], ctr)
            out.append(('P', n[1], ch))
            ctr[0] += 1
            out.append(('L', 'p:%d' % ctr[0]))
        else:
            out.append(n)
    return out


def depth_of(nodes):
    return 1 + max([depth_of(n[2]) for n in nodes if n[0] == 'P'] or [0])


def count_nodes(nodes):
    return sum(1 + (count_nodes(n[2]) if n[0] == 'P' else 0) for n in nodes)


def max_oid(nodes):
    m = 0
    for n in nodes:
        if n[0] == 'L':
            m = max(m, int(n[1].split(':')[1]))
        elif n[0] == 'P':
            m = max(m, max_oid(n[2]))
    return m


# ------------------------------------------------------------------------------------ evaluation on the implementation
class Runner:
    def __init__(self, impl, model):
        self.impl, self.model = impl, model

    def impl_out(self, lines, exe=None):
        rc, out, err = vlib.run_lines(exe or self.impl, lines)
        return rc, out, err

    def verdicts(self, lines, impl_out):
        """per case: (kind or None, detail) from the implementation's own recordings only"""
        n = len(lines)
        res = [None] * n
        orc_in = []
        for ln, o in zip(lines, impl_out):
            body = o[5:] if o.startswith('!BAD ') else ('' if o.startswith('!ERR') else o)
            orc_in.append(ln.split('|')[0] + '|' + ln.split('|')[1] + '|' + body)
        _, digits, _ = vlib.run_lines(self.model, orc_in, ['oracle'])
        digits += [''] * (n - len(digits))
        for i, (o, d) in enumerate(zip(impl_out, digits)):
            if o.startswith('!ERR edit path') and not d.startswith('!ERR'):
                res[i] = ('edit-structure', 'an edit addresses a pipeline that the tree predicted by the earlier edits has at that place, the real tree has none there (an earlier edit left the real lists in another shape)')
            elif o.startswith('!ERR') or d.startswith('!ERR'):
                res[i] = ('harness-error', (o + ' ' + d)[:200])
            elif o.startswith('!BAD '):
                res[i] = ('root-return', 'the root Pipeline::process returned false, or end() did not return the parent')
            elif d.strip('0'):
                k = int(d.strip('0')[0])
                res[i] = (LAWS.get(k, 'law%d' % k), 'message #%d' % next(j for j, c in enumerate(d) if c != '0'))
        return res, digits

    def inline_check(self, lines, impl_out):
        """metamorphic: with every unscoped child inlined (Gallina `inline`) the implementation must record the
        same events for the leading messages in which no handler function returned false"""
        _, inl, _ = vlib.run_lines(self.model, lines, ['inline'])
        lines2, idx = [], []
        npre = {}
        for i, (ln, t) in enumerate(zip(lines, inl)):
            if t.startswith('!ERR') or impl_out[i].startswith('!'):
                continue
            ms = ln.split('|')[1].split()
            k = next((j for j, x in enumerate(ms) if x.startswith('@')), len(ms))    # only the messages before the first edit
            if k == 0:
                continue
            npre[i] = k
            lines2.append(t.strip() + ' |' + ' '.join(ms[:k])); idx.append(i)
        _, out2, _ = self.impl_out(lines2)
        out2 += [''] * (len(lines2) - len(out2))
        bad, compared = {}, 0
        for i, l2, o2 in zip(idx, lines2, out2):
            a, b = impl_out[i].split('|')[:npre[i]], o2.split('|')
            for j, ta in enumerate(a):
                if any(e.startswith('x') and e.endswith('.0') for e in ta.split(';')):
                    break
                compared += 1
                if j >= len(b) or b[j] != ta:
                    bad[i] = {'message_index': j, 'inlined_tree': l2.split('|')[0].strip(), 'nested': ta, 'inlined': b[j] if j < len(b) else None}
                    break
        return bad, compared

    def falsifies(self, tree, msgs):
        """kind of the first law the implementation breaks on this single case, else None"""
        if not msgs:
            return None
        ln = case_line(tree, msgs)
        _, o, _ = self.impl_out([ln])
        if not o:
            return ('crash', 'no output')
        v, _ = self.verdicts([ln], o)
        if v[0]:
            return v[0]
        bad, _ = self.inline_check([ln], o)
        if bad:
            return ('inline', json.dumps(bad[0])[:300])
        return None


def _paths(nodes, pre=()):
    for i, n in enumerate(nodes):
        yield pre + (i,)
        if n[0] == 'P':
            yield from _paths(n[2], pre + (i,))


def _edit(nodes, path, how):
    """copy of the tree with the node at `path` deleted ('del'), replaced by its children ('hoist') or, a child that
    is a copy, replaced by its original ('orig')"""
    i = path[0]
    if len(path) == 1:
        if how == 'del':
            return nodes[:i] + nodes[i + 1:]
        if nodes[i][0] != 'P':
            return None
        if how == 'orig':       # the child itself instead of a copy of it
            if '~' not in nodes[i][1]:
                return None
            return nodes[:i] + [('P', base_kind(nodes[i][1]), nodes[i][2])] + nodes[i + 1:]
        return nodes[:i] + nodes[i][2] + nodes[i + 1:]
    sub = _edit(nodes[i][2], path[1:], how)
    if sub is None:
        return None
    return nodes[:i] + [('P', nodes[i][1], sub)] + nodes[i + 1:]


def shrink_case(tree, msgs, fails, budget=600):
    """greedy linear sweeps (last node first): drop messages, delete nodes at any depth, hoist the children of a
    pipeline into its parent; keeps `fails` true"""
    steps = 0
    changed = True
    while changed and steps < budget:
        changed = False
        i = len(msgs) - 1
        while i >= 0 and len(msgs) > 1:
            cand = msgs[:i] + msgs[i + 1:]
            steps += 1
            if fails(tree, cand):
                msgs = cand; changed = True
            i -= 1
        for how in ('del', 'hoist', 'orig'):
            for path in reversed(list(_paths(tree))):
                if steps >= budget:
                    break
                try:
                    cand = _edit(tree, path, how)
                except (IndexError, TypeError):
                    continue        # the path vanished with an earlier edit of this sweep
                if cand is None:
                    continue
                steps += 1
                if fails(cand, msgs):
                    tree = cand; changed = True
    return tree, msgs


def readable(tokens):
    """tokens with their hex string fields decoded"""
    out = []
    nhex = {'as': 1, 'ac': 1, 'fc': 1, 'fh': 1, 'mt': 1, 'ma': 2, 'gs': 1, 'gr': 1, 'gf': 1, 'q': 1}
    rv = lambda v: v if '~' in v else repr(unhx(v))      # typed value token: i~ int, b~ bool, f~ double (halves), y~ bytes
    for t in tokens:
        if t.startswith('@'):
            e = t.split('@')
            if len(e) > 3 and ':' in e[3]:
                e[3] = readable([e[3]])
            out.append('@'.join(e)); continue
        p = t.split(':')
        for i in range(2, 2 + nhex.get(p[0], 0)):
            p[i] = repr(unhx(p[i]))
        if p[0] in ('as', 'gs'):
            p[3] = rv(p[3])
        if p[0] == 'am':
            p[2] = '{' + ', '.join('%r: %s' % (unhx(kv.split('.')[0]), rv(kv.split('.')[1])) for kv in p[2].split(',') if kv) + '}'

        out.append(':'.join(p))
    return ' '.join(out)


def events_of(o):
    return [e for tr in o.split('|') for e in tr.split(';')]


# ------------------------------------------------------------------------------------ the check
def run():
    chk = vlib.Check('C01')
    chk.trusted = ['Coq 8.16.1 kernel; vm_compute only on the closed terms cfg_goodb src_cfg and the two Examples; no native_compute',
                   'axioms: none (every Print Assumptions: Closed under the global context)',
                   'tools/s2c/pipeline.py translator (pipeline.cpp, attrhandler.h, filter.h, formatter.h, sink.h, functionhandler.h, logmessage.h, simplepipeline.cpp -> SrcPipeline.v)',
                   'extraction ExtrOcamlBasic (bool/option/unit/prod/list/sumbool), no Extract Constant; ocaml/drv_pipeline.ml',
                   'harness/h_pipeline.cpp (scripted handler behaviours, logging subclasses of the three stateful built-ins); '
                   'QList/QSharedPointer/QVariantHash/QString are modelled (lists, association lists, UTF-16 unit lists), not verified']
    chk.assumptions = ['handlers are compositions of the scripted vocabulary (attribute merge/set/remove, read shown text, set/empty/null formatted text, accept/reject, deliver) plus SeqNumberAttr/DuplicateFilter/LevelFilter; they do not throw and keep no reference to the message',
                       'one thread (locking is C02), messages enter with the fmt/attrs the generator gives them']
    chk.proof(vlib.proof_leg('Properties_C01', ['pipeline']))
    model = vlib.build_model('pipeline')
    impl = vlib.build_harness('pipeline')
    R = Runner(impl, model)
    thorough = chk.tier == 'thorough'

    cases, feats = [], {}
    for f in sorted(glob.glob(os.path.join(vlib.VERIF, 'corpus', 'C01', '*.txt'))):
        for ln in open(f):
            ln = ln.strip()
            if ln and not ln.startswith('#'):
                cases.append(split_case(ln))
    n_corpus = len(cases)
    g = Gen(chk.rng)
    n_gen = 100000 if thorough else 6000
    for i in range(n_gen):
        small = i % 5 == 0
        t, m = g.new_case(3 if small else 5, 3 if small else 6, accepting=(i % 6 == 1), edits=(i % 3 == 2))
        cases.append((t, m))
        for f in g.feat:
            feats[f] = feats.get(f, 0) + 1
    n_deep = 200 if thorough else 12
    for i in range(n_deep):
        t, m = g.deep_case()
        cases.append((t, m))
        for f in g.feat:
            feats[f] = feats.get(f, 0) + 1
    lines = [case_line(t, m) for t, m in cases]

    rc_i, out_i, err_i = R.impl_out(lines)
    if rc_i != 0 or len(out_i) != len(lines):
        k = len(out_i)
        chk.fail('the implementation crashed or stopped while evaluating a pipeline tree',
                 {'kind': 'crash', 'rc': rc_i, 'stderr': err_i[-400:], 'case': lines[k] if k < len(lines) else None}, kind='crash')
        out_i += ['!ERR crashed'] * (len(lines) - len(out_i))
    rc_m, out_m, _ = vlib.run_lines(model, lines)
    out_m += ['!ERR model'] * (len(lines) - len(out_m))

    verd, digits = R.verdicts(lines, out_i)
    step = 1 if thorough else 2
    sub = list(range(0, len(lines), step))
    inl_bad, inl_compared = R.inline_check([lines[i] for i in sub], [out_i[i] for i in sub])
    for j, info in inl_bad.items():
        if verd[sub[j]] is None:
            verd[sub[j]] = ('inline', json.dumps(info)[:300])

    dis = [i for i in range(len(lines)) if out_i[i] != out_m[i]]
    falsified = [i for i in range(len(lines)) if verd[i] is not None]

    # a disagreement the oracle did not see: saturate the tree with (transparent) probes and look again
    extra_tried = 0
    if dis and not falsified:
        for i in dis[:60]:
            t, m = cases[i]
            ctr = [max_oid(t) + 1000]
            t2 = saturate(t, ctr)
            extra_tried += 1
            k = R.falsifies(t2, m)
            if k:
                cases.append((t2, m)); lines.append(case_line(t2, m))
                o = R.impl_out([lines[-1]])[1]; out_i.append(o[0] if o else '')
                mo = vlib.run_lines(model, [lines[-1]])[1]; out_m.append(mo[0] if mo else '')
                verd.append(k); falsified.append(len(lines) - 1)
                break

    reported = set()
    for i in sorted(falsified, key=lambda i: len(lines[i])):
        kind = verd[i][0]
        if kind in reported:
            continue
        reported.add(kind)
        t, m = cases[i]
        if kind not in ('harness-error', 'crash'):
            t, m = shrink_case(t, m, lambda a, b: (R.falsifies(a, b) or (None,))[0] == kind)
        ln = case_line(t, m)
        o = (R.impl_out([ln])[1] or [''])[0]
        mo = (vlib.run_lines(model, [ln])[1] or [''])[0]
        detail = R.falsifies(t, m)
        chk.fail('law "%s" is falsified on the real pipeline by tree [%s] with messages %s' % (kind, readable(render(t)), m),
                 {'kind': kind, 'law': kind, 'case': ln, 'tree_readable': readable(render(t)), 'messages': m,
                  'implementation': o, 'model': mo, 'detail': detail[1] if detail else verd[i][1],
                  'cases_falsifying_this_law': sum(1 for j in falsified if verd[j][0] == kind),
                  'steps_readable': readable(m),
                  'legend': 'x<obj>.<ret> function of object ran and returned; d<obj>.<s|p>.<shown>.<F|U>.<attrs>.<raw> delivery to sink/probe; e.<...> message after the root returned; strings are hex UTF-16; '
                            'attribute values s<hex> QString, i<n> int, b<0|1> bool, f<n> double n/2, y<hex> QByteArray; @<path>@<op>@<arg> = edit of the pipeline at <path> before the next message '
                            '(a append/fluent, t typed SortedPipeline call, r remove object, c clear, k clear class, n null entry)'},
                 kind=kind)
    if dis:
        i = min(dis, key=lambda i: len(lines[i]))
        chk.broke('correspondence: extracted model and real pipeline differ on %d of %d trees, e.g. [%s]' % (len(dis), len(lines), readable(render(cases[i][0]))),
                  {'kind': 'correspondence', 'case': lines[i], 'implementation': out_i[i], 'model': out_m[i],
                   'oracle_on_implementation': digits[i] if i < len(digits) else None, 'probe_saturated_retries': extra_tried})

    evs = [events_of(o) for o in out_i]
    deliveries = sum(1 for es in evs for e in es if e.startswith('d'))
    rejections = sum(1 for es in evs for e in es if e.startswith('x') and e.endswith('.0'))
    msgs_total = sum(1 for _, m in cases for x in m if not x.startswith('@'))
    edits_total = sum(1 for _, m in cases for x in m if x.startswith('@'))
    edit_ops = {}
    for _, m in cases:
        seen_msg = False
        for x in m:
            if x.startswith('@'):
                k = x.split('@')[2] + ('_after_a_message' if seen_msg else '_before_first_message')
                edit_ops[k] = edit_ops.get(k, 0) + 1
            else:
                seen_msg = True
    nontriv = {lines[i] for i in range(len(lines))
               if any(n[0] == 'P' for n in cases[i][0]) and any(e.startswith('d') for e in evs[i])}
    dh, sh = {}, {}
    for t, m in cases:
        d = depth_of(t); dh[str(d)] = dh.get(str(d), 0) + 1
        s = min(count_nodes(t) // 10, 6); sh[str(s * 10)] = sh.get(str(s * 10), 0) + 1
    chk.cov.update({
        'evaluations': len(lines), 'distinct_nontrivial': len(nontriv), 'distinct': len(set(lines)),
        'rule': 'random handler trees (depth <= 5, width <= 6 + injected motifs: probe first in / right after a child, setter before a scoped child, '
                'attribute set inside a scoped child + later sibling reading it, rejection inside a child + sink after it, null entries, shared objects; plus a few chains of 30-48 nested pipelines) '
                'x 1..6 messages (repeated texts, pre-formatted, pre-attributed with typed values); attribute values of five types with overwrites of a key by a loosely-equal value of another type '
                '(setAttribute / attribute handler, same list / scoped / unscoped child); a third of the cases are histories with 1-3 bursts of structural edits between messages '
                '(append, operator<<, fluent, typed SortedPipeline calls, remove, clear, clear class, null entry, new child pipelines; on the root and on nested pipelines); '
                '~20 % of the (, (+, (- children (30 % of those added by edits) enter the real tree as a COPY of a built pipeline object: copy constructor of the complete / still empty original, '
                'the by-value helper operator<<(Logger *, const Pipeline &), copy assignment onto an object with the opposite scoped flag; non-trivial = has a nested pipeline and at least one delivery',
        'corpus_cases': n_corpus, 'deep_chain_cases': n_deep, 'messages': msgs_total, 'edits': edits_total, 'edit_ops': edit_ops,
        'cases_with_edits': sum(1 for _, m in cases if any(x.startswith('@') for x in m)), 'deliveries_recorded': deliveries, 'rejections_recorded': rejections,
        'disagreements_model_vs_impl': len(dis), 'oracle_messages_evaluated_on_impl': sum(len(d) for d in digits),
        'oracle_falsified_cases': len(falsified), 'inline_metamorphic_messages_compared': inl_compared,
        'inline_metamorphic_mismatches': len(inl_bad), 'generator_features': feats,
        'depth_histogram': dh, 'size_histogram_nodes': sh})
    for i in (0, len(lines) // 3, 2 * len(lines) // 3):
        if i < len(lines):
            chk.samples.append({'case': lines[i][:400], 'impl': out_i[i][:400], 'model': out_m[i][:400]})

    if thorough and not chk.failing:
        # sanitizer and header-only builds on a slice
        for variant in ('san', 'hdr'):
            try:
                exe = vlib.build_harness('pipeline', variant)
            except Exception as e:
                chk.broke('harness variant %s does not build: %s' % (variant, str(e)[-300:]), {'kind': 'build', 'variant': variant})
                continue
            sl = lines[:8000]
            rc, o, err = vlib.run_lines(exe, sl, env={'ASAN_OPTIONS': 'detect_leaks=0'})
            if rc != 0 or len(o) != len(sl):
                chk.fail('the %s build crashed / reported an error on a pipeline tree' % variant,
                         {'kind': 'crash', 'variant': variant, 'stderr': err[-600:], 'case': sl[len(o)] if len(o) < len(sl) else None}, kind='crash')
            else:
                d2 = [i for i in range(len(sl)) if o[i] != out_i[i]]
                if d2:
                    chk.broke('%s build differs from the normal build on %d trees' % (variant, len(d2)), {'kind': 'correspondence', 'variant': variant, 'case': sl[d2[0]]})
            chk.cov['variant_%s_cases' % variant] = len(sl)
    return chk.finish()


def replay(path):
    r = json.load(open(path))['replay']
    if isinstance(r, list):
        r = r[0]
    ln = r.get('case')
    if not ln:
        print(json.dumps(r, indent=1)); return 0
    vlib.gen_src(['pipeline'])
    model = vlib.build_model('pipeline'); impl = vlib.build_harness('pipeline')
    t, m = split_case(ln)
    print('tree           ', readable(render(t)))
    print('messages       ', m)
    oi = vlib.run_lines(impl, [ln])[1]
    print('implementation ', oi)
    print('model          ', vlib.run_lines(model, [ln])[1])
    R = Runner(impl, model)
    print('oracle on impl ', R.verdicts([ln], oi)[1], '(per message: 0 ok, 1 order, 2 scoped-restore, 3 delivery-content, 4 latest-effect)')
    print('falsifies      ', R.falsifies(t, m))
    return 0
