"""C12 — Pattern formatting follows the documented mini-language; values are verbatim."""
import glob, json, os
import vlib

META = {
    'id': 'C12',
    'level': 'proof',
    'technique': 'Coq proofs about the extracted Gallina model of parsePattern/parseFormatSpec/applyPadding/format '
                 '(tokeniser laws over ALL patterns, padding table, conditionals, values-verbatim, the missing-optional-attribute '
                 'rule) + source-to-Coq translation of names/characters/removal mechanism + differential run of the '
                 'extracted model against the real PatternFormatter + extracted verbatim-ness oracle on the real output',
    'text': 'Properties_C12.v proves, for every pattern and every message, that the model the check runs (format_model: the '
            'out-of-band pending-remove evaluator the translator finds in patternformatter.cpp) reproduces literal text, '
            '%% and lone/unterminated % as documented, pads/truncates exactly as the documented tables say, emits a token '
            'iff its type condition holds, and outputs exactly the token-by-token concatenation of literal text and padded '
            'values unless a missing optional attribute asks for a removal - in which case only the documented N units '
            'before / M units of the directly following literal disappear.  The tokeniser has type pattern -> tokens, so no '
            'value is ever inspected for pattern syntax.  The pre-repair in-band evaluator is refuted (F4 witnesses).  '
            'The model is tied to the code by generated (pattern, message, attributes) triples run through the real '
            'PatternFormatter, and the extracted oracle is evaluated on the real output (text and null/non-null).  A concurrent leg '
            '(k threads, own formatter and messages each, start barrier) requires every result to equal the single-threaded model output; '
            'it is probabilistic by nature.  A sequence leg lets ONE real PatternFormatter object format k >= 2 messages whose sets of present '
            'attributes (and types) differ - the number of units a literal loses after adjacent optional attributes depends on the message at hand - and '
            'requires every result to equal what a fresh formatter object gives for the same message object, what the extracted object machine '
            '(calls_model: tokens + pending counter threaded through the calls) gives, and to pass the oracle; '
            'C12_format_is_a_function_of_pattern_and_message / C12_call_result_independent_of_history prove that the machine is stateless across calls.  '
            'Time texts: C12_time_token_prints_the_time_of_the_message / C12_time_text_is_that_of_the_message_at_hand prove that a %{time f} token contributes the '
            'rendering of the time stamps of the message at hand on every call (C12_time_text_kept_per_key_is_refuted: a token that keeps its text per clock second does not); '
            'the sequence leg constructs the messages of a sequence 0-8 ms apart inside one clock second (some across a second boundary) with 1-3 time tokens '
            '(sub-second fields, process/boot, conditions, format specs) in the pattern, and every message (sequence or not) is formatted a second time by the same '
            'object (up to 20 ms later) and by a fresh one: the text may not change; some messages wait 20 ms between construction and format().',
    'front_end': 'round 8: about 30% of the single cases and of the sequences obtain the formatter object through SimplePipeline().format(pattern) '
                 '(a copy of the message is passed through the pipeline, a trailing .handler() captures formattedMessage()); expected results are those of the same model '
                 '(C12_front_end_is_transparent / C12_front_end_object_is_the_direct_object; tools/s2c/pattern.py translates the body of SimplePipeline::format(const QString &) '
                 'and formatByQt()); the harness also formats the same LogMessage with a directly constructed PatternFormatter(pattern) and both texts must agree; '
                 'the name "default" is expected to give DefaultMessagePattern (C12_front_end_default_name); "qt"/"pretty" (other formatter classes) are outside C12',
    'note': 'Trusted: Coq 8.16.1 kernel (vm_compute only on closed examples / witnesses), no axioms; tools/s2c/pattern.py '
            '(regex translation of patternformatter.cpp and logmessage.h: placeholder names, type names, alignment '
            'characters, suffix/fill, mid() offsets, in-band marker vs out-of-band counter, statement shapes of the '
            'removal code and of applyPadding); extraction (ExtrOcamlBasic only), ocaml/drv_pattern.ml, '
            'harness/h_pattern.cpp.  Modelled, not verified: QString/QHash, QString::toInt, QChar::isSpace, '
            'QVariant::toString for string/int/bool.  The saturation of the pending-remove count at INT_MAX (commit 92e4552) is '
            'modelled explicitly (N.min ... src_pending_max) and exercised in the thorough tier.  Environment (taken from the real run, outside the model): '
            '%{func} clean-up (C14), QDateTime::toString, thread id values.  The time environment is computed by the harness from the message\'s own time stamps, '
            'not by the formatter: lmsg.time().toString(f); boot = whole milliseconds of lmsg.steadyTime() printed S.mmm; process = the same minus the library\'s '
            'process-start instant, which is a file-static and therefore bracketed from the renderings themselves (3 calibration messages at start-up, then every case: '
            'a rendering p for steady time t confines the instant to (t-(p+1)ms, t-p ms]; a rendering outside the bracket is replaced by the value the bracket predicts). '
            'Timing legs use real sleeps (2-25 ms) only to move time stamps / "now" apart; no verdict depends on how long a sleep really took.  '
            'Default-locale sub-run: a few hundred of the same cases (number-bearing ones first, plus fixed %{time process}/%{time boot}/%{line}/int-attribute patterns) '
            'are formatted while the application-wide default QLocale is de_DE, fr_FR, en_IN or ar_EG (QLocale::setDefault in the harness, restored before the environment '
            'is rendered under QLocale::c()); the model has no locale, so model = implementation there means every number is plain C text under every default locale.',
    'design_ref': 'DESIGN.md section 4, C12',
    'engine': 'coq+extraction+harness',
}

ZW = '\u200b'
MAXW = 4096   # DESIGN section 5 F6 (width near INT_MAX -> bad_alloc) belongs to C14

VALS = ['', 'a', 'hello', 'a' + ZW, ZW, ZW + ZW, 'a' + ZW + 'b' + ZW, ZW + 'x', '%{message}', '%%', '%', '}', '{x}', 'a:b', '?1,1',
        ':<5', '%{if-debug}', '%{endif}', '\u00e9\U0001F600', '\U0001F600\U0001F600\U0001F600', '\u200c', '\ufeff', 'a\u200cb\ufeff',
        'long value with spaces', 'x' * 9, 'debug', '!', '<', '^>', ' ', '  padded  ', '\t', '0', '-1']
CATS = ['default', 'net', 'a.b', '%{x}', '', None, 'qt.core.very.long.category.name', 'c}%']
FILES = ['/a/b/c.cpp', 'c.cpp', '/a/bx/c.cpp', 'C:\\d\\e.cpp', '', '/a/b', '/a/b/', None, '../src/x.cpp', '/a/b\\c.cpp',
         '/base/x.cpp', '/basement/x.cpp', '/base', '/base/', '/home/user/project/src/main.cpp', 'base\\x.cpp', 'basex.cpp', '/', '//x.cpp',
         '/a/b//c.cpp', 'C:\\dir\\e.cpp']
FUNCS = ['void f()', '', 'int A::g(int) const', 'virtual void NS::C<T>::m(const QString &) [with T = int]', None,
         'operator()', 'main']
TFS = ['hh:mm:ss', 'yyyy-MM-dd', 'process', 'boot', 'hh:mm:ss.zzz', 'yyyy-MM-ddThh:mm:ss', 'dd.MM.yyyy', 'hh']
ATTRN = ['u', 'user', 'seq_number', 'v', 'x:y', ' message', 'message ', 'Type', 'a b', 'if', 'u:k', 'w', 'n', 'b']
# default locales of the sub-run: decimal comma + '.' groups, decimal comma + U+202F groups, lakh grouping, native (Arabic-Indic) digits
LOCALES = ['de_DE', 'fr_FR', 'en_IN', 'ar_EG']
# round 8: how the formatter OBJECT under test is obtained: constructed directly, PatternFormatter(pat), or through the fluent
# front end SimplePipeline().format(pat) (observed by a trailing capturing .handler(); a copy of the message is passed through)
FLUENT_SHARE = 0.3
RESERVED_OTHER_CLASS = ('qt', 'pretty')      # names format() maps to other formatter classes (outside C12)


def default_message_pattern():
    """DefaultMessagePattern of messagepatterns.h (what the front end's name "default" stands for)"""
    import re
    t = open(os.path.join(vlib.REPO, 'src/qtlogger/messagepatterns.h'), encoding='utf-8').read()
    m = re.search(r'constexpr char DefaultMessagePattern\[\] = ((?:"[^"\\]*"\s*)+);', t)
    return ''.join(re.findall(r'"([^"]*)"', m.group(1))) if m else None


def is_fluent(c):
    return c.get('via') == 'f' and c['pat'] not in RESERVED_OTHER_CLASS


def model_pat(c):
    """the pattern the model formats with: the case's own - the front end is transparent - except for the name "default" """
    if is_fluent(c) and c['pat'] == 'default':
        return default_message_pattern() or c['pat']
    return c['pat']


def via_text(c):
    return 'SimplePipeline().format(pattern) + capturing handler (a copy of the message is passed through the pipeline)' if is_fluent(c) else 'PatternFormatter(pattern) constructed directly'


LITS = ['[', ']', ' ', '#', 'abc', '%%', '%', ':', '{', '}', ZW, '\u00e9', '\U0001F600', '<', '>', ' | ', '--', 'x', '(', ')',
        '"', ',', '?', '!', ' - ', '%%%%', '% ', '%x', '\n', '\u200c']


def hx(s):
    if s is None:
        return '~'
    return s.encode('utf-16-be', 'surrogatepass').hex() or '-'


def unhx(h):
    if h.endswith('/null'):
        return unhx(h[:-5]) + '<NULL QString>'
    if h in ('-', '~', ''):
        return ''
    return bytes.fromhex(h).decode('utf-16-be', 'surrogatepass')


def env_formats():
    s = {''}
    for t in TFS:
        parts = t.split(':')
        for i in range(1, len(parts) + 1):
            s.add(':'.join(parts[:i]).strip())
    return sorted(s)


ENVF = env_formats()


class Gen:
    def __init__(self, rng, slow_budget=0, boundary_budget=0):
        self.rng = rng
        self.hist = {}
        self.slow_budget = slow_budget            # how many cases may still ask the harness for a 20 ms wait
        self.boundary_budget = boundary_budget    # how many messages may still wait for the next clock second

    def timing(self, c):
        """a message whose pattern prints a time text: let it wait between construction and format() and/or be
        formatted a second time 20 ms later (the text belongs to the message's time stamps, not to 'now')"""
        if '%{time' not in c['pat'] or self.slow_budget <= 0:
            return c
        relative = ('time process' in c['pat']) or ('time boot' in c['pat'])
        if not relative and self.rng.random() < 0.9:
            return c
        self.slow_budget -= 1
        d, a = self.rng.choice([(20, 0), (0, 20), (0, 20), (7, 20), (25, 3)])
        c['delay'], c['again'] = d, a
        self.hit('timing:delay=%d,again=%d' % (d, a))
        return c

    def hit(self, k):
        self.hist[k] = self.hist.get(k, 0) + 1

    def width(self):
        r = self.rng
        x = r.random()
        if x < 0.75:
            return str(r.choice([1, 1, 2, 3, 4, 5, 5, 6, 7, 8, 8, 9, 10, 12, 15, 20]))
        if x < 0.80:
            return str(r.choice([64, 300, 1000, MAXW]))
        self.hit('spec:odd-width')
        return r.choice(['0', '', '+5', ' 5', '5 ', '05', '-3', '2147483648', '99999999999', 'x', '5x', '1e1', '\u0665', ' ', '+', '0x10'])

    def spec(self):
        r = self.rng
        x = r.random()
        fill = r.choice(['', '', ' ', '*', '0', '_', '.', '<', '^', '>', '%', ':', '!', ZW, '\u00e9', '1', '-', '?', ','])
        al = r.choice(['<', '>', '^', '<', '>', '^', ''])
        bang = r.choice(['', '', '!', '!', '!!']) if x < 0.97 else '!'
        s = fill + al + self.width() + bang
        self.hit('spec:' + ('fill' if fill else 'nofill') + '/' + (al or 'noalign') + '/' + (bang or 'nobang'))
        return ':' + s

    def count(self):
        r = self.rng
        if r.random() < 0.85:
            return str(r.randint(0, 5))
        self.hit('attr:odd-count')
        return r.choice(['-1', ' 2', '+1', 'x', '2147483648', '99', '', '07', '3 ', '4096'])

    def placeholder(self):
        r = self.rng
        x = r.random()
        if x < 0.16:
            body = 'message'
        elif x < 0.24:
            body = 'type'
        elif x < 0.30:
            body = 'category'
        elif x < 0.35:
            body = 'file'
        elif x < 0.41:
            body = r.choice(['shortfile', 'shortfile /a/b', 'shortfile /a', 'shortfile  /a/b  ', 'shortfile c.cpp', 'shortfile ', 'shortfile C:\\d',
                             'shortfile /', 'shortfile /base/', 'shortfile /base', 'shortfile base\\', 'shortfile /a/b/', 'shortfile /a/b//',
                             'shortfile \\', 'shortfile /a/b\\', 'shortfile C:\\d\\', 'shortfile /a/b/c.cpp', 'shortfile //'])
        elif x < 0.45:
            body = 'line'
        elif x < 0.49:
            body = r.choice(['function', 'func'])
        elif x < 0.54:
            body = r.choice(['time', 'time '] + ['time ' + t for t in TFS] + ['time  hh '])
        elif x < 0.57:
            body = r.choice(['threadid', 'qthreadptr'])
        elif x < 0.63:
            body = r.choice(ATTRN)                       # required attribute (present or missing)
        elif x < 0.93:
            n = r.choice(ATTRN[:4] + ['w', 'w', 'n', 'b'])
            form = r.randrange(6)
            if form == 0:
                body = n + '?'
            elif form == 1:
                body = n + '?' + self.count()
            elif form in (2, 3):
                body = n + '?' + self.count() + ',' + self.count()
            elif form == 4:
                body = n + '?,' + self.count()
            else:
                body = n + '?' + self.count() + ',' + self.count() + r.choice(['', ',1', '?2', ' '])
            self.hit('attr:optional-form-%d' % form)
        else:
            body = r.choice(['unknown', 'Message', ' message', 'message ', '', 'MESSAGE', 'types', 'if', 'endif ', 'time_', 'shortfilex',
                             'message:', ':', ':<5', 'a:b:c', '%', '{', '%{message'])
            self.hit('placeholder:unknown-or-odd')
        self.hit('placeholder:' + body.split(' ')[0].split('?')[0][:12])
        if r.random() < 0.45:
            body += self.spec()
        return '%{' + body + '}'

    def cond(self):
        r = self.rng
        t = r.choice(['debug', 'info', 'warning', 'critical', 'fatal', 'debug', 'info', 'warning', 'critical', 'fatal', 'bogus', '', 'Debug', 'info '])
        self.hit('cond:if-' + t)
        return '%{if-' + t + (self.spec() if r.random() < 0.05 else '') + '}'

    def item(self):
        r = self.rng
        x = r.random()
        if x < 0.42:
            return self.placeholder()
        if x < 0.72:
            self.hit('literal')
            return r.choice(LITS)
        if x < 0.80:
            return self.cond()
        if x < 0.86:
            self.hit('cond:endif')
            return '%{endif}'
        if x < 0.90:
            # the documented shape: punctuation, optional attribute, punctuation
            self.hit('shape:[opt]')
            n = r.choice(['w', 'u', 'n'])
            return r.choice(['[', '#', '<', '(', ZW, '']) + '%{' + n + '?' + str(r.randint(0, 3)) + ',' + str(r.randint(0, 3)) + '}' + r.choice(['] ', ']', '>', ') ', ZW + 'x', ''])
        if x < 0.93:
            self.hit('unterminated')
            return r.choice(['%{', '%{message', '%{u?1,1', '%{if-debug'])
        if x < 0.96:
            self.hit('percent')
            return r.choice(['%', '%%', '%%%', '%a', '% {'])
        self.hit('literal:long')
        return 'x' * r.randint(10, 40)

    def value(self):
        r = self.rng
        x = r.random()
        if x < 0.8:
            return r.choice(VALS)
        if x < 0.9:
            self.hit('value:random-special')
            return ''.join(r.choice('%{}:?,!<>^ ab' + ZW + '\u200c\ufeff\u00e9') for _ in range(r.randint(1, 12)))
        if x < 0.95:
            self.hit('value:astral')
            return ''.join(r.choice(['\U0001F600', '\U00010000', 'a', ZW]) for _ in range(r.randint(1, 8)))
        self.hit('value:long')
        return ''.join(r.choice('abc %}{' + ZW) for _ in range(r.randint(100, 300)))

    def case(self):
        r = self.rng
        n = r.choice([0, 1, 1, 2, 2, 3, 3, 4, 4, 5, 6, 7, 8, 10, 12])
        pat = ''.join(self.item() for _ in range(n))
        if r.random() < 0.06:
            pat += r.choice(['%', '%{', '%{message', '%{oops %%', '%{a %% b%', '%{%%', '%{x %%%% 100%'])
            self.hit('trailing-percent-or-open')
        attrs = []
        for k in ATTRN:
            p = 0.5 if k in ('u', 'user', 'seq_number', 'v') else (0.25 if k in ('w', 'n', 'b') else 0.5)
            if r.random() < p:
                if k == 'n' or (k == 'seq_number' and r.random() < 0.5):
                    attrs.append([k, 'i', r.choice([0, 1, 42, -7, 2147483647, -2147483648, 123456789012])])
                elif k == 'b':
                    attrs.append([k, 'b', r.choice([0, 1])])
                else:
                    # a NULL QString as the value (QVariant(QString()).isNull()) is still a present attribute with value ""
                    attrs.append([k, 's', None if r.random() < 0.12 else self.value()])
        if r.random() < 0.05:
            # only conditional sections: for most message types nothing is emitted (the result must be "" and not null)
            self.hit('shape:only-conditional-sections')
            pat = ''.join('%{if-' + t + '}' + r.choice(['X', '%{message}', 'CRIT %{message}', '%{u?1,1}']) + r.choice(['%{endif}', '%{endif}', ''])
                          for t in r.sample(['debug', 'info', 'warning', 'critical', 'fatal'], r.randint(1, 3)))
        c = {'pat': pat, 'type': r.randrange(5), 'msg': (None if r.random() < 0.02 else self.value()), 'cat': r.choice(CATS), 'file': r.choice(FILES),
             'fn': r.choice(FUNCS), 'line': r.choice([42, 0, 1, 99999, -1, 2147483647]), 'attrs': attrs}
        x = r.random()
        if x < 0.15:
            # another formatter ran before: the message already carries formatted text; %{message} is still the raw text
            c['prefmt'] = r.choice(['FORMATTED', '', 'other text ' + ZW, '%{message}', '[info] x'])
            self.hit('message:pre-formatted')
        elif x < 0.25:
            c['twice'] = True
            self.hit('message:formatted-twice')
        self.hit('ntok-items:%d' % min(n, 10))
        if r.random() < FLUENT_SHARE and pat not in RESERVED_OTHER_CLASS:
            c['via'] = 'f'
        self.hit('via:' + ('fluent' if c.get('via') else 'direct'))
        return self.timing(c)

    # ---- sequences: ONE formatter object, k >= 2 messages whose sets of present attributes differ ----
    SEQ_NAMES = ['a', 'b', 'w', 'u', 'n', 'v']
    # time formats for the sequence leg: most have a sub-second field (messages of one clock second differ there)
    SEQ_TF = ['hh:mm:ss.zzz', 'hh:mm:ss.zzz', 'zzz', 'zzz', 'ss.zzz', 'mm:ss.z', 'z', 'yyyy-MM-ddThh:mm:ss.zzz', 'yyyy-MM-dd hh:mm:ss.zzz', 's.zzz',
              'hh:mm:ss', 'yyyy-MM-dd', 'hh', 'process', 'boot', '', 'hh:mm:ss.zzz ap', 'dd.MM.yyyy hh:mm:ss.zzz', 'zzz ms', 'mm:ss']
    SEQ_TAILS = ['::: ', '>>> ', 'abcdefgh', ' -- ', '[[[[', '12345', ZW + 'xyz ', '....', '%% %%>', '\U0001F600\U0001F600 ']

    def time_token(self):
        r = self.rng
        tf = r.choice(self.SEQ_TF)
        ph = '%{time' + ((r.choice([' ', ' ', '  ']) + tf) if tf else '') + (self.spec() if r.random() < 0.3 else '') + '}'
        if r.random() < 0.25:
            ph = '%{if-' + r.choice(['debug', 'info', 'warning', 'critical']) + '}' + r.choice(['', 'at ']) + ph + r.choice(['%{endif}', '%{endif}', ' %{endif}'])
        return ph

    def seq_time_pattern(self):
        """%{time <format>} tokens (1-3 of them, with and without sub-second fields, some under a type condition, some with a
        format spec) between literals, optional attributes and values"""
        r = self.rng
        parts = [r.choice(['', '', '[', '%{type} ', '#%{seq_number?1:0>6} '])]
        for i in range(r.choice([1, 1, 1, 2, 2, 3])):
            parts.append(self.time_token())
            parts.append(r.choice(['', ' ', '] ', ' | ', ' %{type}: ', '%{u?1,1} ', ' <%{w?1,2}> ', '%{a?,1}%{b?,2}::: ']))
        parts.append(r.choice(['%{message}', '%{message}', '', '%{category}: %{message}']))
        if r.random() < 0.25:
            parts.append(''.join(self.item() for _ in range(r.randint(1, 3))))
        self.hit('seq:time-tokens')
        return ''.join(parts)

    def seq_pattern(self):
        r = self.rng
        x = r.random()
        if x < 0.22:
            return self.seq_time_pattern()
        x = r.random()
        if x < 0.7:
            # the shape in which the number of units a literal loses depends on the message at hand: adjacent optional
            # attributes with remove-after counts (some under a type condition), then a literal longer than the counts
            names = r.sample(self.SEQ_NAMES, r.choice([2, 2, 2, 3, 3, 4]))
            parts = [r.choice(['', '', '[', 'srv ', '%{type} ', '%{message} '])]
            for n in names:
                ph = '%{' + n + '?' + r.choice(['', '', '', '0', '1', '2']) + ',' + str(r.randint(1, 3)) + (self.spec() if r.random() < 0.1 else '') + '}'
                if r.random() < 0.2:
                    ph = '%{if-' + r.choice(['debug', 'info', 'warning']) + '}' + ph + '%{endif}'
                parts.append(ph)
            parts.append(r.choice(self.SEQ_TAILS))
            parts.append(r.choice(['%{message}', '%{message}', '', '%{type}', '%{category}']))
            if r.random() < 0.4:
                parts.append(''.join(self.item() for _ in range(r.randint(1, 4))))
            self.hit('seq:adjacent-optional-then-literal')
            return ''.join(parts)
        if x < 0.85:
            # several optional attributes spread over the pattern, literals between them
            n = r.randint(2, 5)
            self.hit('seq:spread-optional')
            return ''.join(r.choice(LITS + ['ab', 'abc', 'abcd']) + '%{' + r.choice(self.SEQ_NAMES) + '?' + self.count() + ',' + self.count() + '}' + r.choice(['', 'xyz', '] ', '::::'])
                           for _ in range(n)) + r.choice(['', '%{message}'])
        self.hit('seq:random-pattern')
        return ''.join(self.item() for _ in range(r.choice([1, 2, 3, 4, 5, 6, 8])))

    def seq_attrs(self):
        r = self.rng
        attrs = []
        for k in self.SEQ_NAMES + ['user', 'seq_number']:
            if r.random() < 0.5:
                if k == 'n':
                    attrs.append([k, 'i', r.choice([0, 7, 42, -7])])
                elif k == 'b':
                    attrs.append([k, 'b', r.choice([0, 1])])
                else:
                    attrs.append([k, 's', r.choice(['A', 'srv', 'x', 'admin', '', ZW, 'a b']) if r.random() < 0.8 else self.value()])
        return attrs

    def sequence(self):
        """k >= 2 messages for one formatter object: same pattern; attribute sets (and, half of the time, types) differ"""
        r = self.rng
        pat = self.seq_pattern()
        k = r.choice([2, 2, 3, 3, 3, 4, 4, 5, 6, 8])
        same_type = r.random() < 0.5
        t0 = r.randrange(5)
        same_text = r.random() < 0.5
        via = 'f' if (r.random() < FLUENT_SHARE and pat not in RESERVED_OTHER_CLASS) else None
        self.hit('seq:via=' + ('fluent' if via else 'direct'))
        m0 = r.choice(['m', 'hello', 'payload'])
        ms = []
        for tries in range(6):
            ms = []
            for j in range(k):
                c = {'pat': pat, 'type': t0 if same_type else r.randrange(5), 'msg': m0 if same_text else self.value(), 'cat': r.choice(CATS[:3]),
                     'file': r.choice(FILES[:3]), 'fn': r.choice(FUNCS[:3]), 'line': r.choice([42, 1]), 'attrs': self.seq_attrs(), 'seq': j}
                if via:
                    c['via'] = via
                x = r.random()
                if x < 0.05:
                    c['prefmt'] = r.choice(['FORMATTED', '', '[info] x'])
                elif x < 0.12:
                    c['twice'] = True
                ms.append(c)
            if len({tuple(sorted(a[0] for a in c['attrs'])) for c in ms}) > 1:
                break
        if '%{time' in pat:
            # the time stamps of consecutive messages: a few milliseconds apart inside one clock second (a message takes its
            # time stamps when it is constructed: the harness sleeps before constructing it); rarely the next second
            for j, c in enumerate(ms):
                if j > 0:
                    c['gap'] = r.choice([2, 3, 5, 2, 3, 5, 1, 0, 8])
                    if self.boundary_budget > 0 and r.random() < 0.02:
                        self.boundary_budget -= 1
                        c['gap'] = -1
                        self.hit('seq:gap=next-second')
                    else:
                        self.hit('seq:gap=%dms' % c['gap'])
            if r.random() < 0.3:
                self.timing(r.choice(ms))
        self.hit('seq:k=%d' % k)
        return ms

    def fixed_time_sequences(self):
        """always there: the library's own PrettyMessagePattern time format and friends, messages 3 ms apart within a second,
        then across a second boundary, then 3 ms apart again"""
        out = []
        for pat, gaps in (('%{time hh:mm:ss.zzz} %{type} %{message}', [0, 3, -1, 3]), ('[%{time zzz:0>6}]', [0, 3, 4]),
                          ('%{if-info}%{time ss.zzz}%{endif}%{u?,1} %{time process} %{message}', [0, 4, 2]),
                          ('%{time yyyy-MM-dd hh:mm:ss}|%{time}|%{time boot}', [0, 3, 3])):
            sq = []
            for j, gp in enumerate(gaps):
                c = {'pat': pat, 'type': 4 if j != 1 else 1, 'msg': 'm%d' % j, 'cat': 'default', 'file': 'c.cpp', 'fn': 'void f()', 'line': 42,
                     'attrs': [['u', 's', 'x']] if j % 2 else [], 'seq': j, 'gap': gp}
                sq.append(c)
            sq[-1]['again'] = 20
            if len(out) % 2:
                for c in sq:
                    c['via'] = 'f'
            out.append(sq)
            self.hit('seq:fixed-time-sequence')
        return out

    def fixed_time_cases(self):
        """always there: the two relative time formats, the message waits 20 ms before / is formatted again 20 ms after"""
        out = []
        for pat in ('%{time process}', '%{time boot}', '[%{time process:>12}] %{message}', '%{if-info}%{time boot}%{endif}|%{time process}',
                    '%{time hh:mm:ss.zzz} %{message}'):
            for d, a in ((20, 0), (0, 20)):
                out.append({'pat': pat, 'type': 4, 'msg': 'm', 'cat': 'default', 'file': 'c.cpp', 'fn': 'void f()', 'line': 42, 'attrs': [],
                            'delay': d, 'again': a})
                self.hit('timing:fixed')
        return out

    def fixed_front_cases(self):
        """always there: documented patterns through the front end, the name "default" (= DefaultMessagePattern) through the front
        end and as a directly constructed literal pattern, patterns with blanks at the edges, two pipelines one after the other"""
        out = []
        base = {'type': 4, 'msg': 'Hello', 'cat': 'net', 'file': '/a/b/c.cpp', 'fn': 'void f()', 'line': 42, 'attrs': [['user', 's', 'admin']]}
        for pat in ('default', '%{time} [%{category}] %{type}: %{message}', '[%{user?1,1}] %{message}', ' %{message} ', '  ', '%{message}', '%{type}',
                    '%{time yyyy-MM-dd hh:mm:ss.zzz} [%{type:>8}] [%{category}] %{message}', 'Default', 'default ', '', 'x',
                    '%{if-category}%{category}: %{endif}%{message}'):
            for t, cat in ((4, 'net'), (0, 'default'), (1, None)):
                for via in ('f', None):
                    out.append(dict(base, pat=pat, type=t, cat=cat, via=via))
                    self.hit('front:fixed')
        return out

    def locale_cases(self, cases, n):
        """the default-locale sub-run: the documented rules know no locale, so the text must be the same plain C text whatever the
        application made its default QLocale (decimal comma, digit grouping with ',' / U+202F / lakh groups, native digits).
        Fixed number-bearing patterns plus up to n of the generated cases (those that print a number first), each under one of
        LOCALES."""
        r = self.rng
        out = []
        base = {'type': 1, 'msg': 'payload 1,5', 'cat': 'default', 'file': '/a/b/c.cpp', 'fn': 'void f()', 'line': 1234567,
                'attrs': [['n', 'i', 123456789012], ['seq_number', 'i', 2147483647], ['u', 's', '1234.5']]}
        for pat in ('%{time process}', '%{time boot}', '%{time boot}|%{time process}|%{message}', '%{line}', '%{file}:%{line} %{n} #%{seq_number:0>12}',
                    '[%{time process:>12}] %{threadid} %{qthreadptr} %{message}', '%{if-warning}%{time process:*^14!}%{endif}%{u?1,1}%{w?,2}: %{line}',
                    '%{time hh:mm:ss.zzz} %{time process} %{line:,>9}'):
            for loc in LOCALES:
                out.append(dict(base, pat=pat, locale=loc))
                self.hit('locale:fixed')
        numeric = ('%{time process', '%{time boot', '%{line', '%{threadid', '%{qthreadptr', '%{n', '%{seq_number')
        pool = [c for c in cases if not c.get('locale')]
        first = [c for c in pool if any(t in c['pat'] for t in numeric)]
        rest = [c for c in pool if not any(t in c['pat'] for t in numeric)]
        pick = first[:n - n // 5]
        pick += rest[:n - len(pick)]
        for c in pick:
            loc = r.choice(LOCALES)
            out.append(dict(c, locale=loc))
            self.hit('locale:' + loc)
        return out


def case_env(c):
    """time formats the environment must render: the fixed pool plus whatever follows 'time ' in the pattern"""
    e = list(ENVF)
    pat, i = c['pat'], 0
    while True:
        i = pat.find('%{time ', i)
        if i < 0:
            break
        j = pat.find('}', i)
        if j < 0:
            break
        parts = pat[i + 7:j].split(':')
        for k in range(1, len(parts) + 1):
            t = ':'.join(parts[:k]).strip()
            if t not in e and ' ' not in hx(t):
                e.append(t)
        i += 2
    return e


def impl_line(c):
    ENVF = case_env(c)
    f = [hx(c['pat']), str(c['type']), hx(c['msg']), hx(c['cat']), hx(c['file']), hx(c['fn']), str(c['line']), str(len(c['attrs']))]
    for k, t, v in c['attrs']:
        f += [hx(k), (t + hx(v)) if t == 's' else (t + str(v))]
    f += [str(len(ENVF))] + [hx(t) for t in ENVF]
    f += [hx(c.get('prefmt')), '1' if c.get('twice') else '0']
    f += [str(c.get('seq', -1))]    # position in a sequence of messages formatted by ONE formatter object (0 = new object; -1 = no sequence)
    # timing (ms): gap = sleep before the LogMessage is constructed (-1: until the wall clock enters the next second),
    # delay = sleep between construction and the observed format() call, again = sleep before the same object formats the same message again
    f += [str(c.get('gap', 0)), str(c.get('delay', 0)), str(c.get('again', 0))]
    # the application-wide default QLocale (QLocale::setDefault) while the object under test works; absent = the start-up default
    if c.get('locale') or is_fluent(c):
        f += [hx(c.get('locale'))]
    # how the formatter object under test is obtained (round 8): f = SimplePipeline().format(pat), absent = PatternFormatter(pat)
    if is_fluent(c):
        f += ['f']
    return ' '.join(f)


def model_line(c, impl_out):
    """impl_out: the harness's output line -> (model input line, implementation's formatted text as hex) or None"""
    p = impl_out.split(' ')
    ENVF = case_env(c)
    nseq = 1 if 'seq' in c else 0
    # two more groups: '=' / '#<what a fresh formatter object gave>', '=' / '#<what the same object gave for the same message later>'
    if len(p) != 5 + len(ENVF) + 2 or p[0].startswith('!'):
        return None, None
    out, nul, tid, ptr, fnc = p[0], p[1], int(p[2]), int(p[3]), p[4]
    f = [hx(model_pat(c)), str(c['type']), hx(c['msg']), hx(c['cat']), hx(c['file']), hx(c['fn']), fnc, str(c['line']),
         bin(tid)[2:], bin(ptr)[2:], str(len(c['attrs']))]
    for k, t, v in c['attrs']:
        f += [hx(k), (t + hx(v)) if t == 's' else (t + str(v))]
    f += [str(len(ENVF))]
    for t, r in zip(ENVF, p[5:5 + len(ENVF)]):
        f += [hx(t), r]
    f += [out, nul]
    if nseq:
        f += [str(c['seq'])]
    return ' '.join(f), out + ('/null' if nul == 'N' else '')


def evaluate(cases, impl, model):
    """run implementation and model on the cases -> list of dicts(impl, model, oracle, ntok, nrem, full, crashed)"""
    lines = [impl_line(c) for c in cases]
    rc, outs, err = vlib.run_lines(impl, lines, timeout=900)
    res = [None] * len(cases)
    mlines, idx = [], []
    for i, c in enumerate(cases):
        o = outs[i] if i < len(outs) else '!no output (rc=%s) %s' % (rc, err[-200:])
        ml, out = model_line(c, o)
        if ml is None:
            res[i] = {'crashed': True, 'impl_raw': o[:300]}
        else:
            mlines.append(ml); idx.append(i)
            res[i] = {'crashed': False, 'impl': out, 'fluent': is_fluent(c), 'named_default': is_fluent(c) and c['pat'] == 'default'}
            p = o.split(' ')
            res[i]['fresh'] = out if p[-2] == '=' else p[-2][1:]    # what a fresh formatter object gives for the same message object
            res[i]['again'] = out if p[-1] == '=' else p[-1][1:]    # what the same object gives for the same message object when asked again (later)
            env = dict(zip(case_env(c), p[5:]))
            res[i]['stamp'] = unhx(env.get('hh:mm:ss.zzz', ''))    # the message's wall-clock time stamp (for the reports / coverage only)
            res[i]['process_s'] = unhx(env.get('process', ''))
            if 'seq' in c:
                res[i]['seq_member'] = True
    rc2, mo, err2 = vlib.run_lines(model, mlines, ['check'], timeout=900)
    if rc2 != 0 or len(mo) != len(mlines):
        raise RuntimeError('model driver failed: rc=%s %s' % (rc2, err2[-500:]))
    for i, l in zip(idx, mo):
        p = l.split(' ')
        if len(p) != 7:
            res[i].update({'model': '?', 'oracle': False, 'ntok': 0, 'nrem': 0, 'full': '?', 'envmiss': False, 'null_expected': False, 'parse_error': l[:100]})
        else:
            res[i].update({'model': p[0] + ('/null' if p[6] == 'N' else ''), 'oracle': p[1] == '1', 'ntok': int(p[2]), 'nrem': int(p[3]),
                           'full': p[4], 'envmiss': p[5] == '1', 'null_expected': p[6] == 'N'})
    return res


def describe(c, r):
    d = {'case': c, 'pattern': c['pat'], 'message': c['msg'], 'type': c['type'], 'attributes': c['attrs'], 'file': c.get('file'), 'pre_formatted_with': c.get('prefmt'), 'formatted_twice': bool(c.get('twice')),
         'has_zero_width_space': ZW in ((c['msg'] or '') + c['pat'] + ''.join(str(a[2] or '') for a in c['attrs'])),
         'default_locale': c.get('locale'), 'formatter_object_obtained_by': via_text(c),
         'implementation_output': unhx(r.get('impl', '')), 'model_output': unhx(r.get('model', '')),
         'documented_concatenation': unhx(r.get('full', '')), 'active_removing_optional_attributes': r.get('nrem'),
         'implementation_output_hex': r.get('impl'), 'model_output_hex': r.get('model'),
         'ms_between_construction_and_format': c.get('delay', 0), 'ms_before_second_format_call': c.get('again', 0),
         'message_time_stamp': r.get('stamp'), 'second_call_output': unhx(r.get('again', '')), 'fresh_object_output': unhx(r.get('fresh', ''))}
    return d


def shrink(c, impl, model, bad):
    """greedy: pattern characters, message characters, attributes"""
    def with_(k, v):
        d = dict(c); d[k] = v; return d
    cur = dict(c)
    for key in ('pat', 'msg'):
        if cur[key] is None:
            continue

        def still(chars, key=key):
            return bad(dict(cur, **{key: ''.join(chars)}))
        cur[key] = ''.join(vlib.shrink_list(list(cur[key]), still, max_steps=250))
    cur['attrs'] = vlib.shrink_list(cur['attrs'], lambda a: bad(dict(cur, attrs=a)), max_steps=40)
    if cur.get('via') and bad(dict(cur, via=None)):
        cur['via'] = None          # fails with a directly constructed PatternFormatter as well: the front end is not part of the failing input
    if cur.get('locale') and bad(dict(cur, locale=None)):
        cur['locale'] = None       # fails under the start-up default locale as well: the locale is not part of the failing input
    return cur


def concurrent_cases(g, n):
    """cases for the concurrent leg; index i belongs to thread i mod 4: threads 0,1 format patterns with missing
    optional attributes followed by literals, threads 2,3 literal-led patterns without any optional attribute"""
    r = g.rng
    drop = [' %{user?1,1}d %{user?0,2}xy %{user?2,3}abc %{user?,1}payload', '[%{w?1,1}] %{message}', '#%{w?1} %{w?,2}ab%{w?1,3}cdef<%{w?1,1}>x',
            '%{message}%{w?,4}12345678%{w?,1}-%{w?,2}end', '(%{w?1,1}) (%{w?1,1}) (%{w?1,1}) %{type}', 'a%{w?,1}b%{w?,1}c%{w?,1}d%{w?,1}e%{w?,1}f']
    vict = ['[%{type}] %{message} -- end', 'abc%{message}def', '%{if-debug}D%{endif}%{if-info}I%{endif} literal %{category}: %{message}',
            'x', '%{message:>12} | tail', '{"level":"%{type}","msg":"%{message}"}', '%% 100%% %{file} (%{line})']
    out = []
    for i in range(n):
        base = g.case()
        if i % 4 in (0, 1):
            pat = r.choice(drop)
            attrs = [a for a in base['attrs'] if a[0] not in ('w', 'user')]
        else:
            pat = r.choice(vict)
            attrs = base['attrs']
        out.append(dict(base, pat=pat, attrs=attrs, msg=r.choice(['payload', 'hello world', 'x', '', 'a' + ZW + 'b'])))
    return out


def concurrent_leg(chk, cases, impl, model, threads, rounds, maxms):
    """k threads, each with its own PatternFormatter/LogMessage objects, format their own cases in a tight loop behind a
    start barrier; every result must equal the single-threaded result, which must equal the model's output."""
    single = evaluate(cases, impl, model)
    rc, outs, err = vlib.run_lines(impl, [impl_line(c) for c in cases], ['threads', str(threads), str(rounds), str(maxms)], timeout=600)
    calls = bad = 0
    first = None
    if rc != 0 or len(outs) != len(cases):
        chk.fail('the formatter crashed when used from %d threads at once' % threads,
                 {'kind': 'concurrent_crash', 'threads': threads, 'rc': rc, 'stderr': err[-400:], 'cases': cases}, kind='concurrent_crash')
        return {'threads': threads, 'calls': 0, 'wrong_results': 0}
    for i, (c, l) in enumerate(zip(cases, outs)):
        ref, n, b, fb = l.split(' ')
        calls += int(n); bad += int(b)
        if single[i]['crashed'] or ref != single[i]['model'].replace('/null', ''):
            chk.broke('concurrent leg: the single-threaded result of pattern %r is not the model output' % c['pat'],
                      {'kind': 'correspondence', 'case': c, 'implementation_output_hex': ref, 'model_output_hex': single[i].get('model')})
        if int(b) and first is None:
            first = (i, c, ref, fb, int(n), int(b))
    if first:
        i, c, ref, fb, n, b = first
        chk.fail('concurrent use: %d threads with their own PatternFormatter and messages; thread %d formatting pattern %r message %r got %r instead of %r '
                 '(%d of its %d calls wrong; %d of %d calls wrong in total)' % (threads, i % threads, c['pat'], c['msg'], unhx(fb), unhx(ref), b, n, bad, calls),
                 {'kind': 'concurrent', 'threads': threads, 'rounds': rounds, 'max_ms': maxms, 'cases': cases, 'failing_case_index': i,
                  'pattern': c['pat'], 'message': c['msg'], 'expected_single_threaded_and_model': unhx(ref), 'got': unhx(fb),
                  'wrong_results': bad, 'calls': calls,
                  'note': 'probabilistic: depends on the interleaving; replay re-runs the same threads/cases/rounds'}, kind='concurrent')
    return {'threads': threads, 'cases': len(cases), 'calls': calls, 'wrong_results': bad, 'rounds_limit': rounds, 'time_limit_ms': maxms,
            'note': 'probabilistic leg: a data race shows only under some interleavings; the seeded shared-counter patch '
                    '(seeded/C12-ind-r2-3) gives wrong results within the first thousands of calls on this machine'}

def renumber(seq):
    return [dict(c, seq=j) for j, c in enumerate(seq)]


def eval_sequences(seqs, impl, model):
    """all sequences through ONE run of the harness / the model driver (each sequence starts with seq=0 = a new formatter
    object); returns one list of result dicts per sequence"""
    flat = [c for sq in seqs for c in sq]
    res = evaluate(flat, impl, model) if flat else []
    out, i = [], 0
    for sq in seqs:
        out.append(res[i:i + len(sq)]); i += len(sq)
    return out


def stateful_members(rs):
    """members whose result on the kept object is not what a fresh formatter object gives for the same message"""
    return [j for j, r in enumerate(rs) if not r['crashed'] and r.get('fresh') is not None and r['fresh'] != r['impl']]


def reformat_differs(r):
    """the same formatter object (or, for a case with its own object, another fresh one) asked again for the SAME LogMessage gave another text"""
    return (not r['crashed']) and (r.get('again', r['impl']) != r['impl'] or
                                   ('seq_member' not in r and not r.get('fluent') and r.get('fresh', r['impl']) != r['impl']))


def front_differs(r):
    """a single case whose object came from SimplePipeline().format(pat): a directly constructed PatternFormatter(pat) gave another
    text (or null-ness) for the very same LogMessage object (same call gave the same text twice, so the text does not drift in time)"""
    return (not r['crashed']) and bool(r.get('fluent')) and 'seq_member' not in r and not r.get('named_default') \
        and r.get('again', r['impl']) == r['impl'] and r.get('fresh', r['impl']) != r['impl']


def report_reformat(chk, c, impl, model, found_in, count):
    """c: a single case (no 'seq') for which format() of the same LogMessage object returns different texts at different times"""
    def bad(c1):
        return reformat_differs(evaluate([c1], impl, model)[0])
    if not bad(c):
        return False
    small = shrink(c, impl, model, bad)
    r = evaluate([small], impl, model)[0]
    if not reformat_differs(r):
        small = c; r = evaluate([small], impl, model)[0]
        if not reformat_differs(r):
            return False
    second = r['again'] if r['again'] != r['impl'] else r['fresh']
    chk.fail('the text is not a function of the message: pattern %r, ONE LogMessage object (time stamp %s, %s s after process start), format() called %d ms after it was constructed '
             'returns %r; called again %d ms later%s it returns %r (model, from the message\'s own time stamps: %r)'
             % (small['pat'], r.get('stamp'), r.get('process_s'), small.get('delay', 0), unhx(r['impl']), small.get('again', 0),
                '' if r['again'] != r['impl'] else ' on a fresh formatter object', unhx(second), unhx(r.get('model', ''))),
             dict(describe(small, r), kind='reformat', found_in=found_in, cases_with_changing_text=count,
                  first_call_output=unhx(r['impl']), later_call_output=unhx(second), oracle_holds_on_first_call=r.get('oracle')), kind='reformat')
    return True


def shrink_sequence(seq, impl, model):
    def bad(sq):
        sq = renumber(sq)
        return len(sq) >= 1 and bool(stateful_members(eval_sequences([sq], impl, model)[0]))
    cur = vlib.shrink_list(list(seq), bad, max_steps=60)
    pat = ''.join(vlib.shrink_list(list(cur[0]['pat']), lambda ch: bad([dict(c, pat=''.join(ch)) for c in cur]), max_steps=200))
    cur = [dict(c, pat=pat) for c in cur]
    if any(c.get('via') for c in cur) and bad([dict(c, via=None) for c in cur]):
        cur = [dict(c, via=None) for c in cur]     # the directly constructed object shows it as well: the front end is not part of the failing input
    for j in range(len(cur)):
        def with_j(**kw):
            return cur[:j] + [dict(cur[j], **kw)] + cur[j + 1:]
        cur[j]['attrs'] = vlib.shrink_list(cur[j]['attrs'], lambda a: bad(with_j(attrs=a)), max_steps=30)
        for key, simple in (('msg', 'm'), ('type', 0), ('cat', 'default'), ('file', 'c.cpp'), ('fn', 'void f()'), ('line', 42)):
            if cur[j].get(key) != simple and bad(with_j(**{key: simple})):
                cur[j][key] = simple
        for key in ('prefmt', 'twice'):
            if key in cur[j]:
                d = dict(cur[j]); d.pop(key)
                if bad(cur[:j] + [d] + cur[j + 1:]):
                    cur[j] = d
    return renumber(cur)


def describe_sequence(seq, rs):
    return [{'call': j + 1, 'message': c['msg'], 'type': c['type'], 'attributes': c['attrs'],
             'pre_formatted_with': c.get('prefmt'), 'formatted_twice': bool(c.get('twice')),
             'constructed_ms_after_previous_call': ('next clock second' if c.get('gap') == -1 else c.get('gap', 0)), 'message_time_stamp': r.get('stamp'),
             'ms_between_construction_and_format': c.get('delay', 0), 'ms_before_second_format_call': c.get('again', 0),
             'second_call_on_kept_object_output': unhx(r.get('again', '')),
             'kept_object_output': unhx(r.get('impl', '')) if not r['crashed'] else r.get('impl_raw'),
             'fresh_object_output': unhx(r.get('fresh', '')), 'model_output': unhx(r.get('model', '')),
             'documented_concatenation': unhx(r.get('full', '')), 'active_removing_optional_attributes': r.get('nrem'),
             'oracle_holds_on_kept_object_output': r.get('oracle')} for j, (c, r) in enumerate(zip(seq, rs))]


def missing_sets(sq):
    return {tuple(sorted(a[0] for a in c['attrs'])) for c in sq}


def sequence_leg(chk, g, seqs, impl, model, ncorpus=0):
    """ONE PatternFormatter object formats k >= 2 messages whose attribute sets differ.  Every result must be (1) what a
    fresh formatter object gives for the very same message object (checked inside the harness, no model involved),
    (2) what the extracted object machine (calls_model) gives, (3) accepted by the extracted oracle for that message."""
    rss = eval_sequences(seqs, impl, model)
    crashed, stateful, single_bad, differs, reformat = [], [], [], [], []
    time_seqs = same_second_pairs = boundary_pairs = subsecond_fmt_seqs = 0
    nmsg = 0
    hist_k, hist_tok, hist_rem = {}, {}, {}
    distinct_out = 0
    for si, (sq, rs) in enumerate(zip(seqs, rss)):
        nmsg += len(sq)
        hist_k[min(len(sq), 8)] = hist_k.get(min(len(sq), 8), 0) + 1
        if any(r['crashed'] for r in rs):
            crashed.append(si); continue
        if '%{time' in sq[0]['pat']:
            time_seqs += 1
            subsecond_fmt_seqs += 1 if 'z' in sq[0]['pat'] else 0
            for a, b in zip(rs, rs[1:]):
                if a['stamp'][:8] == b['stamp'][:8] and a['stamp'] != b['stamp']:
                    same_second_pairs += 1
                elif a['stamp'][:8] != b['stamp'][:8]:
                    boundary_pairs += 1
        ag = [j for j, r in enumerate(rs) if r.get('again', r['impl']) != r['impl']]
        if ag:
            reformat.append((si, ag[0])); continue
        if stateful_members(rs):
            stateful.append(si); continue
        for j, r in enumerate(rs):
            if r['envmiss']:
                continue
            hist_rem[min(r['nrem'], 4)] = hist_rem.get(min(r['nrem'], 4), 0) + 1
            if not r['oracle']:
                single_bad.append((si, j))
            elif r['impl'] != r['model']:
                differs.append((si, j))
        hist_tok[min(rs[0]['ntok'], 12)] = hist_tok.get(min(rs[0]['ntok'], 12), 0) + 1
        if len({r['impl'] for r in rs}) > 1:
            distinct_out += 1
    if crashed:
        si = crashed[0]
        j = [r['crashed'] for r in rss[si]].index(True)
        chk.fail('the formatter threw / the harness died while one formatter object formatted a sequence of messages (call %d)' % (j + 1),
                 {'kind': 'crash', 'sequence': seqs[si], 'pattern': seqs[si][0]['pat'], 'raw': rss[si][j].get('impl_raw')}, kind='crash')
    if reformat:
        si, j = min(reformat, key=lambda t: len(seqs[t[0]][0]['pat']))
        c = {k: v for k, v in seqs[si][j].items() if k not in ('seq', 'gap')}
        if not report_reformat(chk, c, impl, model, 'sequence leg', len(reformat)):
            r = rss[si][j]
            chk.fail('call %d of a sequence: the same formatter object asked again %d ms later for the same LogMessage returns %r instead of %r'
                     % (j + 1, seqs[si][j].get('again', 0), unhx(r['again']), unhx(r['impl'])),
                     {'kind': 'reformat', 'pattern': seqs[si][0]['pat'], 'sequence': seqs[si], 'failing_call': j + 1,
                      'calls': describe_sequence(seqs[si], rss[si])}, kind='reformat')
    if stateful:
        si = min(stateful, key=lambda i: (i >= ncorpus, len(seqs[i]), len(seqs[i][0]['pat'])))
        small = shrink_sequence(seqs[si], impl, model)
        rs = eval_sequences([small], impl, model)[0]
        bad = stateful_members(rs)
        if not bad:                       # (cannot happen: the shrinker only keeps failing sequences)
            small = renumber(seqs[si]); rs = rss[si]; bad = stateful_members(rs)
        j = bad[0]
        r = rs[j]
        chk.fail('format() is not a function of (pattern, message): ONE PatternFormatter object%s with pattern %r formats %d message(s) in a row; '
                 'call %d (message %r, attributes %r, time stamp %s) returns %r, while a fresh formatter object gives %r for the same message '
                 '(model %r, documented concatenation %r; the extracted oracle %s the returned text); earlier calls had attributes %r and time stamps %r'
                 % (' (obtained through SimplePipeline().format(pattern); the "fresh" one is constructed directly)' if is_fluent(small[0]) else '',
                    small[0]['pat'], len(small), j + 1, small[j]['msg'], small[j]['attrs'], r.get('stamp'), unhx(r['impl']), unhx(r['fresh']), unhx(r.get('model', '')),
                    unhx(r.get('full', '')), 'accepts' if r.get('oracle') else 'REJECTS', [c['attrs'] for c in small[:j]], [x.get('stamp') for x in rs[:j]]),
                 {'kind': 'sequence', 'pattern': small[0]['pat'], 'sequence': small, 'failing_call': j + 1, 'calls': describe_sequence(small, rs),
                  'formatter_object_obtained_by': via_text(small[0]),
                  'got': unhx(r['impl']), 'fresh_formatter_object_gives': unhx(r['fresh']), 'model_output': unhx(r.get('model', '')),
                  'oracle_holds_on_got': r.get('oracle'), 'sequences_with_history_dependent_results': len(stateful),
                  'has_zero_width_space': ZW in small[0]['pat'] + ''.join((c['msg'] or '') for c in small)}, kind='sequence')
    if single_bad and not chk.failing:
        # the same (wrong) text with a fresh object: an ordinary single-message falsification, found through a sequence
        si, j = min(single_bad, key=lambda t: len(seqs[t[0]][0]['pat']))
        c = {k: v for k, v in seqs[si][j].items() if k != 'seq'}

        def bad1(c1):
            r1 = evaluate([c1], impl, model)[0]
            return (not r1['crashed']) and not r1['envmiss'] and not r1['oracle']
        if bad1(c):
            small = shrink(c, impl, model, bad1)
            r = evaluate([small], impl, model)[0]
            cls = 'removal' if r['nrem'] > 0 else 'verbatim'
            chk.fail('output is not what the documented rules prescribe: pattern %r message %r attributes %r -> %r, documented %r'
                     % (small['pat'], small['msg'], small['attrs'], unhx(r['impl']), unhx(r['full'])),
                     dict(describe(small, r), kind=cls, found_in='sequence leg', model_disagrees=r['impl'] != r['model']), kind=cls)
        else:
            r = rss[si][j]
            chk.fail('call %d of a sequence on one formatter object returns a text the documented rules do not allow' % (j + 1),
                     {'kind': 'sequence', 'pattern': seqs[si][0]['pat'], 'sequence': seqs[si], 'failing_call': j + 1,
                      'calls': describe_sequence(seqs[si], rss[si]), 'got': unhx(r['impl'])}, kind='sequence')
    if differs and not chk.failing and not chk.broken:
        si, j = min(differs, key=lambda t: len(seqs[t[0]][0]['pat']))
        r = rss[si][j]
        chk.broke('correspondence (sequence leg): the object machine of the model and the kept PatternFormatter differ on %d calls (oracle holds, a fresh object agrees '
                  'with the kept one), e.g. pattern %r call %d: implementation %r model %r' % (len(differs), seqs[si][0]['pat'], j + 1, unhx(r['impl']), unhx(r['model'])),
                  {'kind': 'correspondence', 'sequence': seqs[si], 'failing_call': j + 1, 'calls': describe_sequence(seqs[si], rss[si])})
    return {'sequences': len(seqs), 'calls': nmsg, 'corpus_sequences': ncorpus,
            'kept_object_obtained_via': {'direct': sum(1 for sq in seqs if not is_fluent(sq[0])), 'fluent SimplePipeline().format(pattern)': sum(1 for sq in seqs if is_fluent(sq[0]))},
            'rule': 'one PatternFormatter object per sequence, k messages with the same pattern; the sets of present attributes differ between the '
                    'messages (types and texts in half of the sequences); 55% of the patterns: adjacent optional attributes with remove-after '
                    'counts (some under a type condition) followed by a literal longer than the counts; 22%: 1-3 %{time <format>} tokens (with and '
                    'without sub-second fields, process/boot, under conditions, with format specs), the messages constructed 0-8 ms apart inside one '
                    'clock second (some across a second boundary); every message is formatted twice by the kept object and once by a fresh one',
            'sequences_with_differing_attribute_sets': sum(1 for sq in seqs if len(missing_sets(sq)) > 1),
            'sequences_with_at_least_two_distinct_outputs': distinct_out,
            'sequences_with_time_tokens': time_seqs, 'sequences_with_sub_second_time_format': subsecond_fmt_seqs,
            'consecutive_messages_in_one_clock_second_with_different_milliseconds': same_second_pairs,
            'consecutive_messages_in_different_clock_seconds': boundary_pairs,
            'same_message_formatted_again_gave_another_text': len(reformat),
            'history_dependent_results': len(stateful), 'oracle_falsified_calls': len(single_bad), 'model_differs_calls': len(differs), 'crashed_sequences': len(crashed),
            'length_histogram': {str(k): v for k, v in sorted(hist_k.items())},
            'tokens_histogram': {str(k): v for k, v in sorted(hist_tok.items())},
            'active_removing_optional_attributes_histogram': {str(k): v for k, v in sorted(hist_rem.items())}}


def load_corpus(sequences=False):
    """single cases ({'case': ...}) or, with sequences=True, the recorded sequences ({'sequence': [case, ...]})"""
    cs = []
    for p in sorted(glob.glob(os.path.join(vlib.VERIF, 'corpus', 'C12', '*.json'))):
        try:
            d = json.load(open(p))
            if 'sequence' in d:
                if sequences:
                    cs.append(renumber(d['sequence']))
            elif not sequences:
                cs.append(d['case'] if 'case' in d else d)
        except Exception:
            pass
    return cs


def run():
    chk = vlib.Check('C12')
    chk.trusted = ['Coq 8.16.1 kernel; vm_compute only on closed examples and the two F4 witnesses; no native_compute',
                   'axioms: none (every Print Assumptions: Closed under the global context)',
                   'tools/s2c/pattern.py translator (patternformatter.cpp, logmessage.h -> SrcPattern.v)',
                   'extraction ExtrOcamlBasic, no Extract Constant; ocaml/drv_pattern.ml; harness/h_pattern.cpp',
                   'modelled not verified: QString/QHash, QString::toInt, QChar::isSpace, QVariant::toString (string/int/bool)',
                   'environment taken from the real run: %{func} clean-up (C14), QDateTime::toString, thread id; process/boot seconds computed by the harness from lmsg.steadyTime() '
                   '(process start instant bracketed from the formatter\'s own renderings, see META.note)']
    chk.assumptions = ['widths are capped at %d in generated patterns (F6: width near INT_MAX -> bad_alloc is C14\'s finding)' % MAXW,
                       'category/file/function are printable ASCII (the property\'s quantifier)',
                       'attribute values are strings, ints or bools (QVariant::toString of other types is outside the model)',
                       'sequence leg: the messages of a sequence are formatted on one thread, one after the other (sharing one formatter between threads is outside C12)',
                       'concurrent leg: formatters and messages are per thread (no object is shared); it is a stress test, not a proof of thread safety',
                       'locale: the application-wide DEFAULT QLocale is varied (de_DE, fr_FR, en_IN, ar_EG); the SYSTEM locale (QLocale::system(), used by QDateTime::toString(format)) is the sandbox\'s and is environment, not varied',
                       'messages and values are well-formed UTF-16 (truncation may still cut a surrogate pair, as documented in the model)']
    chk.proof(vlib.proof_leg('Properties_C12', ['pattern']))
    model = vlib.build_model('pattern')
    impl = vlib.build_harness('pattern')
    thorough = chk.tier == 'thorough'
    g = Gen(chk.rng, slow_budget=400 if thorough else 70, boundary_budget=20 if thorough else 3)
    corpus = load_corpus()
    cases = list(corpus) + g.fixed_time_cases() + g.fixed_front_cases() + [g.case() for _ in range(100000 if thorough else 15000)]
    # the same cases once more under another application-wide default QLocale (the model has no locale: model = implementation under each)
    nplain = len(cases)
    cases += g.locale_cases(cases, 2000 if thorough else 400)
    if thorough:
        # the pending count saturates at INT_MAX (only here: code carrying markers in band would allocate 2^31 of them)
        base = dict(cases[0]) if cases else g.case()
        for pat in ('%{a?,2147483647}%{b?,2147483647}%{c?2147483647}x', 'x%{a?,2147483647}%{b?1}y', '%{a?,2147483647}%{b?,1}%{c?2147483647}xy',
                    '%{a?2147483647,2147483647}long literal', 'ab%{a?1,2147483647}%{message}%{b?2147483647}c'):
            cases.append(dict(base, pat=pat, attrs=[], msg='m'))
    res = evaluate(cases, impl, model)

    def bad_oracle(c, removing=None):
        r = evaluate([c], impl, model)[0]
        return (not r['crashed']) and not r['envmiss'] and not r['oracle'] and (removing is None or (r['nrem'] > 0) == removing)

    def bad_diff(c):
        r = evaluate([c], impl, model)[0]
        return (not r['crashed']) and not r['envmiss'] and r['impl'] != r['model']

    crashed = [i for i, r in enumerate(res) if r['crashed']]
    env_missing = [i for i, r in enumerate(res) if not r['crashed'] and r['envmiss']]
    skip = set(crashed) | set(env_missing)
    falsified = [i for i, r in enumerate(res) if i not in skip and not r['oracle']]
    differs = [i for i, r in enumerate(res) if i not in skip and r['impl'] != r['model']]
    if crashed:
        i = crashed[0]
        chk.fail('the formatter threw / the harness died on a generated pattern', dict(describe(cases[i], res[i]), kind='crash', raw=res[i].get('impl_raw')), kind='crash')
    # the same LogMessage formatted again (same object, 0-20 ms later / another fresh object) must give the same text
    changing = [i for i, r in enumerate(res) if i not in skip and reformat_differs(r)]
    if changing:
        for i in sorted(changing, key=lambda i: len(cases[i]['pat']))[:3]:
            if report_reformat(chk, cases[i], impl, model, 'single-message leg', len(changing)):
                break
    # round 8: an object obtained through the fluent front end must give what the directly constructed one gives (same LogMessage object)
    front_bad = [i for i, r in enumerate(res) if i not in skip and front_differs(r)]
    if front_bad and not chk.failing:
        i = min(front_bad, key=lambda i: len(cases[i]['pat']) + len(cases[i]['msg'] or ''))

        def bad_front(c):
            return front_differs(evaluate([c], impl, model)[0])
        keep_via = dict(cases[i])
        small = shrink(keep_via, impl, model, lambda c: c.get('via') == 'f' and bad_front(c))
        r = evaluate([small], impl, model)[0]
        if not front_differs(r):
            small = cases[i]; r = res[i]
        chk.fail('the fluent front end is not transparent: SimplePipeline().format(%r) formats message %r (type %d, attributes %r) as %r, while PatternFormatter(%r) '
                 'constructed directly gives %r for the same LogMessage object (model %r, documented %r; the extracted oracle %s the front end\'s text)'
                 % (small['pat'], small['msg'], small['type'], small['attrs'], unhx(r['impl']), small['pat'], unhx(r['fresh']), unhx(r.get('model', '')),
                    unhx(r.get('full', '')), 'accepts' if r.get('oracle') else 'REJECTS'),
                 dict(describe(small, r), kind='front_end', cases_where_front_end_and_direct_object_differ=len(front_bad),
                      front_end_output=unhx(r['impl']), directly_constructed_output=unhx(r['fresh']), oracle_holds_on_front_end_output=r.get('oracle')),
                 kind='front_end')
    chk.cov['front_end_vs_direct_object_differences'] = len(front_bad)

    # property falsified on the implementation: report one input per class (verbatim = no removal requested)
    def null_wrong(r):
        return r['impl'].endswith('/null') != r['null_expected']

    nullbad = [i for i in falsified if null_wrong(res[i])]
    if nullbad:
        i = min(nullbad, key=lambda i: len(cases[i]['pat']) + len(cases[i]['msg'] or ''))

        def bad_null(c):
            r = evaluate([c], impl, model)[0]
            return (not r['crashed']) and not r['envmiss'] and null_wrong(r)
        small = shrink(cases[i], impl, model, bad_null)
        r = evaluate([small], impl, model)[0]
        chk.fail('the result is a %s QString where it must be %s (LogMessage::isFormatted() is !isNull(): sinks would print the raw message '
                 'instead of the formatted text): pattern %r message %r type %d' % (
                     'NULL' if r['impl'].endswith('/null') else 'non-null', 'null (the null message itself)' if r['null_expected'] else 'non-null (empty when nothing is emitted)',
                     small['pat'], small['msg'], small['type']),
                 dict(describe(small, r), kind='null_result', falsified_cases=len(nullbad)), kind='null_result')
    falsified_text = [i for i in falsified if not null_wrong(res[i])]
    for cls, sel in (('verbatim', [i for i in falsified_text if res[i]['nrem'] == 0]), ('removal', [i for i in falsified_text if res[i]['nrem'] > 0])):
        if not sel:
            continue
        i = min(sel, key=lambda i: (i >= len(corpus), len(cases[i]['pat']) + len(cases[i]['msg'] or '')))
        small = shrink(cases[i], impl, model, lambda c, cls=cls: bad_oracle(c, cls == 'removal'))
        r = evaluate([small], impl, model)[0]
        what = ('output differs from the token-by-token concatenation of literal text and padded values although no optional attribute asks for a removal'
                if cls == 'verbatim' else
                'with a missing optional attribute the output is not the documented concatenation minus at most the requested characters')
        ctx = ''.join([' file %r' % small['file'] if 'file' in small['pat'] else '',
                       ' (message pre-formatted with %r by an earlier formatter)' % small['prefmt'] if small.get('prefmt') is not None else '',
                       ' (second pass: the formatter had already processed this message)' if small.get('twice') else '',
                       ' [formatter obtained through SimplePipeline().format(pattern)]' if is_fluent(small) else '',
                       ' under QLocale::setDefault(QLocale("%s")) - the documented text does not depend on the default locale' % small['locale'] if small.get('locale') else ''])
        chk.fail('%s: pattern %r message %r%s -> %r, documented %r' % (what, small['pat'], small['msg'], ctx, unhx(r['impl']), unhx(r['full'])),
                 dict(describe(small, r), kind=cls, falsified_cases=len(sel), model_disagrees=r['impl'] != r['model']), kind=cls)
    if differs and not falsified:
        i = min(differs, key=lambda i: len(cases[i]['pat']) + len(cases[i]['msg'] or ''))
        small = shrink(cases[i], impl, model, bad_diff)
        r = evaluate([small], impl, model)[0]
        chk.broke('correspondence: model and PatternFormatter differ on %d cases (oracle holds on all of them), e.g. pattern %r message %r%s: implementation %r model %r'
                  % (len(differs), small['pat'], small['msg'], ' under the default locale %s' % small['locale'] if small.get('locale') else '', unhx(r['impl']), unhx(r['model'])),
                  dict(describe(small, r), kind='correspondence'))
    elif differs:
        chk.cov['model_differs_as_well'] = len(differs)
    ok = [i for i in range(len(cases)) if i not in skip]
    hist_tok, hist_rem = {}, {}
    for i in ok:
        hist_tok[min(res[i]['ntok'], 12)] = hist_tok.get(min(res[i]['ntok'], 12), 0) + 1
        hist_rem[min(res[i]['nrem'], 4)] = hist_rem.get(min(res[i]['nrem'], 4), 0) + 1
    keyset = {(c['pat'], c['msg'], c['type'], json.dumps(c['attrs'])) for i, c in enumerate(cases) if i in set(ok) and res[i]['ntok'] >= 2}
    chk.cov.update({
        'evaluations': len(cases), 'distinct_nontrivial': len(keyset),
        'rule': 'a share of messages already carries formatter output (setFormattedMessage before / Formatter::process run first): %{message} is the raw text always; grammar-directed patterns (shortfile bases with trailing separators and sibling-prefix files, all placeholders, if-*/endif, optional attributes with N,M in 0..5 and odd counts, every '
                'fill/align/width/! combination, %%, lone and trailing %, unterminated and unknown placeholders) x values biased to '
                "% { } : ? U+200B U+200C U+FEFF astral empty long; non-trivial = parses to >= 2 tokens; corpus/C12 replayed first",
        'corpus_cases': len(corpus), 'disagreements_model_vs_impl': len(differs), 'oracle_evaluated_on_impl_outputs': len(ok),
        'oracle_falsified': len(falsified), 'crashed': len(crashed), 'env_missing_skipped': len(env_missing),
        'same_message_formatted_again_gave_another_text': len(changing),
        'cases_waiting_before_format_or_formatted_again_later': sum(1 for c in cases if c.get('delay') or c.get('again')),
        'formatter_object_obtained_via': {'direct': sum(1 for c in cases if not is_fluent(c)), 'fluent SimplePipeline().format(pattern)': sum(1 for c in cases if is_fluent(c)),
                                          'fluent, name "default"': sum(1 for c in cases if is_fluent(c) and c['pat'] == 'default')},
        'cases_under_another_default_locale': {l: sum(1 for c in cases if c.get('locale') == l) for l in LOCALES},
        'default_locale_cases_falsified_or_differing': sum(1 for i in set(falsified) | set(differs) if cases[i].get('locale')),
        'cases_with_time_placeholder': sum(1 for c in cases if '%{time' in c['pat']),
        'tokens_histogram': {str(k): v for k, v in sorted(hist_tok.items())},
        'active_removing_optional_attributes_histogram': {str(k): v for k, v in sorted(hist_rem.items())},
        'outputs_exactly_documented_concatenation': sum(1 for i in ok if res[i]['impl'] == res[i]['full']),
        'cases_with_zero_width_space_in_values': sum(1 for c in cases if ZW in (c['msg'] or '') or any(ZW in str(a[2] or '') for a in c['attrs'])),
        'generator_histogram': dict(sorted(g.hist.items()))})
    cseqs = load_corpus(sequences=True)
    seqs = cseqs + g.fixed_time_sequences() + [g.sequence() for _ in range(12000 if thorough else 1500)]
    chk.cov['sequence_leg'] = sequence_leg(chk, g, seqs, impl, model, len(cseqs))
    chk.cov['evaluations'] = len(cases) + chk.cov['sequence_leg']['calls']
    chk.cov['generator_histogram'] = dict(sorted(g.hist.items()))
    cc = concurrent_cases(g, 32)
    chk.cov['concurrent_leg'] = concurrent_leg(chk, cc, impl, model, 8 if thorough else 4, 2000000 if thorough else 40000, 15000 if thorough else 1500)
    if thorough:
        san = vlib.build_harness('pattern', 'san')
        sub = cases[:min(20000, nplain)] + cases[nplain:]
        rs = evaluate(sub, san, model)     # compared with the model under ITS OWN environment (time, thread id differ between runs)
        bad = [i for i, r in enumerate(rs) if r['crashed'] or (not r['envmiss'] and (r['impl'] != r['model'] or not r['oracle']))]
        srs = eval_sequences(seqs[:2000], san, model)
        sbad = [k for k, rs in enumerate(srs) if any(r['crashed'] for r in rs) or stateful_members(rs)
                or any((not r['envmiss']) and (r['impl'] != r['model'] or not r['oracle']) for r in rs)]
        chk.cov['sanitizer_build_sequences'] = len(srs)
        if sbad:
            k = sbad[0]
            chk.fail('the ASan/UBSan build reports an error or prints something else while one formatter object formats a sequence of messages',
                     {'kind': 'sanitizer', 'sequence': seqs[k], 'calls': describe_sequence(seqs[k], srs[k]),
                      'raw': [r.get('impl_raw') for r in srs[k] if r['crashed']][:1]}, kind='sanitizer')
        chk.cov['sanitizer_build_cases'] = len(sub)
        chk.cov['sanitizer_build_differences'] = len(bad)
        if bad:
            i = bad[0]
            chk.fail('the ASan/UBSan build reports an error or prints something else', dict(describe(sub[i], rs[i]), kind='sanitizer', raw=rs[i].get('impl_raw')), kind='sanitizer')
    pick = [i for i in ok if res[i]['ntok'] >= 3][:2] + [i for i in ok if res[i]['nrem'] > 0][:1]
    chk.samples = [{'pattern': cases[i]['pat'], 'message': cases[i]['msg'], 'type': cases[i]['type'], 'attributes': cases[i]['attrs'],
                    'impl': unhx(res[i]['impl'])[:160], 'model': unhx(res[i]['model'])[:160]} for i in pick]
    return chk.finish()


def replay(path):
    d = json.load(open(path))
    r = d.get('replay', d)
    if isinstance(r, list):
        r = r[0]
    if r.get('kind') in ('concurrent', 'concurrent_crash') and r.get('cases'):
        vlib.gen_src(['pattern'])
        model = vlib.build_model('pattern'); impl = vlib.build_harness('pattern')
        chk = vlib.Check('C12')
        print(json.dumps(concurrent_leg(chk, r['cases'], impl, model, r.get('threads', 4), r.get('rounds', 40000), r.get('max_ms', 1500)), indent=1))
        for w, _ in chk.failing + chk.broken:
            print(w)
        return 0
    if r.get('sequence'):
        vlib.gen_src(['pattern'])
        model = vlib.build_model('pattern'); impl = vlib.build_harness('pattern')
        sq = renumber(r['sequence'])
        rs = eval_sequences([sq], impl, model)[0]
        print('pattern        %r   (ONE PatternFormatter object, %d calls)' % (sq[0]['pat'], len(sq)))
        print('kept object    %s' % via_text(sq[0]))
        for d in describe_sequence(sq, rs):
            print('call %d: message %r type=%d attributes=%r  (constructed %s ms after the previous call, time stamp %s; format() %d ms after construction)'
                  % (d['call'], d['message'], d['type'], d['attributes'], d['constructed_ms_after_previous_call'], d['message_time_stamp'], d['ms_between_construction_and_format']))
            print('   kept object  %r' % d['kept_object_output'])
            print('   fresh object %r%s' % (d['fresh_object_output'], '' if d['fresh_object_output'] == d['kept_object_output'] else '   <-- DIFFERS: format() is not a function of (pattern, message)'))
            if d['second_call_on_kept_object_output'] != d['kept_object_output']:
                print('   kept object, same message again %d ms later: %r   <-- DIFFERS' % (d['ms_before_second_format_call'], d['second_call_on_kept_object_output']))
            print('   model        %r   documented %r   oracle %s' % (d['model_output'], d['documented_concatenation'], 'holds' if d['oracle_holds_on_kept_object_output'] else 'FALSIFIED'))
        return 0
    c = r.get('case')
    if not c:
        print(json.dumps(r, indent=1)); return 0
    vlib.gen_src(['pattern'])
    model = vlib.build_model('pattern'); impl = vlib.build_harness('pattern')
    x = evaluate([c], impl, model)[0]
    print('pattern        %r' % c['pat'])
    print('object         %s%s' % (via_text(c), ('  (the name "default" stands for %r)' % model_pat(c)) if model_pat(c) != c['pat'] else ''))
    print('message        %r  type=%d attributes=%r file=%r category=%r' % (c['msg'], c['type'], c['attrs'], c.get('file'), c.get('cat')))
    if c.get('locale'):
        print('default locale QLocale::setDefault(QLocale("%s")) while the formatter works' % c['locale'])
    if c.get('prefmt') is not None or c.get('twice'):
        print('               pre-formatted with %r, formatted twice: %s' % (c.get('prefmt'), bool(c.get('twice'))))
    if x['crashed']:
        print('implementation CRASHED/THREW: %s' % x.get('impl_raw')); return 0
    ml, _ = model_line(c, vlib.run_lines(impl, [impl_line(c)])[1][0])
    print('tokens         %s' % vlib.run_lines(model, [ml], ['tokens'])[1][0])
    print('message time   %s (format() called %d ms after the message was constructed)' % (x.get('stamp'), c.get('delay', 0)))
    print('implementation %r' % unhx(x['impl']))
    for what, key in (('same object, same message again %d ms later' % c.get('again', 0), 'again'),
                      (('directly constructed PatternFormatter(pattern)' if is_fluent(c) else 'fresh object') + ', same message, after that', 'fresh')):
        if x.get(key, x['impl']) != x['impl']:
            print('   %s: %r   <-- DIFFERS: the text is not a function of the message' % (what, unhx(x[key])))
    print('model          %r' % unhx(x['model']))
    print('documented     %r  (concatenation of literal text / padded values; %d active removing optional attribute(s))' % (unhx(x['full']), x['nrem']))
    print('in-band (old)  %r' % unhx(vlib.run_lines(model, [ml], ['inband'])[1][0]))
    print('oracle         %s' % ('holds' if x['oracle'] else 'FALSIFIED'))
    return 0
