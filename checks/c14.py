"""C14 — No input can crash, corrupt memory or hang formatting and filtering."""
import json, os, select, subprocess, tempfile, threading, time
from concurrent.futures import ThreadPoolExecutor
import vlib

META = {
    'id': 'C14',
    'level': 'proof',
    'technique': 'Coq totality proofs of checked-index/checked-int transcriptions (fuel + measure per loop, range lemmas, '
                 'resource bounds) + differential run of the extracted checked models against the real formatters '
                 '+ ASan/UBSan build of the real library over generated inputs with a per-input time budget',
    'text': 'PARTIAL. Theorems (Properties_C14.v): the checked transcription of FunctionToken::cleanup returns a result for '
            'EVERY byte string a QByteArray can hold (no at/mid/truncate/chop/remove out of range, every position and bracket '
            'counter within the int range, no loop out of fuel, result never longer than the input); parseFormatSpec, '
            'applyPadding (32-bit range checks, |result| <= max(|value|, width), and the bound is attained: finding F6), '
            'ShortFileToken, parsePattern, the token loop with the saturating pending-remove counter (|result| <= sum of '
            'max(|value|, width)) and PrettyFormatter\'s table index / width arithmetic are total as well. file / function / category '
            'may each be the NULL POINTER (rawmsg: options; null formats exactly as "", every placeholder has a value on the all-null '
            'context); an all-digit width text is accepted iff its mathematical value fits an int (no wrap-around: a width of ten or '
            'more digits is never a format spec). PrettyFormatter message SEQUENCES through one object are total for every column limit '
            'maxCategoryWidth in [INT_MIN, INT_MAX] (INT_MAX = no limit; the remembered column never leaves [0, limit]). The formatter chain of '
            'the one-line configure() (PrettyFormatter -> colour codes removed -> file) is total for every message text, an unfinished '
            'ESC [ at the end of the text is kept and the remover returns. The models are tied to '
            'the code by constants re-read from the source on every run and by comparing their outputs with the real library; '
            'what no Gallina model reaches (PCRE2/QRegularExpression, Qt allocation, QJsonDocument, C++ memory safety) is covered '
            'only by the ASan+UBSan run of the real library with a time budget - bounded search, not proof.',
    'note': 'Trusted: Coq 8.16.1 kernel (vm_compute only for the closed constant checks), no axioms; tools/s2c/safety.py (regex '
            'translation of the qualifier list, operator characters, look-behind numbers, alignment characters, typeLetters, '
            'Pretty size constants and default limit, configure()\'s chain and colour-code expression); extraction (ExtrOcamlBasic) and ocaml/drv_cleanup.ml, drv_safety.ml; harness/h_safety.cpp; '
            'g++ ASan/UBSan and, for the regular-expression filter, a PROT_NONE guard page right behind the subject text (PCRE\'s JIT-compiled matcher is not sanitizer-instrumented). Modelled, not verified: QByteArray/QString primitives (indexOf, lastIndexOf, replace, trimmed, '
            'toInt, number), UTF-8 decoding of file/category (ASCII only in the diffed inputs). Outside any model: PCRE2, '
            'QRegularExpression, QJsonDocument, QDateTime, Qt allocation, JsonFormatter/SentryFormatter/CategoryFilter/'
            'RegExpFilter internals (sanitizer + time budget only); the colour-code remover of configure() is a QRegularExpression - '
            'its model (one left-to-right pass, ill-formed UTF-16 matches nothing) is tied by comparison only. Thread leg: independent '
            'formatter objects on 2-4 threads under ASan / plain - a search, no model of concurrency.',
    'design_ref': 'DESIGN.md section 4, C14 (+ Appendix B, section 5 F6)',
    'engine': 'coq+extraction+harness',
}

WIDTH_CAP = 4096          # generated format widths and removal counts are capped (F6 / pending counter are probed apart)
BUDGET_S = 2.0            # per-input time budget (plain build)
SAN_BUDGET_S = 15.0       # per-input time budget on the ASan+UBSan build (sanitizer slow-down, loaded machine)
INT_MAX = 2147483647

# --------------------------------------------------------------------------------- encoding
def h16(units):
    return ''.join('%04x' % u for u in units) or '-'


def u16(s):
    """python str -> list of UTF-16 code units"""
    b = s.encode('utf-16-be', 'surrogatepass')
    return [(b[i] << 8) | b[i + 1] for i in range(0, len(b), 2)]


def h8(b):
    """C-string field: hex bytes, '-' = empty string, '~' = the NULL POINTER (field value None)"""
    return '~' if b is None else (bytes(b).hex() or '-')


def h16p(b):
    """the same field for the model driver (UTF-16 of the same ASCII bytes, '~' = null)"""
    return '~' if b is None else h16(list(b))


def ln(x):
    return 0 if x is None else len(x)


def un16(h):
    return [] if h in ('-', '') else [int(h[i:i + 4], 16) for i in range(0, len(h), 4)]


def show16(units):
    return ''.join(chr(u) if 32 <= u < 127 else '\\u%04x' % u for u in units)


def show8(b):
    return ''.join(chr(c) if 32 <= c < 127 else '\\x%02x' % c for c in b)


class Req:
    """one harness request; string fields are lists of code units / bytes; cat / file / func may be None = the
    NULL POINTER (QMessageLogContext{nullptr, 0, nullptr, nullptr}: release builds, QML callers, LogMessage())"""
    STR16 = ('pattern', 'msg', 'rules')
    STR8 = ('cat', 'file', 'func')

    def __init__(self, cmd, **kw):
        self.cmd = cmd
        self.f = dict(pattern=[], msg=[], rules=[], cat=[], file=[], func=[], type=0, line=1, attrs=[], flag=0, maxw=15,
                      items=[], idx=0)
        self.f.update(kw)
        self.answer_units = None     # size of a TOOBIG answer (set when reported)

    def line(self):
        f = self.f
        tail = '%d %s %s %s %s %d %d' % (f['type'], h16(f['msg']), h8(f['cat']), h8(f['file']), h8(f['func']), f['line'], len(f['attrs']))
        for k, v in f['attrs']:
            tail += ' %s %s' % (h16(k), h16(v))
        if self.cmd == 'P':
            return 'P %s %s' % (h16(f['pattern']), tail)
        if self.cmd == 'J':
            return 'J %d %s' % (f['flag'], tail)
        if self.cmd == 'S':
            return 'S ' + tail
        if self.cmd == 'C':
            return 'C %s %d %s' % (h16(f['rules']), f['type'], h8(f['cat']))
        if self.cmd == 'R':
            return 'R %d %s' % (f['idx'], h16(f['msg']))
        if self.cmd == 'Y':
            return 'Y %d %d %d ' % (f['flag'], f['maxw'], len(f['items'])) + ' '.join('%d %s %s' % (t, h8(c), h16(m)) for t, c, m in f['items'])
        if self.cmd == 'T':
            return 'T %d %d %d' % (f['flag'], f['idx'], f['line'])
        if self.cmd == 'G':
            return 'G %d ' % len(f['items']) + ' '.join('%d %s %s' % (t, h8(c), h16(m)) for t, c, m in f['items'])
        raise ValueError(self.cmd)

    def seq_model_line(self):
        """input of build/m_safety in mode pretty (Y) / configure (G): the categories as UTF-16 of the same ASCII bytes"""
        f = self.f
        head = '%d %d ' % (f['flag'], f['maxw']) if self.cmd == 'Y' else ''
        return head + '%d ' % len(f['items']) + ' '.join('%d %s %s' % (t, h16p(c), h16(m)) for t, c, m in f['items'])

    def model_line(self):
        """input of build/m_safety (pattern mode): category and file as UTF-16 (ASCII in the diffed inputs)"""
        f = self.f
        s = '%s %d %s %s %s %s %d %d' % (h16(f['pattern']), f['type'], h16(f['msg']), h16p(f['cat']), h16p(f['file']),
                                         h8(f['func']), f['line'], len(f['attrs']))
        for k, v in f['attrs']:
            s += ' %s %s' % (h16(k), h16(v))
        return s

    def size(self):
        f = self.f
        return sum(ln(f[k]) for k in ('pattern', 'msg', 'rules', 'cat', 'file', 'func')) + sum(len(k) + len(v) for k, v in f['attrs']) \
            + sum(ln(c) + len(m) for _, c, m in f['items'])

    def describe(self):
        f = self.f
        d = {'cmd': self.cmd, 'line_protocol': self.line() if self.size() <= 3000 else self.line()[:3000] + '...'}
        for k in self.STR16:
            if f[k]:
                d[k] = show16(f[k][:400])
        for k in self.STR8:
            if f[k]:
                d[k] = show8(f[k][:400])
            elif f[k] is None:
                d[k] = None
        d['null_pointers'] = [k for k in self.STR8 if f[k] is None]
        d['type'] = f['type']
        if f['attrs']:
            d['attrs'] = [[show16(k), show16(v[:100])] for k, v in f['attrs']]
        if f['items']:
            d['items'] = [[t, None if c is None else show8(c[:60]), show16(m[:60])] for t, c, m in f['items'][:8]]
        d['sizes'] = {k: len(f[k]) for k in ('pattern', 'msg', 'rules', 'cat', 'file', 'func') if f[k]}
        if self.cmd == 'Y':
            d['colorize'], d['maxCategoryWidth'] = f['flag'], f['maxw']
        if self.cmd == 'T':
            d['threads'], d['rounds_per_thread'], d['salt'] = f['flag'], f['idx'], f['line']
            d['what'] = ('%d threads, each with its own PatternFormatter("%%{func}"), each formatting %d function texts not seen before: '
                         '"virtual void t%d_<id>::Cls<int>::m<i>(const QString &, int) const"' % (f['flag'], f['idx'], f['line']))
        if self.cmd == 'G':
            d['chain'] = 'configure(&pipeline, <path>, 0, 0, None, async=false); pipeline.process(each item)'
        if self.answer_units is not None:
            d['answer_units'] = self.answer_units
        return d

    def copy(self, **kw):
        r = Req(self.cmd, **{k: (list(v) if isinstance(v, list) else v) for k, v in self.f.items()})
        r.f.update(kw)
        return r


# --------------------------------------------------------------------------------- generators
FR = [b'operator', b'operator ', b'()', b'::', b'<', b'>', b'(', b')', b'[', b']', b' ', b'*', b'&', b'lambda', b' const',
      b' volatile', b' noexcept', b' override', b' final', b'(*', b')(', b'void', b'int', b'T', b'a', b'A', b'_', b'-', b'+',
      b'=', b'==', b'[with T = int]', b'()::', b'<lambda(int)>', b'std::vector<int>', b'\xe9', b'\xff', b'1', b',', b'~',
      b'operator()', b'operator<', b'operator>>', b'operator<=>', b'x' * 8, b'\x80', b'\xaa', b'{', b'}', b'#', b'%', b'\t']
REAL = [b'void MyClass::myMethod(int, QString)', b'int main(int, char**)', b'static void A::B<T>::f() [with T = int]',
        b'bool operator==(const A&, const B&)', b'A& A::operator=(const A&)', b'void (*signal(int, void (*)(int)))(int)',
        b'auto main()::<lambda(int)>', b'std::vector<int> ns::f<std::map<int,int>>(int) const noexcept',
        b'T ns::C<T>::operator()(int) const [with T = double]', b'void C::operator<<(int)', b'A::operator bool() const',
        b'-[NSObject description]', b'void f()::{lambda()#1}::operator()() const', b'int* (&g())[3]',
        b'operator()(int)', b'xoperator()(int)', b'_operator()(int)', b'\xe9operator()(int)', b' operator()(int)',
        b'void ns::operator delete(void*)', b'auto C::f()::g()::h() const', b'bool C<A<B>>::operator>(const C&) const',
        b'expression for onClicked', b'']


def gen_sig(rng, maxfr=14):
    r = rng.random()
    if r < 0.3:
        s = bytearray(rng.choice(REAL))
        for _ in range(rng.randint(0, 3)):
            if s and rng.random() < 0.5:
                del s[rng.randrange(len(s))]
            else:
                s[rng.randrange(len(s) + 1):0] = rng.choice(FR)
        return bytes(s)
    if r < 0.36:
        return bytes(rng.randrange(1, 256) for _ in range(rng.randint(0, 24)))
    return b''.join(rng.choice(FR) for _ in range(rng.randint(0, maxfr)))


def gen_sig_long(rng, target):
    """fragment-composed signature of about `target` bytes (deep nesting, long runs)"""
    mode = rng.randrange(6)
    if mode == 0:
        unit = rng.choice([b'<', b'(', b'[', b'>', b')', b']', b' ', b'::', b'()::', b'operator', b' const', b'*'])
        s = unit * (target // len(unit))
    elif mode == 1:
        k = target // 4
        s = b'a' + b'<' * k + b'T' + b'>' * k + b'::f(' + b'(' * (k // 2) + b')' * (k // 2) + b')'
    elif mode == 2:
        s = b'void ' + b'ns::' * (target // 8) + b'operator()' + b'()::' * (target // 8) + b'<lambda()>'
    else:
        parts, n = [], 0
        while n < target:
            p = rng.choice(FR) if rng.random() < 0.8 else rng.choice(REAL)
            parts.append(p); n += len(p) or 1
        s = b''.join(parts)
    return s[:target]


# function texts of which only '*', '&' and blanks remain once the return type is cut off (or that consist of nothing
# else): the strip loop `while (startsWith('*') || startsWith('&') || startsWith(' '))` must stop at the end of the text
STRIP_RET = [b'int', b'void', b'const T', b'A<B>', b'std::vector<int>', b'unsigned long', b'auto', b'x', b'', b'T&', b'ns::C']
STRIP_FIXED = [b'int *', b'&', b'const T & ', b'void *(int)', b'**&&**', b'int &', b'T *&', b'int * ', b'a  *', b' ', b'*', b'& &',
               b'int *()', b'A<B> *', b'char **', b'  ', b' *', b'* ', b'int &(int) const', b'void *(*)(int)', b'int * [with T = int]',
               b'const T & (int)', b'int **&', b'a &', b'void * const', b'int *&()::', b'T & noexcept']


def strip_family(rng, n):
    out = list(STRIP_FIXED)
    for _ in range(n):
        marks = bytes(rng.choice(b'*& ') for _ in range(rng.randint(1, 6)))
        out.append(rng.choice(STRIP_RET) + rng.choice([b' ', b' ', b'  ', b'']) + marks +
                   rng.choice([b'', b'', b'', b'(int)', b'()', b'(int) const', b' const', b'(*)(int)', b'<T>', b'(int, char**)', b' [with T = int]']))
    return out


# format widths of 10 and more digits: none fits an int, so none is a width (QString::toInt fails, the placeholder is
# printed back as an unknown attribute); a digit-by-digit parser into an int overflows on them, and the wrapped value
# (2^32+5 -> 5, 2^32+2 -> 2, 10*2^32+8 -> 8, 9999999999 -> 1410065407, 2^32+4096 ...) would be USED as the width
BIG_WIDTHS = ['4294967301', '4294967298', '42949672968', '9999999999', '2147483648', '4294967296', '4294967295', '10000000000',
              '99999999999', '999999999999', '4294971392', '6442450949', '00000000004294967301', '18446744073709551621',
              '2147483649', '4294967297', '3000000000', '21474836470']
WIDTH_FORMS = ['<%s', '%s!', '_>%s', '>%s', '^%s', '*^%s!', '0<%s!', '<%s!']
WIDTH_TOKENS = ['message', 'type', 'func', 'file', 'shortfile', 'category', 'line', 'a', 'a?', 'function']


def width_family(rng, n):
    pats = ['%%{message:%s}' % (f % w) for w in BIG_WIDTHS for f in WIDTH_FORMS[:3]]
    for _ in range(n):
        k = rng.randint(10, 13)
        w = rng.choice(BIG_WIDTHS) if rng.random() < 0.5 else str(rng.randint(1, 9)) + ''.join(rng.choice('0123456789') for _ in range(k - 1))
        if int(w) <= INT_MAX:
            w = str(int(w) + (1 << 32))
        p = '%%{%s:%s}' % (rng.choice(WIDTH_TOKENS), rng.choice(WIDTH_FORMS) % w)
        if rng.random() < 0.3:
            p = '[' + p + '] %{message:<4}'
        pats.append(p)
    return [Req('P', pattern=u16(p), type=rng.randrange(5), msg=u16('hello'), cat=list(b'app'), file=list(b'/src/main.cpp'),
                func=list(b'int main(int, char**)'), line=7, attrs=[(u16('a'), u16('v'))]) for p in pats]


UNITS_SPECIAL = [0x25, 0x7b, 0x7d, 0x3a, 0x3f, 0x2c, 0x21, 0x3c, 0x3e, 0x5e, 0x20, 0x200b, 0x200c, 0xfeff, 0xe9, 0x4e2d,
                 0xd83d, 0xde00, 0xd800, 0xdfff, 0x0a, 0x09, 0x22, 0x5c, 0x2f, 0x30, 0x39, 0x2b, 0x2d, 0x61, 0x41, 0xa0, 0x2028]


REGEX_MENU = 14   # size of kRegexMenu in harness/h_safety.cpp (asked back with the M request)


def gen_text(rng, maxlen):
    r = rng.random()
    if r < 0.1:
        return []
    if r < 0.5:
        return u16(rng.choice(['hello', 'a', 'Hello, World!', 'x y z', 'error: failed 12345', 'Warn Deprecated', 'name=v;',
                               'caf\u00e9 \u4e2d\u6587 \U0001f600', 'a\u200bb\u200b', '%{message}', '{}:%?', ' lead', 'trail ']))
    n = rng.randint(1, maxlen)
    return [rng.choice(UNITS_SPECIAL) if rng.random() < 0.35 else rng.randint(0x20, 0x7e) for _ in range(n)]


NAMES_DIFF = ['type', 'line', 'file', 'shortfile', 'function', 'func', 'category', 'message', 'a', 'b', 'user',
              'shortfile /src', 'shortfile src/', 'shortfile  C:\\dev ', 'shortfile', ' message', 'message ', 'Type', 'x:y', '']
NAMES_EXT = ['time', 'time process', 'time boot', 'time hh:mm:ss.zzz', 'time yyyy-MM-ddTHH:mm:ss', 'threadid', 'qthreadptr',
             'time ' + 'y' * 40]
SPEC_BAD = [':', ':!', ':<', ':<!', ':<0', ':<-3', ':< 5', ':<+5', ':<5 ', ':<99999999999', ':<5x', ':x', ':5', ':5!', ':0!', ':-5!',
            ':^', ':*^', ':*^!', ':<<', ':<<5', ':!<5', ':<5!!', ':\u00e9>4', ':<\u0665', ':<5:', '::<5', ':<4096', ':<0x10', ':<1e2']


def gen_num(rng):
    r = rng.random()
    if r < 0.6:
        return str(rng.randint(0, 6))
    if r < 0.8:
        return str(rng.randint(7, 300))
    if r < 0.9:
        return str(rng.choice([WIDTH_CAP, WIDTH_CAP - 1, 1000]))
    if r < 0.94:
        # removal counts near INT_MAX (the saturating pending-remove counter); never used for widths
        return rng.choice(['2147483647', '2147483646', '2147483648', '1073741824', '99999999999'])
    return rng.choice(['', '-1', '-4096', '+3', ' 2', '2 ', 'x', '00004', '\u0663'])


def gen_spec(rng):
    r = rng.random()
    if r < 0.25:
        return ''
    if r < 0.4:
        return rng.choice(SPEC_BAD)
    w = rng.choice([1, 2, 3, 4, 5, 8, 10, 16, 20, 40]) if rng.random() < 0.85 else rng.choice([100, 1000, WIDTH_CAP])
    fill = rng.choice(['', '', '*', '0', ' ', '<', '>', '^', '%', '}', ':', '\u00e9', '\u200b', '!'])
    if fill == '}':
        fill = '.'
    return ':' + fill + rng.choice('<>^') + str(w) + rng.choice(['', '', '!'])


def gen_pattern(rng, diffable, maxpieces=8):
    pieces, hist = [], {}
    for _ in range(rng.randint(0, maxpieces)):
        r = rng.random()
        if r < 0.3:
            k = 'literal'
            pieces.append(''.join(rng.choice('abc xyz[]<>-_.:,;|') for _ in range(rng.randint(1, 6))))
        elif r < 0.38:
            k = 'percent'
            pieces.append(rng.choice(['%%', '%', '%x', '%}', '%%{', '%{', '%{message', '{', '}', '%{}', '%{:}', '%{:<5}']))
        elif r < 0.48:
            k = 'cond'
            pieces.append('%{' + rng.choice(['if-debug', 'if-info', 'if-warning', 'if-critical', 'if-fatal', 'if-', 'if-x', 'endif',
                                             'if-debug:<5', 'endif:x']) + '}')
        elif r < 0.66:
            k = 'optattr'
            name = rng.choice(['a', 'b', 'user', 'missing', 'nope', ''])
            suf = rng.choice(['?', '?' + gen_num(rng), '?' + gen_num(rng) + ',' + gen_num(rng), '?,' + gen_num(rng), '?1,1', '?2', '?,3',
                              '?1,2,3', '??', '?,'])
            pieces.append('%{' + name + suf + gen_spec(rng) + '}')
        else:
            k = 'token'
            names = NAMES_DIFF if diffable or rng.random() < 0.6 else NAMES_EXT
            pieces.append('%{' + rng.choice(names) + gen_spec(rng) + '}')
        hist[k] = hist.get(k, 0) + 1
    if rng.random() < 0.08:
        pieces.append(rng.choice(['%', '%{', '%{func', '%{a?']))
    return ''.join(pieces), hist


ASCII_PATHS = [b'', b'main.cpp', b'/src/app/main.cpp', b'src/main.cpp', b'C:\\dev\\app\\main.cpp', b'/src', b'/src/', b'a/b\\c', b'\\',
               b'/', b'//', b'x' * 50, b'qrc:/qml/Main.qml', b' C:\\dev x']
ASCII_CATS = [b'default', b'', b'app', b'app.network', b'qt.qml', b'a' * 30, b'x.y.z', b'Default', b'default ']


def gen_attrs(rng, maxlen):
    at = []
    for n in ('a', 'b', 'user'):
        if rng.random() < 0.45:
            at.append((u16(n), gen_text(rng, maxlen)))
    return at


P_NULL = 0.07    # probability of the null pointer for each of file / function / category in the random families


def or_null(rng, v, p=P_NULL):
    """a C-string value or - first-class - the NULL POINTER"""
    return None if rng.random() < p else list(v)


def gen_pattern_req(rng, diffable, maxlen=40):
    pat, hist = gen_pattern(rng, diffable)
    if diffable:
        cat, fil = rng.choice(ASCII_CATS), rng.choice(ASCII_PATHS)
    else:
        cat = bytes(rng.randrange(1, 256) for _ in range(rng.randint(0, 20))) if rng.random() < 0.5 else rng.choice(ASCII_CATS)
        fil = bytes(rng.randrange(1, 256) for _ in range(rng.randint(0, 40))) if rng.random() < 0.5 else rng.choice(ASCII_PATHS)
    r = Req('P', pattern=u16(pat), type=rng.randrange(5), msg=gen_text(rng, maxlen), cat=or_null(rng, cat), file=or_null(rng, fil),
            func=or_null(rng, gen_sig(rng, 8)), line=rng.choice([0, 1, 42, 99999, INT_MAX, -1, -INT_MAX - 1]), attrs=gen_attrs(rng, maxlen))
    return r, hist


SWEEP_SPECS = ['', '', ':<8', ':*^9!', ':3!', ':>2', ':_>12', ':^1!']


def null_sweep(rng, names):
    """every placeholder x every combination of null file / function / category pointers (at least one null)"""
    out = []
    for name in names:
        for combo in range(1, 8):
            p = '%{' + name + rng.choice(SWEEP_SPECS) + '}'
            if rng.random() < 0.25:
                p = rng.choice(['[', '%{type} ', '%{a?1}']) + p + rng.choice([']', ' %{message}', '%{b?,2}x'])
            out.append(Req('P', pattern=u16(p), type=rng.randrange(5), msg=u16('hello'),
                           file=None if combo & 1 else list(rng.choice(ASCII_PATHS)),
                           func=None if combo & 2 else list(rng.choice(REAL)),
                           cat=None if combo & 4 else list(rng.choice(ASCII_CATS)),
                           line=rng.choice([0, 0, 42]), attrs=gen_attrs(rng, 10)))
    return out


def null_sweep_other(rng):
    """the other formatters and the category filter on null pointers"""
    out = []
    for combo in range(1, 8):
        kw = dict(type=rng.randrange(5), msg=u16('hello'), file=None if combo & 1 else list(b'/src/main.cpp'),
                  func=None if combo & 2 else list(b'int main()'), cat=None if combo & 4 else list(b'app'), line=0, attrs=gen_attrs(rng, 10))
        out += [Req('J', flag=0, **kw), Req('J', flag=1, **kw), Req('S', **kw)]
    for rules in ['', '*=false', 'app.*=false;*=true', '*.debug=false', '=true', 'default=false', '**=false']:
        out.append(Req('C', rules=u16(rules), type=rng.randrange(5), cat=None))
    for colorize in (0, 1):
        for maxw in (0, 15, 2):
            items = [(rng.randrange(5), None, u16('a')), (rng.randrange(5), list(b'app.network'), u16('b')), (rng.randrange(5), None, []),
                     (rng.randrange(5), list(b'default'), u16('c'))]
            rng.shuffle(items)
            out.append(Req('Y', flag=colorize, maxw=maxw, items=items))
    return out


# PrettyFormatter(colorize, maxCategoryWidth): the column limit is an int the caller chooses; INT_MAX is the natural
# "no limit", 0 / negative switch the alignment off.  Every boundary of the int range x category sequences that GROW
# the column (each longer field recomputes qMin(field, limit) and the padding of the following shorter ones)
LIMITS = [INT_MAX, INT_MAX - 1, INT_MAX - 2, INT_MAX - 3, 0, 1, -1, -INT_MAX - 1, -INT_MAX, 2, 3, 4, 5, 1 << 30, (1 << 30) - 1,
          INT_MAX - 4, INT_MAX // 2, 65535, 65536, 16]
GROW_CATS = [b'a', b'ui', b'app', b'qt.qml', b'app.network', b'app.network.http', b'c' * 40, b'c' * 200]


def grow_items(rng, n_extra=2):
    """a message sequence whose category fields grow (with shorter / default / null ones in between)"""
    k = rng.randint(2, len(GROW_CATS))
    cats = sorted(rng.sample(GROW_CATS, k), key=len)
    items = []
    for c in cats:
        items.append((rng.randrange(5), list(c), u16(rng.choice(['x', 'hello', '', 'a b']))))
        if rng.random() < 0.5:
            items.append((rng.randrange(5), rng.choice([list(b'ui'), list(b'default'), None, list(b'a')]), u16('y')))
    for _ in range(n_extra):
        items.append((rng.randrange(5), rng.choice([list(b'ui'), list(b'default'), None, list(rng.choice(GROW_CATS))]), gen_text(rng, 12)))
    return items


def limit_family(rng, thorough):
    out = []
    for maxw in LIMITS:
        for colorize in (0, 1):
            # the smallest trigger first: one message with a non-default category, then one more
            out.append(Req('Y', flag=colorize, maxw=maxw, items=[(rng.randrange(5), list(b'app.network'), u16('x')), (rng.randrange(5), list(b'ui'), u16('y'))]))
            for _ in range(4 if thorough else 1):
                out.append(Req('Y', flag=colorize, maxw=maxw, items=grow_items(rng)))
    return out


# message texts for the formatter chain of configure(pipeline, path, ...): the FunctionFormatter behind PrettyFormatter
# removes the colour codes again, so the MESSAGE TEXT meets a scanner for ESC [ ... m: complete codes, cut-off codes
# (ESC [ with no final byte behind it - debug messages get no trailing reset code), nested and adjacent fragments
ESC_FR = ['\033[', '\033[1;3', '\033[m', '\033[0m', '\033[1;32m', '\033', '[', 'm', ';', '0', '31', '\033[\033[0m0m', '\033[[', '\033[;m',
          '\033[2J', '\033[38;5;208', '\033\033[', '\033[1m\033[', 'text', ' ', 'x', '\033]0;t\007', '\033[?25l', '\u009b1m', '\033[\u0661m', '\n']
ESC_FIXED = ['\033[', '\033[1;3', '\033[m', 'a\033[', 'a\033[1;3', '\033[\033[0m0m', '\033[\033[', '\033[1;31mred\033[0m', 'x\033', '\033[2J',
             'done \033[1;32mok\033[0m then \033[', '\033[;;;', '\033[0', 'm\033[', '\033[\033[\033[m', '\033[1;3x\033[m', '', 'plain text']


def gen_esc_text(rng, maxfr=8):
    return u16(''.join(rng.choice(ESC_FR) for _ in range(rng.randint(1, maxfr))))


def configure_family(rng, n):
    """requests for the configure() chain: every fixed fragment text x every message type (one message each, and as the
    last / first message of a short sequence), then random fragment compositions and the arbitrary-unit message family"""
    out = []
    for txt in ESC_FIXED:
        for t in range(5):
            out.append(Req('G', items=[(t, list(rng.choice([b'default', b'app', b'app.network'])), u16(txt))]))
    for _ in range(n):
        items = []
        for _ in range(rng.randint(1, 4)):
            r = rng.random()
            msg = gen_esc_text(rng) if r < 0.7 else gen_text(rng, 40)
            if r > 0.9:
                msg = msg + u16(rng.choice(['\033[', '\033[1;3', '\033']))
            items.append((rng.randrange(5), or_null(rng, rng.choice(ASCII_CATS + [b'c' * rng.randint(1, 40)]), 0.1), msg))
        out.append(Req('G', items=items))
    return out


RULE_FR = ['*', '.', '=', 'true', 'false', ';', '\n', ' ', 'app', 'qt', '.debug', '.info', '.warning', '.critical', '.fatal', '*.*',
           'a.b.c', '\\', '[', ']', '(', ')', '+', '?', '^', '$', '{1,2}', '|', '\u00e9', '\t', '=true', '=false', 'x' * 20, '\\E', '\\Q']


def gen_rules(rng):
    r = rng.random()
    if r < 0.3:
        return ';'.join(rng.choice(['*', 'app.*', '*.network', 'qt.*', 'a*b', 'app', '*.debug', 'app.debug', 'app.*.info'])
                        + rng.choice(['=true', '=false', ' = true ', '=maybe', '', '==true']) for _ in range(rng.randint(0, 5)))
    s = ''.join(rng.choice(RULE_FR) for _ in range(rng.randint(0, 30)))
    return s[:256]


def star_family(rng, thorough):
    """adversarial (rules, category) pairs for the category matcher: many '*' in one rule and categories that match,
    nearly match (the required last character comes first) or miss - both <= 256 bytes.  A matcher that backtracks
    exponentially does not come back within the time budget on the near misses."""
    out = []
    ns = (20, 50, 100, 200, 255)
    for k in (8, 16, 24, 40):
        for n in ns:
            for cat in (b'a' * n + b'b', b'b' + b'a' * n, b'a' * n):
                out.append(('*a' * k + '*b=false', cat[:256]))
    for k in (8, 16, 24, 40):
        n = rng.choice(ns)
        out.append(('*' * k + 'b=false', (b'a' * n)[:256]))
        out.append(('a*' * k + 'b=false', (b'a' * n + b'c')[:256]))
        out.append(('*.a' * k + '.debug=false', (b'.a' * (n // 2) + b'.x')[:256]))
        out.append(('x=true;' + '*a' * k + '*b = false ;*=true', (b'b' + b'a' * n)[:256]))
        out.append(('*ab' * k + '*c=false', (b'ab' * (n // 2) + b'd')[:256]))
    if not thorough:
        rng.shuffle(out)
        keep = [o for o in out if o[1][:1] == b'b' and len(o[1]) > 200][:12]      # the worst near misses always
        out = keep + [o for o in out if o not in keep][:40]
    return [Req('C', rules=u16(r), type=rng.randrange(5), cat=list(c)) for r, c in out]


# --------------------------------------------------------------------------------- guarded execution
# damage control, whatever the library does with an input: the sanitized process refuses a single allocation above 1 GiB
# (ASan reports it) and is aborted above 6 GiB resident; the plain process gets a 3 GiB address space (a larger
# request ends in std::bad_alloc -> 'crash').  The unchanged library allocates a few MiB on the generated inputs.
SAN_ENV = {'ASAN_OPTIONS': 'detect_leaks=0:abort_on_error=0:print_summary=1:max_allocation_size_mb=1024:hard_rss_limit_mb=6144',
           'UBSAN_OPTIONS': 'print_stacktrace=0:halt_on_error=1'}
PLAIN_WRAP = ['bash', '-c', 'ulimit -v 3145728; exec "$0"']
MAX_SLOW = 4              # over-budget answers after which one harness run is abandoned (the rest is 'skipped')


def run_guarded(exe, lines, budget=BUDGET_S, env=None, wrap=None, margin=3.0):
    """Feed request lines to a harness process, restarting after every crash / hang.
    Returns a list of (status, out, usec, report): status in ok|crash|timeout|skipped.
    No request can hold the check longer than budget + margin: the deadline is per request and also covers an
    answer that trickles in; an answer above 64 MiB is a 'timeout' (the harness itself caps answers at 8 Mi units);
    after 3 hangs, 60 crashes or MAX_SLOW over-budget answers the rest of the list is 'skipped' (the caller
    reports the culprits it has)."""
    res = [None] * len(lines)
    start = 0
    restarts = 0
    hangs = 0
    slow = 0
    if wrap is None and not env:
        wrap = PLAIN_WRAP
    while start < len(lines) and restarts < 60 and hangs < 3 and slow < MAX_SLOW:
        chunk = lines[start:]
        data = ('\n'.join(chunk) + '\n').encode()
        errf = tempfile.TemporaryFile()
        e = dict(os.environ)
        e.update(env or {})
        cmd = wrap + [exe] if wrap else [exe]
        p = subprocess.Popen(cmd, stdin=subprocess.PIPE, stdout=subprocess.PIPE, stderr=errf, env=e)

        def feed():
            try:
                p.stdin.write(data); p.stdin.close()
            except Exception:
                pass
        th = threading.Thread(target=feed, daemon=True)
        th.start()
        fd = p.stdout.fileno()
        buf = b''
        got = 0
        status = 'ok'
        t_line = time.time()            # when the previous answer was complete
        while got < len(chunk):
            # the budget is per request: an answer that trickles in (a multi-gigabyte padded line through a
            # 64 KiB pipe) must not keep the check alive - no data, too slow and too big are all 'timeout'
            left = budget + margin - (time.time() - t_line)
            r = select.select([fd], [], [], left)[0] if left > 0 else []
            if not r or len(buf) > (64 << 20):
                status = 'timeout'
                break
            b = os.read(fd, 1 << 22)
            if not b:
                status = 'crash'
                break
            buf += b
            if b'\n' in b:
                t_line = time.time()
            while b'\n' in buf:
                ln, buf = buf.split(b'\n', 1)
                t = ln.decode('ascii', 'replace').split(' ', 1)
                try:
                    us = int(t[0])
                except ValueError:
                    us = -1
                res[start + got] = ('ok', t[1] if len(t) > 1 else '', us, '')
                got += 1
                slow += us > budget * 1e6
            if slow >= MAX_SLOW:
                break
        try:
            p.kill()
        except Exception:
            pass
        p.wait()
        th.join(timeout=1)
        if status == 'ok' or got >= len(chunk) or slow >= MAX_SLOW:
            errf.close()
            break
        errf.seek(0)
        rep = errf.read().decode('utf-8', 'replace')
        errf.close()
        res[start + got] = (status, None, None, rep[-3000:] if status == 'crash' else 'no answer within %.1f s' % (budget + margin))
        start = start + got + 1
        restarts += 1
        hangs += status == 'timeout'
    for i in range(len(res)):
        if res[i] is None:
            res[i] = ('skipped', None, None, 'not run (too many crashes / hangs before it)')
    return res


def run_parallel(exe, lines, nproc, env=None, budget=BUDGET_S):
    if not lines:
        return []
    nproc = max(1, min(nproc, len(lines)))
    # interleave so that every worker gets a similar mix of sizes
    idx = [list(range(k, len(lines), nproc)) for k in range(nproc)]
    with ThreadPoolExecutor(nproc) as ex:
        outs = list(ex.map(lambda ix: run_guarded(exe, [lines[i] for i in ix], env=env, budget=budget), idx))
    res = [None] * len(lines)
    for ix, o in zip(idx, outs):
        for i, r in zip(ix, o):
            res[i] = r
    return res


def first_report_line(rep):
    for l in (rep or '').splitlines():
        if 'runtime error' in l or 'ERROR: AddressSanitizer' in l or 'ASSERT' in l or 'terminate called' in l or 'what():' in l or 'SUMMARY: AddressSanitizer' in l:
            return l.strip()[:300]
    ls = [l for l in (rep or '').splitlines() if l.strip()]
    return (ls[0].strip()[:300] if ls else '')


def bad_on(exe, req, env=None, budget=None, margin=3.0):
    """does this single request crash / hang / exceed the budget on exe?  returns (kind, report) or None"""
    if budget is None:
        budget = SAN_BUDGET_S if env else BUDGET_S
    st, out, us, rep = run_guarded(exe, [req.line()], env=env, budget=budget, margin=margin)[0]
    if st == 'crash':
        return ('crash', rep)
    if st == 'timeout':
        return ('timeout', rep)
    if us is not None and us > budget * 1e6:
        return ('slow', '%d us' % us)
    return None


def in_scope(req):
    """generated widths are capped (finding F6: a VALID width near INT_MAX is a request for gigabytes, probed apart); a
    shrinking step must not slide from the defect at hand into that one: no placeholder of a candidate may carry a width
    text whose value fits an int and exceeds WIDTH_CAP"""
    import re
    pt = ''.join(chr(u) if u < 128 else '?' for u in req.f['pattern'])
    for ph in re.findall(r'%\{([^}]*)\}', pt):
        if ':' not in ph:
            continue
        m = re.search(r'([0-9]+)!?$', ph.rsplit(':', 1)[1])
        if m and WIDTH_CAP < int(m.group(1)) <= INT_MAX:
            return False
    return True


def shrink_req(req, still_bad0, budget_steps=120, wall_s=25.0):
    """greedy shrinking of the string fields of a request, largest first, within a wall-clock allowance"""
    deadline = time.time() + wall_s

    def still_bad(c):
        return time.time() < deadline and in_scope(c) and still_bad0(c)
    cur = req
    fields = sorted([k for k in Req.STR16 + Req.STR8 if cur.f[k]], key=lambda k: -len(cur.f[k]))
    for k in fields:
        def fails(cand, k=k):
            return still_bad(cur.copy(**{k: cand}))
        small = vlib.shrink_list(cur.f[k], fails, max_steps=budget_steps)
        cur = cur.copy(**{k: small})
    if cur.f['attrs']:
        at = vlib.shrink_list(cur.f['attrs'], lambda c: still_bad(cur.copy(attrs=c)), max_steps=20)
        cur = cur.copy(attrs=at)
    if cur.f['items']:
        it = vlib.shrink_list(cur.f['items'], lambda c: still_bad(cur.copy(items=c)), max_steps=30)
        cur = cur.copy(items=it)
        # ... and the texts inside the items that are left (message first, then category)
        for i in range(len(cur.f['items'])):
            for pos in (2, 1):
                v = cur.f['items'][i][pos]
                if not v:
                    continue

                def with_v(c, i=i, pos=pos):
                    its = [tuple(x) for x in cur.f['items']]
                    its[i] = tuple(c if j == pos else its[i][j] for j in range(3))
                    return cur.copy(items=its)
                small = vlib.shrink_list(list(v), lambda c: still_bad(with_v(c)), max_steps=budget_steps)
                cur = with_v(small)
    return cur


# --------------------------------------------------------------------------------- the check
def toobig(out):
    """size (code units) of an answer the harness refused to hex-encode, or None"""
    return int(out[7:]) if out and out.startswith('TOOBIG:') else None


def answer_bound(rq):
    """a sound upper bound (code units) of the answer to a request when no model value is at hand.  PatternFormatter:
    every placeholder needs >= 4 pattern units and yields at most max(largest int-valued number in the pattern, longest
    value) units, literals at most the pattern; JSON / Sentry: escaped copies of the fields plus fixed keys;
    Pretty: fields + padding up to maxCategoryWidth + colour codes."""
    import re
    f = rq.f
    longest = max([len(f['msg']), ln(f['file']), ln(f['func']), ln(f['cat']), 24] + [len(v) for _, v in f['attrs']])
    if rq.cmd == 'P':
        nums = [int(x) for x in re.findall(r'[0-9]+', ''.join(chr(u) if u < 128 else ' ' for u in f['pattern']))]
        w = max([0] + [x for x in nums if x <= INT_MAX])
        return len(f['pattern']) + (len(f['pattern']) // 4 + 1) * max(w, longest)
    # padding per message: at most min(limit, longest "[name] " field)
    pad = min(max(f['maxw'], 0), max([ln(c) for _, c, _ in f['items']] + [0]) + 3)
    return 12 * rq.size() + 4096 + pad * (len(f['items']) + 1)


def has_sub(units, sub):
    n = len(sub)
    return any(units[i:i + n] == sub for i in range(len(units) - n + 1))


def unfinished(units):
    """the text ends in ESC [ <digits ;>* with no final byte: an unfinished colour code"""
    i = len(units)
    while i > 0 and (48 <= units[i - 1] <= 57 or units[i - 1] == 59):
        i -= 1
    return i >= 2 and units[i - 2:i] == [27, 91]


def total_width(pattern):
    import re
    return sum(int(w) for w in re.findall(r':.?[<>^](\d+)!?\}', pattern))


def run():
    chk = vlib.Check('C14')
    rng = chk.rng
    thorough = chk.tier == 'thorough'
    chk.trusted = ['Coq 8.16.1 kernel; vm_compute only on closed constant checks (cfg_okb src_cfg, table sweeps); no native_compute',
                   'axioms: none (every Print Assumptions: Closed under the global context)',
                   'tools/s2c/safety.py translator (patternformatter.cpp, prettyformatter.cpp -> SrcSafety.v)',
                   'extraction ExtrOcamlBasic, no Extract Constant; ocaml/drv_cleanup.ml, ocaml/drv_safety.ml',
                   'harness/h_safety.cpp; g++ 12 AddressSanitizer + UndefinedBehaviorSanitizer (-fno-sanitize-recover=all)',
                   'NOT modelled (sanitizer + time budget only): PCRE2/QRegularExpression, QJsonDocument, QDateTime, Qt allocation']
    chk.assumptions = ['C strings (function, file, category) end at the first NUL: generated bytes are 1..255; each of the three may also be the '
                       'NULL POINTER (first-class value in every family)',
                       'every harness process is resource-limited (plain: 3 GiB address space; sanitized: 1 GiB per allocation, 6 GiB RSS); '
                       'answers above 8 Mi code units are reported by size, not content',
                       'generated format widths and removal counts are capped at %d (uncapped cases are probed separately: F6, pending counter)' % WIDTH_CAP,
                       'model comparison for inputs <= 4 KiB; longer inputs (<= 64 KiB) are run on the sanitized implementation only',
                       'file and category are ASCII in the diffed inputs (UTF-8 decoding is Qt code)',
                       'per-input time budget %.1f s on the plain build, %.1f s on the ASan+UBSan build' % (BUDGET_S, SAN_BUDGET_S)]
    chk.proof(vlib.proof_leg('Properties_C14', ['safety']))
    m_cleanup = vlib.build_model('cleanup')
    m_safety = vlib.build_model('safety')
    impl = vlib.build_harness('safety')
    san = vlib.build_harness('safety', 'san')
    pat_func = u16('%{func}')
    nproc = 8
    findings = []   # (req, exe, kind, report) candidates for shrinking
    skipped = 0     # requests not run because the process had crashed / hung too often before them

    # ---- leg A: %{func} vs the checked cleanup model, inputs <= 4 KiB --------------------------
    n_short = 30000 if thorough else 4000
    sigs = [bytes(x for x in s if x) for s in (gen_sig(rng) for _ in range(n_short))]
    sigs += [bytes(x for x in gen_sig(rng, 120) if x) for _ in range(400 if thorough else 60)]
    sigs += [gen_sig_long(rng, rng.choice([256, 700, 1500, 4096])) for _ in range(60 if thorough else 10)]
    strip_sigs = strip_family(rng, 1500 if thorough else 150)
    sigs += strip_sigs
    corpus = os.path.join(vlib.VERIF, 'corpus', 'C14', 'signatures.txt')
    if os.path.exists(corpus):
        sigs = [bytes.fromhex(l.strip()) for l in open(corpus) if l.strip() and not l.startswith('#')] + sigs
    sigs.append(None)      # the NULL POINTER as function (cleanup_ptr None in the model); kept last
    reqs_a = [Req('P', pattern=pat_func, func=None if s is None else list(s)) for s in sigs]
    res_a = run_parallel(impl, [r.line() for r in reqs_a], nproc)
    rc, mod_a, err = vlib.run_lines(m_cleanup, [h8(s) for s in sigs], timeout=900)
    if len(mod_a) != len(sigs):
        chk.broke('cleanup model driver failed', {'kind': 'model_driver', 'rc': rc, 'stderr': err[-400:]})
        mod_a += ['?'] * (len(sigs) - len(mod_a))
    dis_a, fault_a, max_us = [], [], 0
    for s, r, m, rq in zip(sigs, res_a, mod_a, reqs_a):
        if r[0] != 'ok':
            skipped += r[0] == 'skipped'
            if r[0] != 'skipped':
                findings.append((rq, impl, r[0], r[3]))
            continue
        max_us = max(max_us, r[2])
        if toobig(r[1]) is not None:
            rq.answer_units = toobig(r[1])
            findings.append((rq, impl, 'length', '%%{func} answer of %d code units for a %d-byte function text' % (rq.answer_units, ln(s))))
        elif m == 'FAULT':
            fault_a.append(rq)
        elif m.startswith('ok'):
            exp = h16(list(bytes.fromhex(m[3:])))
            if exp != r[1]:
                dis_a.append((rq, r[1], exp))
            elif len(un16(r[1])) > ln(s):
                findings.append((rq, impl, 'length', 'output longer than input'))
    # ---- leg B: patterns vs the checked pattern model -------------------------------------------
    n_pat = 20000 if thorough else 3000
    reqs_b, hist_b = [], {}
    for _ in range(n_pat):
        r, h = gen_pattern_req(rng, True, 40 if rng.random() < 0.97 else 1500)
        reqs_b.append(r)
        for k, v in h.items():
            hist_b[k] = hist_b.get(k, 0) + v
    # every placeholder x null file / function / category pointers; widths of 10+ digits (never a width: the model's
    # to_int rejects them - C14_width_text_value - and so must the code)
    reqs_null = null_sweep(rng, NAMES_DIFF) + (null_sweep(rng, NAMES_DIFF) if thorough else [])
    reqs_width = width_family(rng, 400 if thorough else 60)
    reqs_b += reqs_null + reqs_width
    res_b = run_parallel(impl, [r.line() for r in reqs_b], nproc)
    rc, mod_b, err = vlib.run_lines(m_safety, [r.model_line() for r in reqs_b], timeout=900)
    if len(mod_b) != len(reqs_b):
        chk.broke('safety model driver failed', {'kind': 'model_driver', 'rc': rc, 'stderr': err[-400:]})
        mod_b += ['?'] * (len(reqs_b) - len(mod_b))
    dis_b, fault_b, nontrivial_b, spec_hits = [], [], 0, 0
    for rq, r, m in zip(reqs_b, res_b, mod_b):
        if r[0] != 'ok':
            skipped += r[0] == 'skipped'
            if r[0] != 'skipped':
                findings.append((rq, impl, r[0], r[3]))
            continue
        max_us = max(max_us, r[2])
        if m.startswith('FAULT') or m == '?':
            fault_b.append((rq, m))
        else:
            _, exp, bound = m.split()
            if toobig(r[1]) is not None:
                if toobig(r[1]) > int(bound):
                    rq.answer_units = toobig(r[1])
                    findings.append((rq, impl, 'length', 'answer of %d code units, longer than the resource bound %s of the checked model' % (rq.answer_units, bound)))
            elif exp != r[1]:
                dis_b.append((rq, r[1], exp))
            else:
                if len(un16(r[1])) > int(bound):
                    findings.append((rq, impl, 'length', 'output longer than the resource bound %s' % bound))
                if r[1] != h16(rq.f['msg']):
                    nontrivial_b += 1
    # ---- leg C: PrettyFormatter table index / width arithmetic ---------------------------------
    reqs_c = []
    for _ in range(3000 if thorough else 400):
        items = [(rng.randrange(5), or_null(rng, rng.choice(ASCII_CATS + [b'c' * rng.randint(1, 40)]), 0.1), gen_text(rng, 30)) for _ in range(rng.randint(1, 6))]
        reqs_c.append(Req('Y', flag=rng.randrange(2), maxw=rng.choice([0, 15, 15, 1, 5, 100, -3, 2000]), items=items))
    sweep_other = null_sweep_other(rng)
    reqs_c += [r for r in sweep_other if r.cmd == 'Y']
    # the column limit over the whole int range (INT_MAX = "no limit", INT_MAX-1..-3, 0, +-1, INT_MIN, powers of two) x
    # category sequences that grow the column; also part of the random mix from here on
    reqs_limit = limit_family(rng, thorough)
    reqs_c += reqs_limit
    for _ in range(600 if thorough else 80):
        reqs_c.append(Req('Y', flag=rng.randrange(2), maxw=rng.choice(LIMITS), items=grow_items(rng, rng.randint(0, 3))))

    def seq_leg(reqs, mode, label):
        """a message sequence through one formatter object / one configure() chain: real vs checked model"""
        nonlocal skipped
        res = run_parallel(impl, [r.line() for r in reqs], nproc)
        rc, mod, err = vlib.run_lines(m_safety, [r.seq_model_line() for r in reqs], [mode], timeout=600)
        mod += ['?'] * (len(reqs) - len(mod))
        dis, fault, us_max = [], [], 0
        for rq, r, m in zip(reqs, res, mod):
            if r[0] != 'ok':
                skipped += r[0] == 'skipped'
                if r[0] != 'skipped':
                    findings.append((rq, impl, r[0], r[3]))
                continue
            us_max = max(us_max, r[2])
            if r[2] > BUDGET_S * 1e6:
                findings.append((rq, impl, 'slow', '%d us' % r[2]))
                continue
            if not m.startswith('ok'):
                fault.append((rq, m)); continue
            toks = r[1].split()
            outs = []
            if any(toobig(t) is not None for t in toks):
                rq.answer_units = max(toobig(t) or 0 for t in toks)
                findings.append((rq, impl, 'length', '%s answer of %d code units' % (label, rq.answer_units)))
                continue
            for i in range(0, len(toks), 2):
                tm, o = un16(toks[i]), un16(toks[i + 1])
                outs.append(h16(o[len(tm) + 1:]) if o[:len(tm)] == tm else 'BAD-TIME-PREFIX')
            if outs != m.split()[1:]:
                dis.append((rq, ' '.join(outs), ' '.join(m.split()[1:])))
        return res, dis, fault, us_max
    res_c, dis_c, fault_c, us_c = seq_leg(reqs_c, 'pretty', 'PrettyFormatter')
    max_us = max(max_us, us_c)
    # ---- leg G: the formatter chain configure(pipeline, path, ...) builds, message texts with ESC fragments ------
    reqs_g = configure_family(rng, 3000 if thorough else 400)
    res_g, dis_g, fault_g, us_g = seq_leg(reqs_g, 'configure', 'configure() chain')
    max_us = max(max_us, us_g)
    # ---- leg T: independent formatter objects on several threads, function texts nobody has formatted yet ----------
    # (no object is shared: whatever goes wrong here is hidden state shared between formatter objects).  The closed
    # form of the expected text is tied to the checked cleanup model on a sample.
    reqs_t = [Req('T', flag=rng.choice([2, 4]), idx=3000, line=rng.randrange(1000)) for _ in range(6 if thorough else 2)]
    t_sample = [(b'virtual void t%d_%d::Cls<int>::m%d(const QString &, int) const' % (q.f['line'], i, j), b't%d_%d::Cls::m%d' % (q.f['line'], i, j))
                for q in reqs_t for i in range(q.f['flag']) for j in (0, 7, 2999)]
    rc, mod_t, err = vlib.run_lines(m_cleanup, [h8(x) for x, _ in t_sample], timeout=300)
    if mod_t != ['ok ' + w.hex() for _, w in t_sample]:
        chk.broke('leg T: the closed form of the expected %{func} text is not what the checked cleanup model computes',
                  {'kind': 'model_driver', 'sample': show8(t_sample[0][0]), 'model': mod_t[:1]})
    res_t = run_parallel(impl, [r.line() for r in reqs_t], 2) + run_parallel(san, [r.line() for r in reqs_t], 2, env=SAN_ENV, budget=SAN_BUDGET_S)
    t_wrong = 0
    for rq, r, exe in zip(reqs_t + reqs_t, res_t, [impl] * len(reqs_t) + [san] * len(reqs_t)):
        if r[0] in ('crash', 'timeout'):
            findings.append((rq, exe, r[0], r[3]))
        elif r[0] == 'ok' and r[1].strip() != '0':
            t_wrong += 1
            findings.append((rq, exe, 'wrong-text', '%s of the %d outputs are not the clean function name' % (r[1], rq.f['flag'] * rq.f['idx'])))
        elif r[0] == 'ok' and r[2] > (SAN_BUDGET_S if exe == san else BUDGET_S) * 1e6:
            findings.append((rq, exe, 'slow', '%d us' % r[2]))
        elif r[0] == 'skipped':
            skipped += 1
    # ---- leg D: ASan+UBSan over everything, sizes up to 64 KiB, time budget -------------------
    reqs_d = []
    big = [1 << 10, 1 << 12, 1 << 14, 1 << 16]
    nd = 6000 if thorough else 900
    kinds_d = {}
    for i in range(nd):
        k = rng.choice('PPPPFFFJSCCRYG')
        kinds_d[k] = kinds_d.get(k, 0) + 1
        if k == 'F':
            reqs_d.append(Req('P', pattern=u16(rng.choice(['%{func}', '%{function}', '%{func:<20!}', '[%{func}] %{message}'])),
                              func=or_null(rng, [x for x in gen_sig(rng, 40) if x], 0.03), msg=gen_text(rng, 20)))
        elif k == 'P':
            reqs_d.append(gen_pattern_req(rng, False, 200)[0])
        elif k in 'JS':
            r0 = gen_pattern_req(rng, False, 300)[0]
            reqs_d.append(Req(k, flag=rng.randrange(2), type=r0.f['type'], msg=r0.f['msg'], cat=r0.f['cat'], file=r0.f['file'],
                              func=r0.f['func'], line=r0.f['line'],
                              attrs=r0.f['attrs'] + ([(u16(rng.choice(['appname', 'os_name', 'host_name', 'line', 'message'])), gen_text(rng, 50))] if rng.random() < 0.4 else [])))
        elif k == 'C':
            reqs_d.append(Req('C', rules=u16(gen_rules(rng)), type=rng.randrange(5),
                              cat=or_null(rng, rng.choice(ASCII_CATS) if rng.random() < 0.6 else bytes(rng.randrange(1, 256) for _ in range(rng.randint(0, 256))))))
        elif k == 'R':
            reqs_d.append(Req('R', idx=rng.randrange(REGEX_MENU), msg=gen_text(rng, 400) + ([rng.choice([0xd83d, 0xd800, 0xdbff])] if rng.random() < 0.2 else [])))  # a text cut inside a surrogate pair
        elif k == 'G':
            r0 = rng.choice(reqs_g)
            # the same chain with arbitrary category bytes and arbitrary-unit texts (no model comparison here)
            reqs_d.append(r0 if rng.random() < 0.5 else Req('G', items=[(t, or_null(rng, bytes(rng.randrange(1, 256) for _ in range(rng.randint(0, 20))), 0.1),
                                                                             m + gen_text(rng, 200)) for t, c, m in r0.f['items']]))
        else:
            reqs_d.append(rng.choice(reqs_c))
    # targeted families on the sanitized build: marker-only function texts (ASan: the strip loop must not read past the
    # terminator), every placeholder (also time / thread ones) and every formatter / filter on null pointers, widths of
    # 10+ digits (UBSan: no digit-by-digit accumulation into an int)
    reqs_fam = [Req('P', pattern=u16(rng.choice(['%{func}', '%{func}', '%{func:>6}|%{function}'])), func=list(s)) for s in strip_sigs]
    reqs_fam += reqs_null + null_sweep(rng, NAMES_EXT) + sweep_other + reqs_width
    # the column limit at every boundary of the int range (UBSan: qMin(field, limit), limit +- k, column - field), and the
    # configure() chain on the fixed escape-fragment texts x all message types
    reqs_fam += reqs_limit + reqs_g[:5 * len(ESC_FIXED)] + reqs_g[5 * len(ESC_FIXED):][:600 if thorough else 60]
    reqs_d += reqs_fam
    # long inputs: every string position once at each size
    nbig = 0
    for size in (big if thorough else big[1:]):
        for rep in range(3 if thorough else 1):
            reqs_d.append(Req('P', pattern=pat_func, func=list(gen_sig_long(rng, size)))); nbig += 1
            reqs_d.append(Req('P', pattern=u16('%{function}|%{func:>30!}'), func=list(gen_sig_long(rng, size)))); nbig += 1
            longtext = [rng.choice(UNITS_SPECIAL) if rng.random() < 0.2 else rng.randint(32, 126) for _ in range(size)]
            reqs_d.append(Req('P', pattern=u16('%%{message:*^%d}|%%{message:>7!}|%%{a?3,2}x' % WIDTH_CAP), msg=longtext)); nbig += 1
            longpat = []
            while len(longpat) < size:
                longpat += u16(gen_pattern(rng, False, 12)[0])
            reqs_d.append(Req('P', pattern=longpat[:size], msg=gen_text(rng, 50), attrs=gen_attrs(rng, 50))); nbig += 1
            reqs_d.append(Req('P', pattern=u16('%{file}|%{shortfile}|%{shortfile /a}|%{category:<9}'),
                              file=[rng.choice([47, 92, 97, 0xe9, 0xff, 46]) for _ in range(size)],
                              cat=[rng.randrange(1, 256) for _ in range(size)])); nbig += 1
            reqs_d.append(Req(rng.choice('JS'), flag=rng.randrange(2), msg=longtext, func=list(gen_sig_long(rng, size)),
                              attrs=[(u16('a'), longtext[:size // 2])])); nbig += 1
            reqs_d.append(Req('R', idx=rng.randrange(REGEX_MENU), msg=longtext)); nbig += 1
            reqs_d.append(Req('C', rules=u16(gen_rules(rng)), cat=[rng.randrange(1, 256) for _ in range(256)])); nbig += 1
            reqs_d.append(Req('Y', flag=1, maxw=rng.choice([15, 15, INT_MAX, 1 << 30]), items=[(rng.randrange(5), [rng.randrange(1, 256) for _ in range(size // 4)], longtext)])); nbig += 1
            esclong = []
            while len(esclong) < size:
                esclong += gen_esc_text(rng, 12) if rng.random() < 0.8 else gen_text(rng, 60)
            reqs_d.append(Req('G', items=[(t, list(b'app'), esclong[:size] + u16(rng.choice(['', '\033[', '\033[1;3']))) for t in (rng.randrange(5), 0)])); nbig += 1
    # adversarial star rules x near-miss categories: time budget on the plain build (a few also go through the sanitized run)
    reqs_star = star_family(rng, thorough)
    res_star = run_parallel(impl, [r.line() for r in reqs_star], 4)
    star_max_us = 0
    for rq, r in zip(reqs_star, res_star):
        if r[0] == 'ok':
            star_max_us = max(star_max_us, r[2])
            if r[2] > BUDGET_S * 1e6:
                findings.append((rq, impl, 'slow', '%d us' % r[2]))
        elif r[0] in ('crash', 'timeout'):
            findings.append((rq, impl, r[0], r[3]))
        else:
            skipped += 1
    if not any(f[0] in reqs_star for f in findings if f[0] is not None):
        reqs_d += reqs_star[:6]
    cfile = os.path.join(vlib.VERIF, 'corpus', 'C14', 'requests.txt')
    corpus_lines = [l.strip() for l in open(cfile) if l.strip() and not l.startswith('#')] if os.path.exists(cfile) else []
    lines_d = [r.line() for r in reqs_d] + corpus_lines
    res_d = run_parallel(san, lines_d, nproc, env=SAN_ENV, budget=SAN_BUDGET_S)
    # the long inputs once more on the plain build: that is where the 2 s budget is meant
    long_reqs = [r for r in reqs_d if r.size() >= 4096]
    res_e = run_parallel(impl, [r.line() for r in long_reqs], 4)
    for rq, r in zip(long_reqs, res_e):
        if r[0] == 'ok':
            max_us = max(max_us, r[2])
            if r[2] > BUDGET_S * 1e6:
                findings.append((rq, impl, 'slow', '%d us' % r[2]))
        elif r[0] in ('crash', 'timeout'):
            findings.append((rq, impl, r[0], r[3]))
    max_us_san, slow = 0, 0
    for i, r in enumerate(res_d):
        rq = reqs_d[i] if i < len(reqs_d) else None
        if r[0] == 'ok':
            max_us_san = max(max_us_san, r[2])
            if r[2] > SAN_BUDGET_S * 1e6:
                slow += 1
                findings.append((rq, san, 'slow', '%d us' % r[2]))
            ans_big = max([toobig(t) or 0 for t in r[1].split()] + [0])
            if ans_big and rq is not None and ans_big > answer_bound(rq):
                rq.answer_units = ans_big
                findings.append((rq, san, 'length', 'answer of %d code units for an input of %d units (bound from sizes and widths: %d)'
                                 % (ans_big, rq.size(), answer_bound(rq))))
        elif r[0] in ('crash', 'timeout'):
            findings.append((rq, san, r[0], r[3]) if rq else (None, san, r[0], 'corpus line %s: %s' % (lines_d[i][:200], r[3])))
        elif r[0] == 'skipped':
            skipped += 1

    # ---- model disagreements: a model fault / difference is investigated, never ignored --------
    def investigate(rq, what, impl_out, model_out):
        b = bad_on(san, rq, SAN_ENV)
        if b:
            findings.append((rq, san, b[0], b[1]))
            return
        chk.broke('%s; the sanitized implementation runs this input cleanly -> modelling bug or silent out-of-range access' % what,
                  {'kind': 'correspondence', 'request': rq.describe(), 'implementation': impl_out, 'model': model_out})
    for rq in fault_a[:2]:
        investigate(rq, 'checked cleanup model returns None (index out of range / fuel exhausted) on a signature the implementation processed', None, 'FAULT')
    for rq, io, mo in sorted(dis_a, key=lambda x: x[0].size())[:1]:
        investigate(rq, '%%{func} output differs from the checked model on %d signatures' % len(dis_a), io, mo)
    for rq, m in fault_b[:2]:
        investigate(rq, 'checked pattern model returns %s on a pattern the implementation processed' % m, None, m)
    for rq, io, mo in sorted(dis_b, key=lambda x: x[0].size())[:1]:
        investigate(rq, 'pattern output differs from the checked model on %d cases' % len(dis_b), show16(un16(io)), show16(un16(mo)))
    for rq, m in fault_c[:2]:
        investigate(rq, 'checked PrettyFormatter model returns None', None, m)
    for rq, io, mo in sorted(dis_c, key=lambda x: x[0].size())[:1]:
        investigate(rq, 'PrettyFormatter output differs from the checked model on %d cases' % len(dis_c), io, mo)
    for rq, m in fault_g[:2]:
        investigate(rq, 'checked model of the configure() formatter chain returns None', None, m)
    for rq, io, mo in sorted(dis_g, key=lambda x: x[0].size())[:1]:
        investigate(rq, 'text that reaches the file sink of the configure() chain differs from the checked model (PrettyFormatter, colour codes '
                        'removed) on %d cases' % len(dis_g), io, mo)

    # ---- falsifying inputs: shrink and report ---------------------------------------------------
    seen = set()
    findings.sort(key=lambda f: 0 if (f[1] == san and f[2] == 'crash') else 1)     # sanitizer reports first (stable)
    for rq, exe, kind, rep in findings:
        if len(seen) >= 3:
            break
        if rq is None:
            chk.fail('corpus request fails: %s' % rep[:300], {'kind': kind, 'report': rep[-1500:]}, kind=kind)
            continue
        env = SAN_ENV if exe == san else None
        import re
        key = (kind, re.sub(r'==\d+==|/tmp/\S*?/repo/', '', first_report_line(rep))[:80] if kind == 'crash' else '')
        if key in seen:
            continue
        seen.add(key)
        small = rq
        if kind in ('crash', 'timeout', 'slow'):
            if kind == 'crash':
                small = shrink_req(rq, lambda c: bad_on(exe, c, env) is not None, 120, 25.0)
            elif rq.size() <= 8192:
                # a hang / slow case: probe candidates with a short allowance (a small input that needs > 1.5 s is the same defect)
                small = shrink_req(rq, lambda c: bad_on(exe, c, env, budget=1.5 if exe == impl else 4.0, margin=0.3) is not None, 25, 45.0)
            b = bad_on(exe, small, env)
            if b:
                kind, rep = b
        chk.fail('%s on the %s build: %s' % ({'crash': 'crash / sanitizer report', 'timeout': 'no answer (hang)', 'slow': 'time budget exceeded',
                                              'length': 'resource bound exceeded'}.get(kind, kind),
                                             'ASan+UBSan' if exe == san else 'plain', first_report_line(rep) or rep[:200]),
                 {'kind': 'timeout' if kind == 'slow' else kind, 'detail': kind, 'budget_s': SAN_BUDGET_S if exe == san else BUDGET_S,
                  'exe': os.path.basename(exe), 'request': small.describe(), 'report': (rep or '')[-2000:]},
                 kind='timeout' if kind == 'slow' else kind)

    # ---- dedicated probes for the two uncapped numbers -------------------------------------------
    probes = {}
    # (1) F6: huge width -> std::bad_alloc -> terminate (plain build under ulimit -v 4 GiB)
    wrap = ['bash', '-c', 'ulimit -v 4194304; exec "$0"']
    ctl = run_guarded(impl, [Req('P', pattern=u16('%%{message:<%d}' % WIDTH_CAP), msg=u16('x')).line()], wrap=wrap)[0]
    if ctl[0] != 'ok':
        chk.broke('width probe: control run under ulimit failed', {'kind': 'probe', 'report': ctl[3][-400:]})
    else:
        for p in ['%%{message:<%d}' % INT_MAX, '%%{message:<%d}%%{message:<%d}' % (2 ** 30 - 1, 2 ** 30 - 1)]:
            r = run_guarded(impl, [Req('P', pattern=u16(p), msg=u16('x')).line()], budget=20, wrap=wrap)[0]
            probes[p] = r[0] if r[0] != 'ok' else 'ok (%d units)' % len(un16(r[1]))
            if r[0] != 'ok':
                chk.fail('format width %d makes applyPadding allocate gigabytes: %s' % (total_width(p), first_report_line(r[3]) or r[0]),
                         {'kind': 'width_alloc', 'pattern': p, 'total_width': total_width(p), 'message': 'x',
                          'how': 'build/h_safety under ulimit -v 4194304', 'report': (r[3] or '')[-600:]}, kind='width_alloc')
    # (2) the out-of-band removal counter: int overflow (UBSan)
    for p, tot in [('%%{a?,%d}%%{b?,%d}x' % (INT_MAX, INT_MAX), 2 * INT_MAX), ('x%%{a?,%d}%%{b?1}y' % INT_MAX, INT_MAX)]:
        r = run_guarded(san, [Req('P', pattern=u16(p), msg=u16('x')).line()], env=SAN_ENV)[0]
        probes[p] = r[0] if r[0] != 'ok' else 'ok'
        if r[0] != 'ok':
            chk.fail('removal counts near INT_MAX overflow the pending-remove counter: %s' % (first_report_line(r[3]) or r[0]),
                     {'kind': 'pending_overflow', 'pattern': p, 'remove_after_total': tot, 'message': 'x',
                      'how': 'build/h_safety.san (UBSan)', 'report': first_report_line(r[3])}, kind='pending_overflow')

    # ---- evidence ---------------------------------------------------------------------------------
    def has(s, b):
        return b in s
    sigs_all, sigs = sigs, [x for x in sigs if x is not None]
    all_reqs = reqs_a + reqs_b + reqs_c + reqs_g + reqs_d
    null_hist = {k: sum(1 for r in all_reqs if r.cmd in ('P', 'J', 'S', 'C') and r.f[k] is None) for k in ('file', 'func', 'cat')}
    null_hist['pretty_items'] = sum(1 for r in all_reqs if r.cmd == 'Y' for _, c, _ in r.f['items'] if c is None)
    null_hist['all_three'] = sum(1 for r in all_reqs if r.cmd in ('P', 'J', 'S') and r.f['file'] is None and r.f['func'] is None and r.f['cat'] is None)

    def placeholder_null_hits(reqs):
        h = {}
        for r in reqs:
            if r.cmd != 'P' or not (r.f['file'] is None or r.f['func'] is None or r.f['cat'] is None):
                continue
            pt = ''.join(chr(u) if u < 128 else '?' for u in r.f['pattern'])
            for nm, fld in (('%{file', 'file'), ('%{shortfile}', 'file'), ('%{shortfile:', 'file'), ('%{shortfile ', 'file'), ('%{function', 'func'),
                            ('%{func}', 'func'), ('%{func:', 'func'), ('%{category', 'cat')):
                if nm in pt and r.f[fld] is None:
                    key = nm.strip('%{}: ') + ('+basedir' if nm.endswith(' ') else '')
                    h[key] = h.get(key, 0) + 1
        return h
    hit = {'operator': sum(has(s, b'operator') for s in sigs), 'operator_at_0': sum(s.startswith(b'operator') for s in sigs),
           'funcptr': sum((b')(' in s and b'(*' in s) for s in sigs), 'empty_parens_scope': sum(has(s, b'()::') for s in sigs),
           'lambda': sum(has(s, b'<lambda') for s in sigs), 'trailing_bracket': sum(s.endswith(b']') for s in sigs),
           'objc_prefix': sum(s[:1] in (b'+', b'-') for s in sigs), 'byte_ge_0x80': sum(any(c >= 128 for c in s) for s in sigs),
           'qualifier_tail': sum(any(s.endswith(q) for q in (b' const', b' volatile', b' noexcept', b' override', b' final')) for s in sigs),
           'empty': sum(1 for s in sigs if not s)}
    evals = len(sigs) + len(reqs_b) + len(reqs_c) + len(reqs_g) + len(res_t) + len(lines_d) + len(reqs_star) + len(probes) + 1
    chk.cov.update({
        'evaluations': evals,
        'distinct_nontrivial': len({s for s, r in zip(sigs_all, res_a) if s is not None and r[0] == 'ok' and r[1] != h16(list(s))}) + nontrivial_b,
        'rule': 'A: fragment-composed / mutated-real / random-byte signatures <= 4 KiB through %{func}, real vs checked cleanup model; '
                'B: grammar-directed patterns (all tokens, conditionals, optional attributes, every fill/align/width/! form, malformed '
                'specs, unterminated placeholders) x messages/attributes/paths, real vs checked pattern model and resource bound; '
                'C: PrettyFormatter message sequences, real vs checked model, the column limit maxCategoryWidth at every boundary of the int '
                'range (INT_MAX = no limit, INT_MAX-1..-4, 0, +-1, INT_MIN, 2^30, ...) x category sequences that grow the column (plain+model AND '
                'sanitized); G: the formatter chain of configure(pipeline, path, ...) (PrettyFormatter -> colour codes removed -> file sink) on '
                'message texts made of ESC fragments (cut-off, complete, nested codes) x all message types, real vs checked model, time budget, '
                'plain AND sanitized, texts up to 64 KiB; T: 2-4 threads, each with its own PatternFormatter("%{func}") and 3000 function texts not '
                'formatted before (plain AND sanitized; expected text tied to the cleanup model on a sample); D: ASan+UBSan build over P/J/S/C/R/Y requests with '
                'arbitrary bytes and every string position at sizes up to 64 KiB, per-input time budget; E: category rules with 8..40 stars x '
                'matching / near-miss / missing categories <= 256 bytes under the 2 s budget; families (plain+model AND sanitized): '
                'function texts of which only * & blanks remain, every placeholder / formatter / filter x null file / function / '
                'category pointers, format widths of 10+ digits; probes: width near INT_MAX '
                'under ulimit -v, removal counts near INT_MAX under UBSan. non-trivial = output differs from the raw input',
        'func_cases': len(sigs), 'func_model_faults': len(fault_a), 'func_disagreements': len(dis_a),
        'func_length_histogram': {str(b): sum(1 for s in sigs if lo <= len(s) < b) for lo, b in ((0, 16), (16, 64), (64, 256), (256, 1024), (1024, 4097))},
        'func_boundary_hits': hit,
        'pattern_cases': len(reqs_b), 'pattern_model_faults': len(fault_b), 'pattern_disagreements': len(dis_b),
        'pattern_piece_histogram': hist_b, 'pattern_nontrivial': nontrivial_b,
        'pretty_cases': len(reqs_c), 'pretty_model_faults': len(fault_c), 'pretty_disagreements': len(dis_c),
        'pretty_column_limit_histogram': {str(w): sum(1 for r in reqs_c if r.f['maxw'] == w) for w in sorted({r.f['maxw'] for r in reqs_c})},
        'pretty_column_limit_family_cases': len(reqs_limit),
        'pretty_limit_cases_where_the_column_grows': sum(1 for r in reqs_c if r.f['maxw'] in LIMITS and
                                                         len({ln(c) for _, c, _ in r.f['items'] if c != list(b'default')}) > 1),
        'pretty_limit_cases_on_sanitized_build': sum(1 for r in reqs_d if r.cmd == 'Y' and abs(r.f['maxw']) >= INT_MAX - 3),
        'concurrent_formatter_runs': len(res_t), 'concurrent_formatter_threads_x_rounds': [[r.f['flag'], r.f['idx']] for r in reqs_t],
        'concurrent_formatter_wrong_text_runs': t_wrong,
        'configure_chain_cases': len(reqs_g), 'configure_chain_model_faults': len(fault_g), 'configure_chain_disagreements': len(dis_g),
        'configure_chain_on_sanitized_build': sum(1 for r in reqs_d if r.cmd == 'G'),
        'configure_chain_messages': sum(len(r.f['items']) for r in reqs_g),
        'configure_chain_text_histogram': {
            'with_esc_bracket': sum(1 for r in reqs_g for _, _, m in r.f['items'] if has_sub(m, [27, 91])),
            'unfinished_code_at_end_debug': sum(1 for r in reqs_g for t, _, m in r.f['items'] if t == 0 and unfinished(m)),
            'unfinished_code_at_end_other_types': sum(1 for r in reqs_g for t, _, m in r.f['items'] if t != 0 and unfinished(m)),
            'complete_code': sum(1 for r in reqs_g for _, _, m in r.f['items'] if has_sub(m, [27, 91, 48, 109]) or has_sub(m, [27, 91, 109])),
            'by_type': {str(t): sum(1 for r in reqs_g for tt, _, _ in r.f['items'] if tt == t) for t in range(5)}},
        'configure_chain_nontrivial': sum(1 for r, x in zip(reqs_g, res_g) if x[0] == 'ok' and any(has_sub(m, [27, 91]) for _, _, m in r.f['items'])),
        'sanitizer_cases': len(lines_d), 'sanitizer_kinds': kinds_d, 'sanitizer_long_inputs': nbig,
        'sanitizer_max_input_size': max(r.size() for r in reqs_d), 'sanitizer_reports': sum(1 for f in findings if f[1] == san),
        'time_budget_s': BUDGET_S, 'time_budget_sanitized_s': SAN_BUDGET_S, 'long_inputs_rerun_on_plain_build': len(long_reqs), 'max_elapsed_us_plain': max_us, 'max_elapsed_us_sanitized': max_us_san, 'over_budget': slow, 'requests_not_run_after_repeated_crashes': skipped,
        'category_star_family_cases': len(reqs_star), 'category_star_family_max_elapsed_us': star_max_us,
        'null_pointer_cases': null_hist, 'placeholder_meets_its_null_pointer': placeholder_null_hits(all_reqs),
        'null_sweep_cases': len(reqs_null), 'marker_only_function_texts': len(strip_sigs),
        'marker_only_after_cleanup_prefix': sum(1 for x in strip_sigs if x and set(x.split(b' ')[-1] or b'*') <= set(b'*&')),
        'width_10plus_digit_cases': len(reqs_width), 'width_10plus_digit_distinct': len({tuple(r.f['pattern']) for r in reqs_width}),
        'answers_refused_as_too_big': sum(1 for r in all_reqs if r.answer_units is not None),
        'probes': probes, 'width_cap': WIDTH_CAP})
    chk.samples = [{'signature': show8(sigs[i][:80]), 'impl': show16(un16(res_a[i][1] or '-')[:80]), 'model': mod_a[i][:60]} for i in (0, len(sigs) // 3)
                   if res_a[i][0] == 'ok'] + \
                  [{'pattern': show16(reqs_b[i].f['pattern'][:80]), 'impl': show16(un16(res_b[i][1] or '-')[:80]), 'model': mod_b[i][:80]} for i in (1, len(reqs_b) // 2)
                   if res_b[i][0] == 'ok']
    return chk.finish()


def replay(path):
    r = json.load(open(path))['replay']
    if isinstance(r, list):
        r = r[0]
    print(json.dumps({k: v for k, v in r.items() if k != 'report'}, indent=1)[:3000])
    vlib.gen_src(['safety'])
    impl = vlib.build_harness('safety'); san = vlib.build_harness('safety', 'san')
    line = None
    if 'request' in r and isinstance(r['request'], dict):
        line = r['request'].get('line_protocol')
    elif 'pattern' in r:
        line = Req('P', pattern=u16(r['pattern']), msg=u16(r.get('message', 'x'))).line()
    if not line or line.endswith('...'):
        print('no replayable request line recorded'); return 0
    if r.get('kind') == 'width_alloc':
        res = run_guarded(impl, [line], budget=20, wrap=['bash', '-c', 'ulimit -v 4194304; exec "$0"'])[0]
        print('plain build under ulimit -v 4 GiB:', res[0], first_report_line(res[3] or ''))
        return 0
    for name, exe, env in (('plain', impl, None), ('ASan+UBSan', san, SAN_ENV)):
        res = run_guarded(exe, [line], env=env)[0]
        print('%-11s %s %s us  %s' % (name, res[0], res[2], (show16(un16(res[1])[:200]) if res[0] == 'ok' and res[1] and ' ' not in res[1] else (res[1] or first_report_line(res[3] or '')))))
    f = line.split()
    if f[0] == 'P':
        m = vlib.build_model('safety')
        # model line: category and file as UTF-16 of the same bytes
        w = lambda h: h if h in ('-', '~') else ''.join('00' + h[i:i + 2] for i in range(0, len(h), 2))
        ml = ' '.join([f[1], f[2], f[3], w(f[4]), w(f[5])] + f[6:])
        print('checked model', vlib.run_lines(m, [ml])[1])
        if f[1] == h16(u16('%{func}')):
            print('cleanup model', vlib.run_lines(vlib.build_model('cleanup'), [f[6]])[1])
    return 0
