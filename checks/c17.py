"""C17 — The sorted pipeline keeps handler classes in order for any call sequence."""
import itertools, json, os
import vlib

META = {
    'id': 'C17',
    'level': 'proof',
    'technique': 'Coq proof (invariant over call histories, generic in the translated configuration) '
                 '+ source-to-Coq translation of class sets/search shapes + differential run of the '
                 'extracted model against the real SortedPipeline',
    'text': 'Theorems (Properties_C17.v) characterise the handler list after ANY history of typed calls as '
            'attribute handlers ++ filters ++ last formatter ++ sinks ++ pipelines, each in call order; they are '
            're-checked on every run against the class sets and search shapes translated from sortedpipeline.cpp, '
            'and the extracted model is run against the real class on generated and exhaustively enumerated histories.',
    'note': 'Trusted: Coq 8.16.1 kernel (vm_compute used for the closed configuration check), no axioms; '
            'tools/src2coq.py (regex translation of sortedpipeline.cpp: search shapes, class sets), extraction '
            '(ExtrOcamlBasic only) and ocaml/drv_sorted.ml, harness/h_sorted.cpp; QList/QSet/QSharedPointer and '
            'std::find_if are modelled (lists), not verified.',
    'design_ref': 'DESIGN.md section 4, C17',
    'engine': 'coq+extraction+harness',
}

ALPHA = 'AFMRSPafmspx'
NULLS = '12345'
AGAIN = 'BGTQ'


def gen_histories(chk, n, maxlen):
    rng = chk.rng
    hs = []
    # every order of the five classes as a prefix, followed by a second round in another order
    perms = [''.join(p) for p in itertools.permutations('AFMSP')]
    for p in perms:
        hs.append(p + rng.choice(perms))
    while len(hs) < n:
        k = rng.randint(1, maxlen)
        w = rng.choice([(8, 1), (3, 1), (1, 1)])  # insertion-heavy, mixed, clear-heavy
        hs.append(''.join((rng.choice('AFMSPRM') if rng.random() < 0.8 else rng.choice(NULLS + AGAIN + AGAIN)) if rng.random() < w[0] / (w[0] + w[1]) else rng.choice('afmspx') for _ in range(k)))
    return hs


def exhaustive(maxlen):
    for k in range(1, maxlen + 1):
        for t in itertools.product(ALPHA, repeat=k):
            yield ''.join(t)


def run():
    chk = vlib.Check('C17')
    chk.trusted = ['Coq 8.16.1 kernel; vm_compute on the closed term cfg_goodb src_cfg; no native_compute',
                   'axioms: none (every Print Assumptions: Closed under the global context)',
                   'tools/src2coq.py translator (sortedpipeline.cpp -> SrcSorted.v)',
                   'extraction ExtrOcamlBasic (bool/option/unit/prod/list/sumbool), no Extract Constant; ocaml/drv_sorted.ml',
                   'harness/h_sorted.cpp; Qt containers and std::find_if are modelled, not verified']
    chk.assumptions = ['a null pointer passed to a typed call is ignored (modelled as NullCall; exercised)',
                       'only the typed calls of the property are used (generic append/insertBetween* are outside C17)']
    proof_ok = chk.proof(vlib.proof_leg('Properties_C17', ['sorted', 'pipeline']))
    model = vlib.build_model('sorted')
    impl = vlib.build_harness('sorted')
    thorough = chk.tier == 'thorough'
    hs = gen_histories(chk, 40000 if thorough else 3000, 40 if thorough else 30)
    ex_len = 5 if thorough else 4
    hs += list(exhaustive(ex_len))
    # the same object appended again: every history of length <= 4 over insertions and again-calls that has one
    hs += [''.join(t) for k in (2, 3, 4) for t in itertools.product('AFMSP' + AGAIN, repeat=k) if set(t) & set(AGAIN)]
    # null-pointer calls: every history of length <= 3 over insertions and null calls, extended by one insertion of each class
    hs += [''.join(t) + tail for k in (1, 2, 3) for t in itertools.product('AFMSP' + NULLS, repeat=k) if set(t) & set(NULLS) for tail in 'AFMSP']
    rc1, out_i, err_i = vlib.run_lines(impl, hs)
    # QSet<HandlerType> iteration order depends on Qt's per-process hash seed: the lists must not
    hash_seed_diffs = []
    for hseed in ('0', '2', '3', '7'):
        rch, out_h, _ = vlib.run_lines(impl, hs[:4000], env={'QT_HASH_SEED': hseed})
        for h, a, b in zip(hs, out_i, out_h):
            if a != b:
                hash_seed_diffs.append((hseed, h, b))
    rc2, out_m, _ = vlib.run_lines(model, hs)
    rc3, out_s, _ = vlib.run_lines(model, hs, ['spec'])
    if rc1 != 0 or len(out_i) != len(hs):
        chk.fail('implementation crashed or produced no output on a history', {'rc': rc1, 'stderr': err_i[-500:], 'kind': 'crash'})
        out_i = out_i + [''] * (len(hs) - len(out_i))
    rc4, verdicts, _ = vlib.run_lines(model, out_i, ['oracle'])
    dis_model, falsified, dis_spec = [], [], []
    for h, a, b, s, v in zip(hs, out_i, out_m, out_s, verdicts):
        if a != b:
            dis_model.append(h)
        if '0' in v:
            falsified.append(h)
        elif a != s:
            dis_spec.append(h)

    def impl_bad(hist):
        h = ''.join(hist)
        if not h:
            return False
        _, o, _ = vlib.run_lines(impl, [h])
        _, v, _ = vlib.run_lines(model, o, ['oracle'])
        return bool(v) and '0' in v[0]

    if falsified:
        worst = min(falsified, key=len)
        small = ''.join(vlib.shrink_list(list(worst), impl_bad))
        _, o, _ = vlib.run_lines(impl, [small])
        _, sp, _ = vlib.run_lines(model, [small], ['spec'])
        chk.fail('handler list violates class order / stability / single formatter after history %r' % small,
                 {'history': small, 'alphabet': 'A F M S P = appendAttrHandler appendFilter setFormatter appendSink appendPipeline; R = setFormatter with the same formatter object as the last M/R; 1..5 = appendAttrHandler/appendFilter/setFormatter/appendSink/appendPipeline(nullptr); B G T Q = appendAttrHandler/appendFilter/appendSink/appendPipeline with the object most recently created for that class again; a f m s p = clear<Class>; x = clear()',
                  'implementation_lists_after_each_call': o[0] if o else None, 'specified_lists': sp[0] if sp else None,
                  'falsified_histories': len(falsified), 'kind': 'order'}, kind='order')
    elif dis_spec:
        # sorted and stable lists are unique, so this cannot happen unless ids are lost/duplicated
        h = min(dis_spec, key=len)
        chk.fail('handler list differs from the specified list (handler lost or duplicated) after history %r' % h,
                 {'history': h, 'kind': 'content'}, kind='content')
    if hash_seed_diffs and not falsified:
        hseed, h, outb = min(hash_seed_diffs, key=lambda x: len(x[1]))
        _, vv, _ = vlib.run_lines(model, [outb], ['oracle'])
        if vv and '0' in vv[0]:
            small = h
            def bad_seeded(hist, hseed=hseed):
                hh = ''.join(hist)
                if not hh: return False
                _, o, _ = vlib.run_lines(impl, [hh], env={'QT_HASH_SEED': hseed})
                _, v, _ = vlib.run_lines(model, o, ['oracle'])
                return bool(v) and '0' in v[0]
            small = ''.join(vlib.shrink_list(list(h), bad_seeded))
            _, o, _ = vlib.run_lines(impl, [small], env={'QT_HASH_SEED': hseed})
            chk.fail('with QT_HASH_SEED=%s the handler list violates class order / stability after history %r' % (hseed, small),
                     {'history': small, 'QT_HASH_SEED': hseed, 'implementation_lists_after_each_call': o[0] if o else None, 'kind': 'order'}, kind='order')
        else:
            chk.broke('the handler list depends on the process hash seed (QT_HASH_SEED=%s) for history %r' % (hseed, h), {'kind': 'hash-seed', 'history': h})
    if dis_model:
        h = min(dis_model, key=len)
        chk.broke('correspondence: model (with the translated configuration) and SortedPipeline differ on %d histories, e.g. %r' % (len(dis_model), h),
                  {'kind': 'correspondence', 'history': h})
    # State that survives between calls, pipeline objects or histories (a function-local static, a cache keyed on
    # the first call of the process) is invisible when 40 000 histories share one harness process: the same short
    # histories are also run in FRESH processes, one per first call sequence, and must give the lists the
    # (history-independent) model gives.  A disagreement there that the one-process run does not show is
    # reported with the ordered list of histories the process had seen.
    conts = [''.join(t) for k in (1, 2, 3) for t in itertools.product('AFMSP', repeat=k)] + ['SMmM', 'SPMRS', 'ASMFMs', 'MSsSM', 'PSMFA']
    firsts = [''.join(t) for k in (1, 2) for t in itertools.product('AFMSP', repeat=k)]
    fresh_runs, fresh_bad = 0, None
    _, conts_m, _ = vlib.run_lines(model, conts)
    for first in firsts:
        batch = [first] + conts
        rcf, out_f, err_f = vlib.run_lines(impl, batch)
        fresh_runs += 1
        if rcf != 0 or len(out_f) != len(batch):
            fresh_bad = fresh_bad or (first, batch[min(len(out_f), len(batch) - 1)], 'crash', err_f[-300:])
            continue
        _, vf, _ = vlib.run_lines(model, out_f, ['oracle'])
        for h, a, m_, v in zip(batch[1:], out_f[1:], conts_m, vf[1:]):
            if '0' in v or a != m_:
                if fresh_bad is None or len(h) < len(fresh_bad[1]):
                    fresh_bad = (first, h, 'order' if '0' in v else 'differs', a)
    if fresh_bad and not chk.failing:
        first, h, what, detail = fresh_bad
        _, o2, _ = vlib.run_lines(impl, [first, h])
        _, v2, _ = vlib.run_lines(model, o2, ['oracle']) if len(o2) == 2 else (0, [], '')
        _, o1, _ = vlib.run_lines(impl, [h])
        _, v1, _ = vlib.run_lines(model, o1, ['oracle']) if o1 else (0, [], '')
        alone_ok = bool(v1) and '0' not in v1[0]
        if what == 'crash' or (len(v2) == 2 and '0' in v2[1]):
            chk.fail('in a fresh process whose first pipeline saw the calls %r, the handler list of a NEW pipeline violates class order / '
                     'stability / single formatter after history %r%s' % (first, h, ' (the same history in a process of its own is fine)' if alone_ok else ''),
                     {'process_histories_in_order': [first, h], 'history': h, 'implementation_lists_after_each_call': o2[1] if len(o2) == 2 else detail,
                      'same_history_alone_ok': alone_ok, 'kind': 'order-process-state'}, kind='order')
        else:
            chk.broke('correspondence: in a fresh process started with %r the lists for history %r differ from the model (%s)' % (first, h, what),
                      {'kind': 'correspondence-fresh-process', 'process_histories_in_order': [first, h], 'history': h})
    chk.cov['fresh_process_runs'] = fresh_runs
    chk.cov['fresh_process_histories_each'] = len(conts) + 1
    distinct = len(set(hs))
    chk.cov.update({'evaluations': len(hs), 'distinct_nontrivial': len({h for h in hs if len(set(h) & set('AFMRSPBGTQ')) >= 2}),
                    'rule': 'random histories over the 12 calls (three insertion/clear mixes, all 120 class orders as prefixes) plus every '
                            'history of length <= %d; non-trivial = inserts at least two different classes' % ex_len,
                    'exhaustive_up_to_length': ex_len, 'distinct': distinct,
                    'disagreements_model_vs_impl': len(dis_model), 'oracle_evaluated_on_impl_lists': sum(len(v) for v in verdicts),
                    'oracle_falsified_histories': len(falsified), 'hash_seeds_tried': [0, 2, 3, 7], 'hash_seed_dependent_histories': len(hash_seed_diffs), 'impl_vs_spec_differences': len(dis_spec),
                    'length_histogram': {str(k): sum(1 for h in hs if len(h) // 10 == k) for k in range(0, 5)}})
    chk.samples = [{'history': hs[i], 'impl': out_i[i][-120:], 'model': out_m[i][-120:]} for i in (0, 121, len(hs) // 2)]
    return chk.finish()


def replay(path):
    r = json.load(open(path))['replay']
    if isinstance(r, list):
        r = r[0]
    h = r.get('history')
    if not h:
        print(json.dumps(r, indent=1)); return 0
    vlib.gen_src(['sorted'])
    model = vlib.build_model('sorted'); impl = vlib.build_harness('sorted')
    print('history        ', h)
    print('implementation ', vlib.run_lines(impl, [h])[1])
    print('model          ', vlib.run_lines(model, [h])[1])
    print('specification  ', vlib.run_lines(model, [h], ['spec'])[1])
    return 0
