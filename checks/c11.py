"""C11 — A fatal message and everything before it reach the log file."""
import concurrent.futures, glob, gzip, json, os, re, shutil, subprocess, tempfile
import vlib

META = {
    'id': 'C11',
    'level': 'proof',
    'technique': 'Coq proof (content conservation + flush reaches every sink, by nested induction over the handler tree, '
                 'for every history of messages, explicit flushes and reconfigurations and every buffering policy) instantiated at the '
                 'flush structure translated from the source in BOTH preprocessor configurations (default, QTLOGGER_NO_THREAD) + child '
                 'processes of the real library (both builds) killed by qFatal/SIGKILL compared with the extracted model',
    'text': 'Theorems (Properties_C11.v): for every handler tree of the synchronous logger (file sinks, filters, nested pipelines, '
            'a sink on a full device), every history and every QFile buffering policy, after qFatal the file of every healthy '
            'file sink = previous content + every record that passed the filters in front of it (the fatal one iff it passes); '
            'for histories with explicit flush() calls and run-time reconfiguration (append/sendToFile on the logger or an existing nested '
            'pipeline, remove, clearSinks) the files of the FINAL configuration = those of the logger without any buffering; the same for '
            'the source as compiled with -DQTLOGGER_NO_THREAD (the flush must be reachable in every configuration); '
            'for SEVERAL file sinks on ONE file (a sink replaced at run time by a new one for the same file, a second short-lived Logger '
            'object on the same file; destroyed sinks close = flush their QFile): every file holds, from every QFile ever opened on it, '
            'exactly the stream the unbuffered logger would have written (each record once per sink that wrote it); records of any '
            'length, the EMPTY text (a one-byte record) included; '
            're-checked on every run against where/when Logger::processMessage flushes, what recursiveFlush reaches and what '
            'FileSink::flush does as read from the source; the real library is run in child processes that die by SIGABRT '
            '(and by SIGKILL without a fatal message, to validate the buffering model) and the files are compared with the '
            'extracted model and with the extracted boolean oracle.',
    'note': 'Trusted: Coq 8.16.1 kernel (vm_compute only on the closed configuration check and witnesses), no axioms; '
            'tools/s2c/fatal.py (statement-level reading of logger.cpp, simplepipeline.cpp, filesink.cpp, iodevicesink.cpp, '
            'rotatingfilesink.cpp, each function read once with QTLOGGER_NO_THREAD undefined and once defined); extraction (ExtrOcamlBasic) + ocaml/drv_fatal.ml; '
            'harness/h_fatal.cpp and the file reader in checks/c11.py. Modelled, not verified: QFile buffering '
            '(arbitrary policy in the theorems, Qt 5.15 16 KiB policy in the run), the kernel keeping written data of a '
            'process that aborts, abort() itself, Qt calling abort() after the message handler returns. Filters '
            '(which records a sink is sent) and rotation file naming are outside the model (C01/C05); the asynchronous '
            'logger is excluded by the property.',
    'design_ref': 'DESIGN.md section 4, C11',
    'engine': 'coq+extraction+harness',
}

MODEL_TREE = {'ONE': 'oooF', 'ONER': 'oooR', 'FLU': 'oFR', 'FLUN': 'oF(F)', 'FLUT': 'o(gF)F', 'FLUC': 'o(yR)F', 'FLUB': 'oBF',
              'ONEZ': 'oooZ', 'FLUZ': 'oZ',
              'ONEQ': 'oooR', 'ONEA1': 'oooF', 'ONEA2': 'oooF', 'FLU1': 'oF', 'FLUP': 'oF(l)'}
KIND_NAMES = {'oF': 'plain', 'oR': 'rotating', 'oFR': 'both', 'o(F)': 'nested', 'oF(oR(F))': 'nested-deep',
              'ONE': 'one-line configure(path, sync)', 'ONER': 'one-line configure(path, maxFileSize, sync)',
              'FLU': 'fluent format().sendToFile().sendToFile(limit)', 'FLUN': 'fluent with pipeline()',
              'oD': 'rotating daily without size limit', 'or': 'rotating with 64 KiB limit (rotates)', 'F': 'no formatter',
              'FLUT': 'fluent: pipeline().filter(debug only).sendToFile(trace).end().sendToFile(app)',
              'FLUC': 'fluent: pipeline().filterCategory(debug only).sendToFile(trace, limit).end().sendToFile(app)',
              'FLUB': 'fluent: sendToFile(/dev/full).sendToFile(app)',
              'FLU1': 'fluent: format().sendToFile(app), reconfigured at run time',
              'FLUP': 'fluent: format().sendToFile(app).pipeline().filterLevel(warning), the nested pipeline gets its file at run time',
              'oF(l)': 'main file and a nested pipeline behind LevelFilter(warning)', 'oR(l)': 'rotating main file and a nested pipeline behind LevelFilter(warning)', 'onF': 'top-level filter rejecting the fatal message',
              'olF': 'LevelFilter(warning) before the file sink', 'o(eF)(xR)': 'even/odd ids split over two files',
              'oB(F)R': 'full device before a nested and a rotating sink', 'oNFR': 'null handler entry before the file sinks', 'oq': 'rotating sink, 1000-byte limit, explicit flush() before the rotation',
              'oQ': 'rotating sink whose rotation rename fails (name occupied by a directory)',
              'okK': 'rotating sink s0.log keeping 3 files next to rotating sink ws0.log keeping everything',
              'oKk': 'rotating sink ws1.log keeping everything next to rotating sink s1.log keeping 3 files',
              'oZ': 'rotating sink, 1000-byte limit, unlimited file count, Compression (rotated files gzipped)',
              'ONEZ': 'one-line configure(path, 1000, 0, Compression, sync): several rotations on one date',
              'FLUZ': 'fluent: format().sendToFile(app, 1000, 0, Compression): several rotations on one date',
              'ONEQ': 'one-line configure(path, 1000) whose rotation rename fails',
              'ONEA1': 'one-line configure(async=true) then resetOwnThread()', 'ONEA2': 'one-line configure(async=true), event loop ran and quit',
              'N(FN)NF': 'null handler entries at both levels', 'SoF': 'slow handler keeps another thread inside the logger',
              'oS(gF)R': 'slow handler, trace file and rotating sink', 'o(gF)F': 'debug-only trace file next to the main file'}
CHUNK = 16384


TMP_BASE = 1000000    # ids of the records logged through a second, short-lived Logger object (& items)


def text_of(i, size):
    if size <= 0:      # size 0: the EMPTY text; size -n: n blanks (whitespace only); such a record carries no id
        return b' ' * (-size)
    s = ('%d:' % i).encode()
    if len(s) < size:
        s += bytes([ord('a') + i % 26]) * (size - len(s))
    return s


OPS = '+^~!&'   # reconfiguration items: append handler, sendToFile, remove handler, clearSinks, a second short-lived Logger


def events(msgs):
    """messages, explicit flushes ('f', 0) and reconfigurations (op char, '<path>:<arg>') in order, mixed types left symbolic"""
    out = []
    if msgs in ('-', ''):
        return out
    for it in msgs.split(','):
        t, body = it[0], it[1:]
        if t == 'f':
            out.append(('f', 0)); continue
        if t in OPS:
            out.append((t, body)); continue
        if '*' in body:
            sz, cnt = body.split('*')
            out += [(t, int(sz))] * int(cnt)
        else:
            out.append((t, int(body)))
    # resolve the mixed type by message number (flushes and reconfigurations take no number)
    res, i = [], 0
    for t, sz in out:
        if t == 'f' or t in OPS:
            res.append((t, sz)); continue
        res.append(('diwc'[i % 4] if t == 'm' else t, sz)); i += 1
    return res


def expand(msgs):
    """the messages only"""
    return [e for e in events(msgs) if e[0] != 'f' and e[0] not in OPS]


def expand_old(msgs):
    out = []
    if msgs in ('-', ''):
        return out
    for it in msgs.split(','):
        t, body = it[0], it[1:]
        if '*' in body:
            sz, cnt = body.split('*')
            out += [(t, int(sz))] * int(cnt)
        else:
            out.append((t, int(body)))
    return [('diwc'[i % 4] if t == 'm' else t, sz) for i, (t, sz) in enumerate(out)]


def compress(ml):
    """inverse of events (run-length for messages)"""
    if not ml:
        return '-'
    out, i = [], 0
    while i < len(ml):
        t = ml[i][0]
        if t == 'f':
            out.append('f'); i += 1; continue
        if t in OPS:
            out.append(t + ml[i][1]); i += 1; continue
        j = i
        while j < len(ml) and ml[j] == ml[i]:
            j += 1
        out.append('%s%d' % ml[i] + ('*%d' % (j - i) if j - i > 1 else ''))
        i = j
    return ','.join(out)


def ranges(ids):
    out, i = [], 0
    while i < len(ids):
        j = i
        while j + 1 < len(ids) and ids[j + 1] == ids[j] + 1:
            j += 1
        out.append(str(ids[i]) if i == j else '%d-%d' % (ids[i], ids[j]))
        i = j + 1
    return ','.join(out)


def unranges(txt):
    out = []
    for it in txt.split(','):
        if it == '':
            continue
        a, _, z = it.partition('-')
        out += list(range(int(a), int(z or a) + 1))
    return out


def fault_ids(sc):
    """ids of the messages logged while the device rejected writes (z): such a record may be lost"""
    ids, i = [], 0
    if sc['msgs'] in ('-', ''):
        return ids
    for it in sc['msgs'].split(','):
        t, body = it[0], it[1:]
        if t == 'f' or t in OPS:
            continue
        n = int(body.split('*')[1]) if '*' in body else 1
        if t == 'z':
            ids += list(range(i, i + n))
        i += n
    return ids


def forgive_faults(files, reference, zids):
    """a record written during a device fault may be lost: where the reference has such a record and the file
    does not, it is counted as present (nothing else is touched)"""
    if not zids or not reference or reference == '?':
        return files
    fs, rs = files.split(';'), reference.split(';')
    if len(fs) != len(rs):
        return files
    out = []
    for f, r in zip(fs, rs):
        if f == 'X' or r == 'X':
            out.append(f); continue
        have, want = unranges(f), set(unranges(r))
        add = [z for z in zids if z in want and z not in have]
        out.append(ranges(sorted(have + add)) if add else f)
    return ';'.join(out)


SINK_LETTERS = 'FRrDBqQkKZ'


def parse_sinks(txt):
    """(letter, alias) of the file sinks in a string of tree letters; alias k (from <letter>@<k>): the sink logs to
    the file of sink k"""
    out, i = [], 0
    while i < len(txt):
        c = txt[i]; i += 1
        if c in SINK_LETTERS:
            a = None
            if i < len(txt) and txt[i] == '@':
                j = i + 1
                while j < len(txt) and txt[j].isdigit():
                    j += 1
                a = int(txt[i + 1:j] or 0); i = j
            out.append((c, a))
    return out


def sink_info(sc):
    """the file sinks ever created, in creation order: those of the tree (depth-first), then those of the handlers
    appended by reconfiguration items and of the short-lived second loggers; (letter, alias)"""
    out = parse_sinks(MODEL_TREE.get(sc['tree'], sc['tree']))
    for e in events(sc.get('msgs', '-')):
        if e[0] in '+^':
            out += parse_sinks(e[1].partition(':')[2])
        elif e[0] == '&':
            out.append(('F', int(e[1].partition(':')[0] or 0)))
    return out


def sink_letters(sc):
    return [c for c, _ in sink_info(sc)]


def has_sharing(sc):
    return any(a is not None for _, a in sink_info(sc))


def well_formed(sc):
    """every alias points to an EARLIER sink with a file of its own (a candidate of the shrinker may have lost it)"""
    info = sink_info(sc)
    return all(a is None or (a < k and info[a][1] is None and info[a][0] in 'FRD') for k, (_, a) in enumerate(info))


def tmp_records(sc):
    return sum(int(e[1].partition(':')[2] or 0) for e in events(sc.get('msgs', '-')) if e[0] == '&')


def nsinks(tree):
    t = MODEL_TREE.get(tree, tree)
    return sum(1 for c in t if c in SINK_LETTERS)


def broken_sinks(tree):
    t = MODEL_TREE.get(tree, tree)
    return [k for k, c in enumerate(c for c in t if c in SINK_LETTERS) if c == 'B']


def gone_of(layout):
    """sink numbers the model marks G: no longer part of the configuration when the process dies"""
    if not layout or layout == '?':
        return set()
    return {k for k, f in enumerate(layout.split(';')) if f == 'G'}


# a line of the one-line front-end (PrettyFormatter: time, type letter, a thread field "T<n> " / blanks once a second
# thread has logged, message) whose message is empty or blank; the number of blanks cannot be told from the thread field
FRONT_BLANK = re.compile(rb'^\d{2}\.\d{2}\.\d{4} \d{2}:\d{2}:\d{2} [ IWEF] (?:T\d+ )? *$')


def read_sink(d, k, sc, hint=()):
    """record ids found in the file(s) named after sink k, in file order, and defects of the bytes (partial / foreign
    lines).  A record with an empty or blank text carries no id, and two such records with the same text cannot be
    told apart: the line is attributed to a message of the history that has exactly this text - first to one the
    file is supposed to hold (hint: the ids demanded of this file) and does not hold yet, later ids first after
    earlier ones; else to any other such message (so a surplus or a missing line still shows)."""
    sizes = [s for _, s in expand(sc['msgs'])] + [sc['fatalsize']]
    ntmp = tmp_records(sc)
    blank = {i: text_of(i, sz) for i, sz in enumerate(sizes) if sz <= 0}
    base = 's%d' % k
    letters = sink_letters(sc)
    if k < len(letters) and letters[k] == 'K':   # named after the last k sink before it: ws<j>.log
        js = [j for j in range(k) if letters[j] == 'k']
        base = 'ws%d' % (js[-1] if js else k + 1)
    used = {}
    want = {}
    for i in hint:
        want[i] = want.get(i, 0) + 1
    rot = []
    # rotated files <base>.<date>.<n>.log, with the Compression option <base>.<date>.<n>.log.gz (read gunzipped)
    for p in glob.glob(os.path.join(d, base + '.*.log')) + glob.glob(os.path.join(d, base + '.*.log.gz')):
        m = re.match(r'w?s\d+\.(\d{4}-\d{2}-\d{2})\.(\d+)\.log(\.gz)?$', os.path.basename(p))
        if m:
            rot.append((m.group(1), int(m.group(2)), p))
    paths = [p for _, _, p in sorted(rot) if not os.path.isdir(p)] + [os.path.join(d, base + '.log')]
    front = sc['tree'].startswith('ONE')
    ids, defects, last = [], [], -1
    for p in paths:
        try:
            data = open(p, 'rb').read()
            if p.endswith('.gz'):
                try:
                    data = gzip.decompress(data)
                except (OSError, EOFError, ValueError) as e:
                    defects.append('unreadable archive %s (%s)' % (os.path.basename(p), type(e).__name__))
                    continue
        except FileNotFoundError:
            defects.append('missing file ' + os.path.basename(p))
            continue
        lines = data.split(b'\n')
        if lines[-1] != b'':
            defects.append('partial record at the end of ' + os.path.basename(p))
        for ln in lines[:-1]:
            if (FRONT_BLANK.match(ln) if front else ln.strip(b' ') == b''):
                cands = [i for i in blank if front or blank[i] == ln]
                if not cands:
                    defects.append('foreign line %r' % ln[:60]); continue
                wanted = [i for i in cands if used.get(i, 0) < want.get(i, 0)]
                pool = [i for i in wanted if i > last] or wanted or [i for i in cands if i > last] or cands
                i = min(pool, key=lambda j: (used.get(j, 0), j))
                used[i] = used.get(i, 0) + 1
                ids.append(i); last = i
                continue
            m = re.search(rb'(\d+):[a-z]*$', ln)
            i = int(m.group(1)) if m else -1
            if TMP_BASE <= i < TMP_BASE + ntmp:
                exp = text_of(i, 10)
            elif 0 <= i < len(sizes) and sizes[i] > 0:
                exp = text_of(i, sizes[i])
            else:
                defects.append('foreign line %r' % ln[:60]); continue
            if (front and not ln.endswith(b' ' + exp)) or (not front and ln != exp):
                defects.append('record %d corrupted (%d bytes, expected %d)' % (i, len(ln), len(exp)))
            ids.append(i)
            if i < TMP_BASE:
                last = i
    return ids, defects


def hint_of(layout):
    """per sink number, the ids a layout string (model / expected output) lists for its file"""
    out = {}
    if not layout or layout == '?':
        return out
    for k, f in enumerate(layout.split(';')):
        if f not in ('G', 'X', '?') and not f.startswith('='):
            try:
                out[k] = unranges(f)
            except ValueError:
                pass
    return out


def run_impl(impl, sc, gone=(), hint=None):
    d = tempfile.mkdtemp(prefix='c11_')
    try:
        p = subprocess.run([impl, d, sc['tree'], sc['end'], sc['thread'], sc['msgs'], str(sc['fatalsize'])],
                           stdout=subprocess.DEVNULL, stderr=subprocess.DEVNULL, timeout=300)
        files, raw, defects = [], [], []
        info = sink_info(sc)
        shared = {a for _, a in info if a is not None}
        # two records with the same blank text cannot be told apart: in a file several sinks wrote, their order then
        # says nothing (the oracle gets the sorted ids: same records the same number of times)
        btexts = [sz for sz in [x for _, x in expand(sc['msgs'])] + [sc['fatalsize']] if sz <= 0]
        ambiguous = len(set(btexts)) < len(btexts)
        for k, (c, a) in enumerate(info):
            if a is not None:  # logs to the file of sink a: reported there
                files.append('=%d' % a); raw.append('=%d' % a); continue
            if k in gone:      # no sink of the final configuration logs to this file
                files.append('G'); raw.append('G'); continue
            if c in 'Bk':     # /dev/full; a sink with a file-count limit (what it keeps is retention, C06)
                files.append('X'); raw.append('X'); continue
            ids, df = read_sink(d, k, sc, hint_of(hint).get(k, ()))
            # a file several sinks wrote: the order in which their streams interleave is not modelled (sorted for the
            # comparison with the model; the oracle gets the ids in file order)
            files.append(ranges(sorted(ids) if k in shared else ids))
            raw.append(ranges(sorted(ids) if k in shared and ambiguous else ids))
            defects += ['s%d: %s' % (k, x) for x in df]
        r = {'rc': p.returncode, 'files': ';'.join(files), 'defects': defects[:5]}
        if shared:
            r['files_oracle'] = ';'.join(raw)
        return r
    except subprocess.TimeoutExpired:
        return {'rc': 'timeout', 'files': '', 'defects': ['timeout']}
    finally:
        shutil.rmtree(d, ignore_errors=True)


def model_line(sc):
    return '%s %s %s %d' % (MODEL_TREE.get(sc['tree'], sc['tree']), sc['end'], sc['msgs'], sc['fatalsize'])


def scenarios(chk):
    rng, thorough = chk.rng, chk.tier == 'thorough'
    kinds = ['oF', 'oR', 'oFR', 'o(F)', 'oF(oR(F))', 'ONE', 'ONER', 'FLU', 'FLUN', 'oD', 'or', 'F',
             # filters in front of file sinks (some reject the fatal message), a full device before healthy sinks
             'FLUT', 'FLUC', 'FLUB', 'o(gF)F', 'onF', 'olF', 'o(eF)(xR)', 'oB(F)R',
             # null entries in the handler lists (initializer-list append)
             'oNFR', 'N(FN)NF']
    heavy_kinds = kinds if thorough else ['oF', 'oR', 'ONE', 'oF(oR(F))']
    out = []

    def add(tree, end, thread, ml, fs, origin):
        out.append({'tree': tree, 'end': end, 'thread': thread, 'msgs': compress(ml), 'fatalsize': fs, 'origin': origin})
    # the matrix of the design: kinds x preceding {0,1,3,2000} x sizes {10 B, 20 KiB} x thread
    for tree in kinds:
        for k in (0, 1, 3, 2000):
            for size in (10, 20480):
                if k == 2000 and size == 20480 and tree not in heavy_kinds:
                    continue
                for thread in ('main', 'sec'):
                    # message i has type "diwc"[i % 4], so that type filters split the history
                    add(tree, 'fatal', thread, [('m', size)] * k, 13 if size == 10 else size, 'matrix')
                if tree not in MODEL_TREE and k > 0:   # SIGKILL instead of qFatal: validates the buffering model
                    add(tree, 'kill', 'main', [('m', size)] * k, 13, 'matrix-kill')
    # another thread is inside the logger (slow handler, mutex held) when the fatal message is raised
    for tree, ml in (('SoF', [('m', 10)] * 3), ('oS(gF)R', [('m', 10)] * 4)):
        add(tree, 'fatal', 'busy', ml, 13, 'busy-logger')
    # a transient device fault before the fatal: one record may be lost, everything after it must be on disk
    for tree in ('oF', 'oFR', 'o(F)R'):
        for fsz in (20000, 10):
            add(tree, 'fatal', 'main', [('m', 10)] * 3 + [('z', fsz)] + [('m', 10)] * 3, 13, 'device-fault')
    add('ONE', 'fatal', 'sec', [('i', 10)] * 2 + [('z', 30000)] + [('w', 10)] * 2, 13, 'device-fault')
    # an explicit flush() at file position P, a size rotation, and the fatal record ending at position P of the new
    # file (fixed-length records: 100 bytes, limit 1000): a flush that trusts a remembered position must not skip
    for j in (1, 2, 3, 5):
        out.append({'tree': 'oq', 'end': 'fatal', 'thread': 'main', 'msgs': 'm99*%d,f,m99*9' % j, 'fatalsize': 99, 'origin': 'flush-then-rotation'})
    out.append({'tree': 'oFq', 'end': 'fatal', 'thread': 'sec', 'msgs': 'm99*2,f,m99*5,f,m99*14', 'fatalsize': 99, 'origin': 'flush-then-rotation'})
    # the rename of a rotation fails (a directory occupies the name): nothing already logged may be lost
    for tree, th in (('oQ', 'main'), ('ONEQ', 'main'), ('oQ(Q)F', 'sec')):
        add(tree, 'fatal', th, [('m', 99)] * 30, 13, 'blocked-rename')
    add('oQ', 'kill', 'main', [('m', 99)] * 25, 13, 'blocked-rename')
    # a rotating sink WITH the Compression option, a file name with a suffix (s<k>.log), no file-count limit, a small
    # size limit: >= 3 rotations on one date before the fatal message; every rotated file is an archive of its own
    # (<base>.<date>.<n>.log.gz), so everything logged before the fatal message is still in the files of the sink
    for tree, th, n in (('oZ', 'main', 40), ('ONEZ', 'main', 40), ('FLUZ', 'sec', 40), ('oZ(Z)F', 'sec', 55), ('oZ', 'main', 9)):
        add(tree, 'fatal', th, [('m', 99)] * n, 13, 'compressed-rotation')
    add('oZ', 'kill', 'main', [('m', 99)] * 35, 13, 'compressed-rotation')
    # a logger configured asynchronous that has become synchronous again (resetOwnThread(), event loop finished)
    for tree in ('ONEA1', 'ONEA2'):
        for ml in ([], [('m', 10)] * 3, [('m', 20480)] * 3):
            add(tree, 'fatal', 'main', ml, 13, 'became-synchronous')
    # the logger is RECONFIGURED at run time after an explicit flush(): the file sink is replaced (same number of
    # top-level handlers), or a file sink is added inside a nested pipeline that already exists; then a few small
    # messages (they stay in QFile's buffer) and the fatal one.  A flush that remembers which sinks it found at an
    # earlier call misses the new sink.  Controls: the same without the earlier flush, with 20 KiB messages, killed.
    def addraw(tree, end, thread, msgs, fs, origin):
        out.append({'tree': tree, 'end': end, 'thread': thread, 'msgs': msgs, 'fatalsize': fs, 'origin': origin})
    for tree, recfg in (('oF', '~:1,+:F'), ('oR', '~:1,+:R'), ('oF', '~:1,+:R'), ('oFR', '~:1,~:1,+:R,+:F'),
                        ('oF(l)', '+2:F'), ('oR(l)', '+2:R'), ('oF(oR(F))', '+2.2:F'), ('oF(l)', '~:1,+:(F)'),
                        ('FLU1', '!:,^:F'), ('FLU1', '!:,^:R'), ('FLUP', '^2:F'), ('FLUP', '^2:R'), ('FLUN', '^2:F'),
                        ('FLU', '!:,^:F,^:R')):
        for th in ('main', 'sec'):
            addraw(tree, 'fatal', th, 'm10*2,f,%s,m10*3' % recfg, 13, 'reconfigure-after-flush')
        addraw(tree, 'fatal', 'main', 'm10,f,m10,f,%s,m10*2,f,%s' % (recfg, 'm10*2' if thorough else 'm10'), 13, 'reconfigure-after-flush')
        addraw(tree, 'fatal', 'main', 'f,%s' % recfg, 13, 'reconfigure-after-flush')
        addraw(tree, 'fatal', 'main', 'm10*2,%s,m10*3' % recfg, 13, 'reconfigure')
        addraw(tree, 'fatal', 'main', 'm20480*2,f,%s,m20480*2,m10' % recfg, 20480, 'reconfigure-after-flush')
        if tree not in MODEL_TREE:
            addraw(tree, 'kill', 'main', 'm10*2,f,%s,m10*3' % recfg, 13, 'reconfigure-kill')
            addraw(tree, 'kill', 'main', 'm10*2,f,%s,m10*3,f,m10' % recfg, 13, 'reconfigure-kill')
    # EMPTY and whitespace-only texts (size 0 / -n): qFatal("%s", "") is a fatal message like any other, and an empty
    # or blank message before it is a record (a line of its own): every configuration x fatal text {empty, 2 blanks}
    for tree in kinds:
        for fs in (0, -2):
            for th in ('main', 'sec'):
                add(tree, 'fatal', th, [('m', 10), ('m', 0), ('m', -3), ('m', 10)], fs, 'blank-text')
        add(tree, 'fatal', 'main', [], 0, 'blank-text')
        add(tree, 'fatal', 'main', [('m', 0)] * 2 + [('m', -1)] * 2, 13, 'blank-text')
        if tree in heavy_kinds:
            add(tree, 'fatal', 'sec', [('m', 10)] * 300 + [('m', 0)], 0, 'blank-text')
        if tree not in MODEL_TREE:
            add(tree, 'kill', 'main', [('m', 10), ('m', 0), ('m', -3), ('m', 10)], 0, 'blank-text-kill')
    for tree in ('ONEA1', 'ONEA2', 'FLU1', 'FLUP'):
        add(tree, 'fatal', 'main', [('m', 10), ('m', 0), ('m', -3)], 0, 'blank-text')
    add('SoF', 'fatal', 'busy', [('m', 10), ('m', 0), ('m', 10)], 0, 'blank-text')
    # SEVERAL FILE SINKS ON ONE FILE (<letter>@<k> = a new sink on the file of sink k): the sink is replaced at run
    # time by a new one for the same file - the new one appended, then the old one removed (destroyed) -, both stay,
    # a nested pipeline gets a sink on the main file, a second short-lived Logger object logs to the same file and
    # goes out of scope (&k:n); then messages and the fatal one.  Controls: old sink destroyed first; SIGKILL.
    for tree, recfg in (('oF', '+:F@0,~:1'), ('oR', '+:R@0,~:1'), ('oF', '+:R@0,~:1'), ('oR', '+:F@0,~:1'),
                        ('oF', '+:F@0,m10,~:1'), ('oFR', '+:F@1,m10*2,~:2'), ('oF', '+:F@0'), ('oF', '+:(F@0)'),
                        ('oF(l)', '+2:F@0,m10,~:1'), ('oF(oR(F))', '+2.2:F@1,~2:1'), ('oD', '+:F@0,~:1'),
                        ('FLU1', '^:F@0,~:1'), ('FLU1', '^:R@0,m10,~:1'), ('FLUP', '^2:F@0'), ('FLU', '^:F@0,~:1,^:R@1,~:1'),
                        ('oF', '&0:2'), ('oF', '&0:0'), ('oR', '&0:1,+:F@0,~:1'), ('FLU1', '&0:3'), ('FLUN', '&1:2,&0:1'),
                        ('oF', '~:1,+:F@0'), ('FLU1', '!:,^:F@0'), ('oFF@0', 'f'), ('oFR@0(F@0)', '~:2')):
        for th in ('main', 'sec'):
            addraw(tree, 'fatal', th, 'm10*2,%s,m10*3' % recfg, 13, 'shared-file')
        addraw(tree, 'fatal', 'main', 'm10*2,f,%s,m10,f,m10' % recfg, 13, 'shared-file')
        addraw(tree, 'fatal', 'main', '%s,m0' % recfg, 0, 'shared-file')
        addraw(tree, 'fatal', 'main', 'm20480*2,%s,m20480*2,m10' % recfg, 20480, 'shared-file')
        if thorough:
            addraw(tree, 'fatal', 'sec', 'm1000*40,%s,m1000*40' % recfg, 13, 'shared-file')
        if tree not in MODEL_TREE:
            addraw(tree, 'kill', 'main', 'm10*2,%s,m10*3' % recfg, 13, 'shared-file-kill')
    # two rotating sinks in ONE directory, the file name of one ending with the name of the other (s0.log / ws0.log), the
    # shorter-named one with a file-count limit: its retention must not delete the rotated files of the other
    for tree, th in (('okK', 'main'), ('oKk', 'sec'), ('ok(K)F', 'main')):
        add(tree, 'fatal', th, [('m', 99)] * 80, 13, 'retention-of-a-neighbour')
    add('okK', 'kill', 'main', [('m', 99)] * 80, 13, 'retention-of-a-neighbour')
    # random trees and histories aimed at the case splits: buffer overflow (pre-flush), blocks above the
    # chunk size (bypass), exactly the chunk size, all message types, deeper nesting, several sinks
    def rtree(depth):
        s = ''
        for _ in range(rng.randint(1, 3)):
            c = rng.choice('FFRRDBooN((gnexly' if depth < 3 else 'FRDBoNgnexly')
            s += ('(' + rtree(depth + 1) + ')') if c == '(' else c
        return s
    n_rand = 400 if thorough else 48
    for n in range(n_rand):
        tree = rtree(0)
        if nsinks(tree) - len(broken_sinks(tree)) == 0 or nsinks(tree) > 5:
            tree = 'o' + tree[:12].replace('(', '').replace(')', '') + 'F'
        k = rng.choice([0, 1, 2, 5, 40, 300])
        ml = []
        for _ in range(k):
            size = rng.choice([8, 10, 100, 1000, 5000, CHUNK - 2, CHUNK - 1, CHUNK, CHUNK + 1, 20480, 40000, 0, -1, -5])
            ml.append((rng.choice('dwci'), size))
        fs = rng.choice([8, 13, 100, CHUNK - 1, CHUNK, 20480, 0, 0, -3])
        origin = 'random'
        if n % 3 == 1:
            # explicit flushes and reconfigurations at random places of the history
            ml = random_reconfiguration(rng, tree, ml)
            origin = 'random-reconfigure'
        add(tree, 'kill' if (n % 4 == 3 and k > 0) else 'fatal', rng.choice(['main', 'sec', 'qt']), ml, fs, origin)
    return out


def parse_shape(tree):
    """tree letters -> nested lists (a list = a pipeline)"""
    stack = [[]]
    for c in tree:
        if c == '(':
            new = []
            stack[-1].append(new); stack.append(new)
        elif c == ')':
            if len(stack) > 1:
                stack.pop()
        else:
            stack[-1].append(c)
    return stack[0]


def pipelines_of(shape, path=()):
    yield path, shape
    for i, h in enumerate(shape):
        if isinstance(h, list):
            yield from pipelines_of(h, path + (i,))


def random_reconfiguration(rng, tree, ml):
    """insert 1-3 reconfigurations (append a sink / a nested pipeline with a sink, remove a handler, replace a sink in
    place, clearSinks + sendToFile) and 0-2 explicit flushes; the shape is tracked so that the paths are valid"""
    shape = parse_shape(tree)
    total = len([c for c in tree if c in SINK_LETTERS])
    has_null = 'N' in tree
    ev = list(ml)
    # sinks with a file of their own that a later sink may share (letter@number: a new sink on the SAME file)
    own = [(k, c) for k, (c, a) in enumerate(parse_sinks(tree)) if a is None and c in 'FRD']
    state = {'total': total}

    def newsink(c):
        k = state['total']; state['total'] += 1
        if own and rng.random() < 0.4:
            c = c if c in 'FR' else 'F'
            return c, '%s@%d' % (c, rng.choice(own)[0])
        if c in 'FRD':
            own.append((k, c))
        return c, c
    # positions are drawn from the end so that the history after the last reconfiguration is often short
    items = []
    for _ in range(rng.randint(1, 3)):
        if state['total'] >= 7:
            break
        path, pl = rng.choice(list(pipelines_of(shape)))
        ps = '.'.join(map(str, path))
        kind = rng.choice(['append', 'append', 'replace', 'remove', 'nest', 'clear', 'sendto', 'replace-after', 'second-logger'])
        sinks_here = [i for i, h in enumerate(pl) if isinstance(h, str) and h in SINK_LETTERS]
        if kind == 'replace' and sinks_here:
            i = rng.choice(sinks_here)
            c, txt = newsink(rng.choice('FR'))
            del pl[i]; pl.append(c)
            items.append([('~', '%s:%d' % (ps, i)), ('+', '%s:%s' % (ps, txt))])
        elif kind == 'replace-after' and sinks_here:
            # the new sink first, then the old one goes (with a message in between half of the time)
            i = rng.choice(sinks_here)
            c, txt = newsink(rng.choice('FR'))
            pl.append(c); del pl[i]
            items.append([('+', '%s:%s' % (ps, txt))] + ([(rng.choice('dwci'), 10)] if rng.random() < 0.5 else []) + [('~', '%s:%d' % (ps, i))])
        elif kind == 'second-logger' and own:
            state['total'] += 1
            items.append([('&', '%d:%d' % (rng.choice(own)[0], rng.choice([0, 1, 3])))])
        elif kind == 'remove' and pl:
            i = rng.randrange(len(pl))
            if pl[i] != 'N':
                del pl[i]
            items.append([('~', '%s:%d' % (ps, i))])
        elif kind == 'nest':
            pre, letter = rng.choice([('', 'F'), ('g', 'F'), ('o', 'R')])
            c, txt = newsink(letter)
            pl.append(parse_shape('(' + pre + c + ')')[0])
            items.append([('+', '%s:(%s%s)' % (ps, pre, txt))])
        elif kind == 'clear' and not has_null:
            c, txt = newsink(rng.choice('FR'))
            pl[:] = [h for h in pl if not (isinstance(h, str) and h in SINK_LETTERS)] + [c]
            items.append([('!', '%s:' % ps), ('^', '%s:%s' % (ps, txt))])
        elif kind == 'sendto':
            c, txt = newsink(rng.choice('FR'))
            pl.append(c)
            items.append([('^', '%s:%s' % (ps, txt))])
        else:
            c, txt = newsink(rng.choice('FFRD'))
            pl.append(c)
            items.append([('+', '%s:%s' % (ps, txt))])
    # place the groups in order at increasing positions; a flush in front of the first group half of the time
    pos = sorted(rng.randint(0, len(ev)) for _ in items)
    if items and rng.random() < 0.6:
        pos = [max(pos[0], len(ev) - rng.randint(0, 4))] + pos[1:]
        pos.sort()
    res, k = [], 0
    flush_first = rng.random() < 0.7
    for i in range(len(ev) + 1):
        while k < len(items) and pos[k] == i:
            if (k == 0 and flush_first) or rng.random() < 0.2:
                res.append(('f', 0))
            res += items[k]; k += 1
        if i < len(ev):
            res.append(ev[i])
    return res


def boundary_hits(sc):
    """which case splits of write/qfile_policy the scenario exercises (on a plain sink)"""
    buf, pre, bypass, exact = 0, 0, 0, 0
    for _, s in expand(sc['msgs']) + ([('f', sc['fatalsize'])] if sc['end'] == 'fatal' else []):
        ln = abs(s) + 1
        if buf + ln > CHUNK:
            pre += 1 if buf else 0
            buf = 0
        if ln > CHUNK:
            bypass += 1
        else:
            buf += ln
        exact += ln == CHUNK
    return pre, bypass, exact


def reconf_after_flush(sc):
    seen = False
    for e in events(sc['msgs']):
        if e[0] == 'f':
            seen = True
        elif e[0] in OPS and seen:
            return True
    return False


def replaced_on_same_file(sc):
    """a sink on an existing sink's file is added and a handler is removed afterwards"""
    seen = False
    for e in events(sc['msgs']):
        if e[0] in '+^' and '@' in e[1]:
            seen = True
        elif e[0] in '~!' and seen:
            return True
    return False


def thorough_tier(chk):
    return chk.tier == 'thorough'


def run():
    chk = vlib.Check('C11')
    chk.trusted = ['Coq 8.16.1 kernel; vm_compute on the closed terms cfg_goodb src_fatal_cfg and the refutation witnesses; no native_compute',
                   'axioms: none (every Print Assumptions: Closed under the global context)',
                   'tools/s2c/fatal.py translator (logger.cpp, simplepipeline.cpp, sinks/{filesink,iodevicesink,rotatingfilesink}.cpp -> SrcFatal.v)',
                   'extraction ExtrOcamlBasic, no Extract Constant; ocaml/drv_fatal.ml',
                   'harness/h_fatal.cpp, the log-file reader of checks/c11.py',
                   'modelled, not verified: QFile write buffering, the kernel page cache surviving abort(), Qt aborting after the handler returns']
    chk.assumptions = ['synchronous logger (own thread not running; by construction in the QTLOGGER_NO_THREAD configuration, which is built and run as well)',
                       'reconfigurations happen between two messages (not concurrently with logging), through Pipeline::append / remove, '
                       'SimplePipeline::sendToFile and SortedPipeline::clearSinks (the latter on pipelines without null entries); a sink removed '
                       'from the logger is no longer one of its file sinks and its file is not checked',
                       'filters are stateless predicates of the message (function, level, category, regexp filters); a duplicate filter is outside the model',
                       'a file sink on a device that keeps nothing (/dev/full) has no file to check; it must not keep other sinks from being flushed',
                       'process death, not power loss: data handed to the kernel by write() counts as in the file',
                       'transient device faults (z messages: file size limit 0 for one message, after a flush) are in the model as a reject '
                       'oracle: the rejected record is lost iff it bypasses QFile\'s buffer (> 16 KiB), every other record must be on disk',
                       'rotation (64 KiB scenarios) conserves records across the rotated files (C05); their concatenation is compared',
                       'several file sinks on one file: each has its own QFile (descriptor opened for appending, own buffer); the ORDER in which '
                       'their streams interleave in the file is not modelled: the model is compared on the sorted ids, the oracle demands the same '
                       'records the same number of times and every stream as a subsequence of the file; a sink that leaves the configuration is '
                       'destroyed (the harness keeps no reference), which closes and so flushes its QFile',
                       'records with an empty / blank text carry no id: two with the same text are told apart only by position, with what the '
                       'file is supposed to hold as a hint (a missing or surplus line still shows); behind the one-line front-end the number of '
                       'blanks of a blank text is not checked (PrettyFormatter pads a thread field with blanks)']
    chk.proof(vlib.proof_leg('Properties_C11', ['fatal']))
    model = vlib.build_model('fatal')
    impl = vlib.build_harness('fatal')
    scs = scenarios(chk)
    lines = [model_line(s) for s in scs]
    rcm, out_m, err_m = vlib.run_lines(model, lines)
    if rcm != 0 or len(out_m) != len(scs):
        chk.broke('the extracted model crashed', {'kind': 'model-crash', 'stderr': err_m[-500:]})
        out_m = out_m + ['?'] * (len(scs) - len(out_m))
    # oracle on the implementation's files (fatal scenarios only: the property speaks of a fatal message)
    fat = [i for i, s in enumerate(scs) if s['end'] == 'fatal']
    _, exp_all, _ = vlib.run_lines(model, [model_line(scs[i]) for i in fat], ['expected'])
    exp_of = dict(zip(fat, exp_all))
    # (what the property demands / the model predicts is only a HINT for telling records with the same blank text apart)
    with concurrent.futures.ThreadPoolExecutor(max_workers=min(8, vlib.NCPU)) as ex:
        res = list(ex.map(lambda i: run_impl(impl, scs[i], gone_of(out_m[i]), exp_of.get(i) or out_m[i]), range(len(scs))))
    for i in fat:
        res[i]['files_raw'] = res[i]['files']
        # the model now predicts the fate of a record written during a device fault (lost iff it bypasses the buffer);
        # the one-line front-end adds a time stamp of unknown length, so only there the record is still forgiven
        if scs[i]['tree'].startswith('ONE'):
            res[i]['files'] = forgive_faults(res[i]['files'], exp_of.get(i), fault_ids(scs[i]))
    _, verdicts, _ = vlib.run_lines(model, ['%s | %s' % (model_line(scs[i]), res[i].get('files_oracle') or res[i]['files']) for i in fat], ['oracle'])
    verdict = dict(zip(fat, verdicts))
    falsified, dis, wrong_death = [], [], []
    for i, (s, r, m) in enumerate(zip(scs, res, out_m)):
        want_rc = -6 if s['end'] == 'fatal' else -9
        if r['rc'] != want_rc:
            wrong_death.append(i)
        # after a fatal message the process must die by abort() (SIGABRT), not by another signal, and not survive
        bad = (s['end'] == 'fatal' and (verdict.get(i) != '1' or r['rc'] != -6)) or bool(r['defects'])
        if bad:
            falsified.append(i)
        if r['files'] != m:
            dis.append(i)

    def run_canon(sc, exe=None):
        _, ex, _ = vlib.run_lines(model, [model_line(sc)], ['expected'])
        r = run_impl(exe or impl, sc, gone_of(ex[0] if ex else None), ex[0] if ex else None)
        if sc['tree'].startswith('ONE'):
            r['files'] = forgive_faults(r['files'], ex[0] if ex else None, fault_ids(sc))
        return r, (ex[0] if ex else '?')

    def fails(sc, exe=None):
        if sc['thread'] == 'busy' and sc['msgs'] in ('-', ''):
            return False
        if not well_formed(sc):
            return False
        r, _ = run_canon(sc, exe)
        _, v, _ = vlib.run_lines(model, ['%s | %s' % (model_line(sc), r.get('files_oracle') or r['files'])], ['oracle'])
        return (sc['end'] == 'fatal' and (not v or v[0] != '1' or r['rc'] != -6)) or bool(r['defects'])

    def report_falsified(falsified_scs, exe, build, model_mode):
        """shrink the smallest falsified scenario on the given build of the library and report it"""
        sc = dict(min(falsified_scs, key=lambda x: (len(events(x['msgs'])), len(x['tree']))))
        sc.pop('origin', None)
        ml = vlib.shrink_list(events(sc['msgs']), lambda cand: fails(dict(sc, msgs=compress(cand)), exe), max_steps=40)
        sc['msgs'] = compress(ml)
        if sc['thread'] != 'main' and fails(dict(sc, thread='main'), exe):
            sc['thread'] = 'main'
        r, ex0 = run_canon(sc, exe)
        _, mo, _ = vlib.run_lines(model, [model_line(sc)], [model_mode])
        death = {-6: 'SIGABRT', -11: 'SIGSEGV', -9: 'SIGKILL'}.get(r['rc'], 'exit status %r' % (r['rc'],))
        chk.fail('after qFatal the files of the file sinks lack records that reached them: %stree %s (%s), history %s, fatal from the %s thread: '
                 'the process died by %s (abort after the fatal message = SIGABRT), files hold [%s], the property demands [%s] '
                 '(per file sink in creation order; X = sink on /dev/full, G = sink removed from the logger before the end)'
                 % ('library built with -DQTLOGGER_NO_THREAD: ' if build == 'nth' else '', sc['tree'], KIND_NAMES.get(sc['tree'], 'handler tree'),
                    sc['msgs'], sc['thread'], death, r['files'], ex0),
                 {'kind': 'records-missing-after-fatal', 'tree': sc['tree'], 'configuration': KIND_NAMES.get(sc['tree'], 'handler tree'),
                  'build': build or 'default', 'library_configuration': '-DQTLOGGER_NO_THREAD (single-threaded)' if build == 'nth' else 'default (threads)',
                  'end': sc['end'], 'thread': sc['thread'], 'msgs': sc['msgs'], 'fatalsize': sc['fatalsize'],
                  'records_in_files_per_sink': r['files'], 'expected_per_sink': ex0,
                  'tree_legend': 'F R r D file sinks, B file sink on /dev/full, g n e x l y filters (debug only, not fatal, even ids, odd ids, '
                                 '>= warning, category rule debug only), o formatter, N null handler entry, S handler sleeping 2 s on non-main '
                                 'threads, ( ) nested pipeline; message i has type diwc[i%4] for m; z = logged while the device rejects writes; '
                                 'f = explicit flush(); q/Q rotating sink with 1000-byte limit (Q: rename blocked); thread busy = last preceding message held inside the logger by a helper thread when main raises the fatal; '
                                 'reconfiguration between two messages: +<path>:<handler> append, ^<path>:F|R sendToFile, ~<path>:<k> remove the k-th handler, '
                                 '!<path>: clearSinks(); <path> = handler indices from the logger, joined by dots (empty = the logger); '
                                 'size 0 = the EMPTY text, size -n = a text of n blanks; <sink letter>@<k> = a NEW file sink on the file of sink k (reported as =k; '
                                 'the field of sink k lists the records of the file, sorted when several sinks wrote it); &<k>:<n> = a second Logger object with a '
                                 'file sink on the file of sink k logs n records (ids from 1000000) and goes out of scope',
                  'died_by': death,
                  'byte_defects': r['defects'], 'model_with_translated_source_predicts': mo[0] if mo else None,
                  'exit_status': r['rc'], 'falsified_scenarios': len(falsified_scs),
                  'how': 'build/h_fatal%s <dir> <tree> <end> <thread> <msgs> <fatalsize>; see harness/h_fatal.cpp' % ('.nth' if build == 'nth' else '')},
                 kind='records-missing-after-fatal')

    if falsified:
        report_falsified([scs[i] for i in falsified], impl, '', 'model')
    if dis:
        i = min(dis, key=lambda j: len(expand(scs[j]['msgs'])))
        chk.broke('correspondence: model (with the translated source) and the real files differ in %d scenarios, e.g. %s: files [%s], model [%s]'
                  % (len(dis), json.dumps({k: scs[i][k] for k in ('tree', 'end', 'thread', 'msgs', 'fatalsize')}), res[i]['files'], out_m[i]),
                  dict(scs[i], kind='correspondence', implementation=res[i]['files'], model=out_m[i]))
    wrong_death = [i for i in wrong_death if scs[i]['end'] != 'fatal']
    if wrong_death and not falsified:
        i = wrong_death[0]
        chk.broke('harness did not die as scripted (exit status %r) in %d scenarios' % (res[i]['rc'], len(wrong_death)),
                  dict(scs[i], kind='harness', exit_status=res[i]['rc']))

    # ---- the documented single-threaded configuration: library and harness built with -DQTLOGGER_NO_THREAD ----
    # (a NO_THREAD logger is synchronous by construction; only the main thread may log).  A representative part of
    # the scenarios: every front-end and tree kind, below/above QFile's buffer, reconfigurations, SIGKILL controls.
    nth = vlib.build_harness('fatal', 'nth')
    heavy_nth = ('oF', 'oR', 'ONE', 'FLU')
    sub_n = [i for i, s in enumerate(scs)
             if s['thread'] == 'main' and s['tree'] not in ('ONEA1', 'ONEA2') and 'S' not in s['tree']
             and (thorough_tier(chk) or len(expand(s['msgs'])) <= 40 or (s['tree'] in heavy_nth and s['origin'] == 'matrix' and s['fatalsize'] == 13))]
    _, out_n, err_n = vlib.run_lines(model, [model_line(scs[i]) for i in sub_n], ['model-nth'])
    if len(out_n) != len(sub_n):
        chk.broke('the extracted model (NO_THREAD configuration) crashed', {'kind': 'model-crash', 'stderr': err_n[-500:]})
        out_n = out_n + ['?'] * (len(sub_n) - len(out_n))
    with concurrent.futures.ThreadPoolExecutor(max_workers=min(8, vlib.NCPU)) as ex:
        res_n = list(ex.map(lambda a: run_impl(nth, scs[a[0]], gone_of(a[1]), exp_of.get(a[0]) or a[1]), zip(sub_n, out_n)))
    fat_n = [(i, r) for i, r in zip(sub_n, res_n) if scs[i]['end'] == 'fatal']
    for i, r in fat_n:
        if scs[i]['tree'].startswith('ONE'):
            r['files'] = forgive_faults(r['files'], exp_of.get(i), fault_ids(scs[i]))
    _, verd_n, _ = vlib.run_lines(model, ['%s | %s' % (model_line(scs[i]), r.get('files_oracle') or r['files']) for i, r in fat_n], ['oracle'])
    verdict_n = {i: v for (i, _), v in zip(fat_n, verd_n)}
    fals_n, dis_n, death_n = [], [], []
    for i, r, m in zip(sub_n, res_n, out_n):
        s = scs[i]
        if s['end'] == 'fatal' and (verdict_n.get(i) != '1' or r['rc'] != -6) or r['defects']:
            fals_n.append(i)
        if r['files'] != m:
            dis_n.append(i)
        if s['end'] != 'fatal' and r['rc'] != -9:
            death_n.append(i)
    if fals_n:
        report_falsified([scs[i] for i in fals_n], nth, 'nth', 'model-nth')
    if dis_n:
        i = min(dis_n, key=lambda j: len(expand(scs[j]['msgs'])))
        k = sub_n.index(i)
        chk.broke('correspondence (library built with -DQTLOGGER_NO_THREAD): model (source as compiled in that configuration) and the real files differ in %d scenarios, e.g. %s: files [%s], model [%s]'
                  % (len(dis_n), json.dumps({k2: scs[i][k2] for k2 in ('tree', 'end', 'thread', 'msgs', 'fatalsize')}), res_n[k]['files'], out_n[k]),
                  dict(scs[i], kind='correspondence-no-thread', build='nth', implementation=res_n[k]['files'], model=out_n[k]))
    if death_n and not fals_n:
        i = death_n[0]
        chk.broke('NO_THREAD harness did not die as scripted (exit status %r) in %d scenarios' % (res_n[sub_n.index(i)]['rc'], len(death_n)),
                  dict(scs[i], kind='harness', build='nth', exit_status=res_n[sub_n.index(i)]['rc']))
    chk.cov['no_thread_build'] = {'scenarios': len(sub_n), 'fatal_scenarios_oracle_evaluated': len(fat_n), 'oracle_falsified': len(fals_n),
                                  'disagreements_model_vs_impl': len(dis_n),
                                  'by_origin': {o: sum(1 for i in sub_n if scs[i]['origin'] == o) for o in sorted({scs[i]['origin'] for i in sub_n})},
                                  'with_more_than_16KiB_buffered_or_bypass': sum(1 for i in sub_n if any(boundary_hits(scs[i])[:2])),
                                  'with_reconfiguration': sum(1 for i in sub_n if any(e[0] in OPS for e in events(scs[i]['msgs'])))}
    if thorough_tier(chk):
        # the single-header distribution (qtlogger.h) must behave the same: small scenarios of the matrix
        hdr = vlib.build_harness('fatal', 'hdr')
        sub = [i for i, s in enumerate(scs) if s['origin'] != 'random' and len(expand(s['msgs'])) <= 3]
        with concurrent.futures.ThreadPoolExecutor(max_workers=min(8, vlib.NCPU)) as ex:
            res_h = list(ex.map(lambda i: run_impl(hdr, scs[i], gone_of(out_m[i]), exp_of.get(i) or out_m[i]), sub))
        bad_h = [i for i, r in zip(sub, res_h) if r['files'] != res[i]['files'] or r['defects']]
        chk.cov['header_only_scenarios'] = len(sub)
        chk.cov['header_only_differences'] = len(bad_h)
        if bad_h:
            i = bad_h[0]
            chk.broke('the header-only build (qtlogger.h) leaves different files than the library build in %d scenarios, e.g. %s'
                      % (len(bad_h), json.dumps({k: scs[i][k] for k in ('tree', 'end', 'thread', 'msgs', 'fatalsize')})),
                      dict(scs[i], kind='header-only-differs', library=res[i]['files']))
    not_reached = sum(1 for i, e in zip(fat, exp_all) if any(f != 'X' and not f.endswith(str(len(expand(scs[i]['msgs'])))) for f in e.split(';')))
    hits = [boundary_hits(s) for s in scs]
    nontriv = {(s['tree'], s['end'], s['thread'], s['msgs'], s['fatalsize']) for s in scs if s['end'] == 'fatal' and s['msgs'] != '-'}
    hist = lambda f: {str(k): sum(1 for s in scs if f(s) == k) for k in sorted({f(s) for s in scs}, key=str)}
    chk.cov.update({
        'evaluations': len(scs), 'distinct_nontrivial': len(nontriv),
        'rule': 'child processes of the real library: the design matrix (20 configurations incl. filters that reject the fatal message and a full device before healthy sinks x {0,1,3,2000} preceding messages x '
                '{10 B, 20 KiB} x fatal from main/secondary thread, plus the same killed by SIGKILL) and random handler trees/histories '
                'with sizes around QFile\'s 16 KiB chunk; non-trivial = distinct fatal scenario with at least one preceding message',
        'disagreements_model_vs_impl': len(dis), 'oracle_evaluated_on_impl_files': len(fat), 'oracle_falsified': len(falsified),
        'by_end': hist(lambda s: s['end']), 'by_thread': hist(lambda s: s['thread']), 'by_origin': hist(lambda s: s['origin']),
        'by_configuration': hist(lambda s: s['tree'] if s['origin'] != 'random' else 'random tree'),
        'by_preceding_messages': hist(lambda s: len(expand(s['msgs']))),
        'random_tree_sinks': hist(lambda s: nsinks(s['tree']) if s['origin'] == 'random' else 0),
        'random_tree_nested': sum(1 for s in scs if s['origin'] == 'random' and '(' in s['tree']),
        'scenarios_with_filter': sum(1 for s in scs if set(MODEL_TREE.get(s['tree'], s['tree'])) & set('gnexly')),
        'scenarios_with_null_handler_entry': sum(1 for s in scs if 'N' in s['tree'] and s['tree'] not in MODEL_TREE),
        'scenarios_with_transient_device_fault': sum(1 for s in scs if fault_ids(s)),
        'scenarios_with_explicit_flush': sum(1 for s in scs if any(e[0] == 'f' for e in events(s['msgs']))),
        'scenarios_with_reconfiguration': sum(1 for s in scs if any(e[0] in OPS for e in events(s['msgs']))),
        'scenarios_reconfigured_after_an_explicit_flush': sum(1 for s in scs if reconf_after_flush(s)),
        'reconfiguration_items': {k: sum(1 for s in scs for e in events(s['msgs']) if e[0] == k) for k in OPS},
        'scenarios_where_a_sink_left_the_configuration': sum(1 for m in out_m if 'G' in m.split(';')),
        'scenarios_with_empty_or_blank_text': sum(1 for s in scs if s['fatalsize'] <= 0 or any(sz <= 0 for _, sz in expand(s['msgs']))),
        'scenarios_with_empty_or_blank_fatal_text': hist(lambda s: 'empty' if s['fatalsize'] == 0 else 'blank' if s['fatalsize'] < 0 else 'text') ,
        'scenarios_with_several_sinks_on_one_file': sum(1 for s in scs if has_sharing(s)),
        'scenarios_with_second_short_lived_logger': sum(1 for s in scs if any(e[0] == '&' for e in events(s['msgs']))),
        'scenarios_new_sink_on_same_file_then_old_one_removed': sum(1 for s in scs if replaced_on_same_file(s)),
        'scenarios_with_blocked_rotation_rename': sum(1 for s in scs if 'Q' in s['tree']),
        'scenarios_logger_became_synchronous': sum(1 for s in scs if s['tree'] in ('ONEA1', 'ONEA2')),
        'scenarios_with_busy_logger': sum(1 for s in scs if s['thread'] == 'busy'),
        'fatal_scenarios_died_by_sigabrt': sum(1 for i in fat if res[i]['rc'] == -6),
        'scenarios_with_full_device_sink': sum(1 for s in scs if 'B' in MODEL_TREE.get(s['tree'], s['tree'])),
        'fatal_scenarios_where_some_sink_is_not_reached_by_the_fatal': not_reached,
        'boundary_hits': {'scenarios_with_buffer_overflow_flush': sum(1 for h in hits if h[0]),
                          'scenarios_with_block_above_chunk': sum(1 for h in hits if h[1]),
                          'scenarios_with_block_exactly_chunk': sum(1 for h in hits if h[2]),
                          'scenarios_everything_fits_buffer': sum(1 for h in hits if not h[0] and not h[1])},
        'bytes_logged_total': sum(sum(abs(sz) + 1 for _, sz in expand(s['msgs'])) * nsinks(s['tree']) for s in scs)})
    heavy = max(range(len(scs)), key=lambda i: (scs[i]['end'] == 'kill', len(expand(scs[i]['msgs']))))
    pick = [0, len(scs) // 3, heavy, len(scs) - 1]
    chk.samples = [dict({k: scs[i][k] for k in ('tree', 'end', 'thread', 'msgs', 'fatalsize')}, files=res[i]['files'], model=out_m[i],
                        exit_status=res[i]['rc']) for i in pick]
    return chk.finish()


def replay(path):
    r = json.load(open(path))['replay']
    if isinstance(r, list):
        r = next((x for x in r if isinstance(x, dict) and x.get('tree')), r[0])
    if not r.get('tree'):
        print(json.dumps(r, indent=1)); return 0
    vlib.gen_src(['fatal'])
    build = r.get('build') if r.get('build') in ('nth', 'hdr', 'san') else ''
    model = vlib.build_model('fatal'); impl = vlib.build_harness('fatal', build) if build else vlib.build_harness('fatal')
    sc = {'tree': r['tree'], 'end': r.get('end', 'fatal'), 'thread': r.get('thread', 'main'), 'msgs': r.get('msgs', '-'),
          'fatalsize': int(r.get('fatalsize', 13))}
    demands = vlib.run_lines(model, [model_line(dict(sc, end='fatal'))], ['expected'])[1]
    res = run_impl(impl, sc, gone_of(demands[0] if demands else None), demands[0] if demands else None)
    print('scenario        ', json.dumps(sc), '(library built with -DQTLOGGER_NO_THREAD)' if build == 'nth' else '')
    print('implementation  ', res)
    print('model           ', vlib.run_lines(model, [model_line(sc)], ['model-nth' if build == 'nth' else 'model'])[1])
    print('property demands', demands)
    print('oracle on impl  ', vlib.run_lines(model, ['%s | %s' % (model_line(sc), res.get('files_oracle') or res['files'])], ['oracle'])[1])
    return 0
