"""C20 helper - "the header declares what the sources declare".

Oracle on the COMPILED text (comments gone, conditionals resolved, macros expanded):  g++ -E of
  (a) a translation unit that includes src/qtlogger/qtlogger.h followed by every library .cpp, and
  (b) a translation unit that includes the single header qtlogger.h,
under the same -D flags (the header-only user's: no QTLOGGER_STATIC/LIBRARY; QTLOGGER_DECL_SPEC=inline, which the
single header defines itself).  What comes from system / Qt headers is dropped through the line markers of the
preprocessor (only text whose presumed file lies below src/ resp. is qtlogger.h itself is kept).  The remaining
token streams are cut into namespace-scope declarations (same deterministic rule on both sides) and compared as
multisets of (namespace path, tokens).  Independent of the generator and of its Gallina model: a file body that
the generator pasted into a comment, dropped, duplicated or emitted under another condition shows up as a
declaration that the header lacks / has in excess."""
import bisect, os, re, tempfile, shutil
import vlib

TOKEN = re.compile(r'''
    (?P<ws>\s+)
  | (?P<raw>(?:u8|u|U|L)?R"(?P<delim>[^()\\\s]{0,16})\((?:.|\n)*?\)(?P=delim)")
  | (?P<str>(?:u8|u|U|L)?"(?:[^"\\\n]|\\.)*")
  | (?P<chr>(?:u8|u|U|L)?'(?:[^'\\\n]|\\.)+')
  | (?P<id>[A-Za-z_$][A-Za-z0-9_$]*)
  | (?P<num>\.?[0-9](?:[eEpP][+-]|[0-9A-Za-z_.']|)*)
  | (?P<op><=>|->\*|<<=|>>=|\.\.\.|::|->|\+\+|--|<<|>>|<=|>=|==|!=|&&|\|\||\+=|-=|\*=|/=|%=|&=|\|=|\^=|\#\#|.)
''', re.X)

MARK = re.compile(r'#\s*(?:line\s+)?(\d+)\s+"((?:[^"\\]|\\.)*)"')


def own_text(pp_output, is_own):
    """(text, index) of the lines of a g++ -E output whose presumed file satisfies is_own; index maps offsets to (file, line)"""
    cur, ln, own = None, 0, False
    parts, starts, where, off = [], [], [], 0
    cache = {}
    for line in pp_output.split('\n'):
        m = MARK.match(line) if line.startswith('#') else None
        if m:
            cur, ln = m.group(2), int(m.group(1)) - 1
            if cur not in cache:
                cache[cur] = is_own(cur)
            own = cache[cur]
            continue
        ln += 1
        if own and line.strip():
            starts.append(off)
            where.append((cur, ln))
            parts.append(line)
            off += len(line) + 1
    return '\n'.join(parts), (starts, where)


def canon_file_line(toks, roots):
    """__FILE__ / __LINE__ (e.g. inside Qt's SIGNAL()/SLOT() under QT_DEBUG, Q_ASSERT) necessarily differ between a source file and the
    single header: a string literal naming a file of the tree becomes "<file>", a number within the three tokens after it "<line>" """
    out, since = [], 99
    for t, w in toks:
        since += 1
        if t.startswith('"') and any(t[1:].startswith(r) for r in roots):
            t, since = '"<file>"', 0
        elif since <= 3 and re.fullmatch(r'"?\d+"?', t):
            t = '"<line>"'
        out.append((t, w))
    return out


def tokens_of(text, index):
    """[(token, (file, line))]; a #pragma line that survived preprocessing is one token"""
    starts, where = index
    out, pos, n = [], 0, len(text)
    while pos < n:
        if text[pos] == '#' and (pos == 0 or text[pos - 1] == '\n'):
            e = text.find('\n', pos)
            e = n if e < 0 else e
            out.append((' '.join(text[pos:e].split()), where[bisect.bisect_right(starts, pos) - 1]))
            pos = e
            continue
        m = TOKEN.match(text, pos)
        if not m:
            pos += 1
            continue
        if m.group('ws') is None:
            out.append((m.group(0), where[bisect.bisect_right(starts, pos) - 1]))
        pos = m.end()
    return out


CLASS_KEYS = {'class', 'struct', 'union', 'enum'}


def declarations(toks):
    """namespace-scope declarations: [(namespace path, (tokens...), (file, line))].  namespace X { and extern "C" { are
    transparent; a declaration ends at ';' outside braces/parentheses or at the '}' that closes a function body"""
    decls, ns, cur, first = [], [], [], None
    brace = paren = 0
    i, n = 0, len(toks)

    def flush():
        nonlocal cur, first
        if cur:
            decls.append(('::'.join(ns), tuple(cur), first))
        cur, first = [], None

    def looks_like_function():
        d = p = 0
        lead = [t for t in cur[:6]]
        k = 0
        if lead and lead[0] == 'template':
            return True if '(' in cur else False
        for t in cur:
            if t == '{' and d == 0 and p == 0:
                return False
            if t in CLASS_KEYS and d == 0 and p == 0:
                return False
            if t == '(' and d == 0 and p == 0:
                prev = cur[k - 1] if k else ''
                if prev not in ('__attribute__', 'alignas', '__declspec', 'decltype', 'noexcept'):
                    return True
            if t == '(':
                p += 1
            elif t == ')':
                p -= 1
            elif t == '{':
                d += 1
            elif t == '}':
                d -= 1
            k += 1
        return False
    while i < n:
        t, w = toks[i]
        if not cur and brace == 0:
            if t.startswith('#'):
                decls.append(('::'.join(ns), (t,), w))
                i += 1
                continue
            # namespace [a::b] {     /  inline namespace x {   / extern "C" {
            j = i + 1 if t == 'inline' and i + 1 < n and toks[i + 1][0] == 'namespace' else i
            if toks[j][0] == 'namespace':
                k, name = j + 1, []
                while k < n and (re.match(r'[A-Za-z_]', toks[k][0]) or toks[k][0] == '::') and toks[k][0] not in ('=',):
                    name.append(toks[k][0])
                    k += 1
                if k < n and toks[k][0] == '{':
                    ns.append(''.join(name) or '(anonymous)')
                    i = k + 1
                    continue
            if t == 'extern' and i + 2 < n and toks[i + 1][0].startswith('"') and toks[i + 2][0] == '{':
                ns.append('extern ' + toks[i + 1][0])
                i += 3
                continue
            if t == '}':
                if ns:
                    ns.pop()
                i += 1
                continue
            if t == ';':
                i += 1
                continue
        if not cur:
            first = w
        cur.append(t)
        if t == '{':
            brace += 1
        elif t == '(':
            paren += 1
        elif t == ')':
            paren = max(0, paren - 1)
        elif t == '}':
            brace = max(0, brace - 1)
            if brace == 0 and paren == 0:
                nxt = toks[i + 1][0] if i + 1 < n else ''
                if nxt == ';':
                    cur.append(';')
                    i += 1
                    flush()
                elif looks_like_function_cached(cur, looks_like_function):
                    flush()
                elif not (re.match(r'[A-Za-z_*&]', nxt) or nxt in (',', '=', '(', '[', '.')):
                    flush()
        elif t == ';' and brace == 0 and paren == 0:
            flush()
        i += 1
    flush()
    return decls


def looks_like_function_cached(cur, f):
    return f()


SKIP_NAMES = {'__attribute__', 'alignas', '__declspec', 'final', 'const', 'noexcept', 'override', 'inline', 'static', 'constexpr', 'extern',
              'explicit', 'virtual', 'typename', 'template', 'friend', 'mutable', 'volatile', 'unsigned', 'signed', 'operator'}


def declared_name(tokens):
    """(name, qualified?) the declaration introduces - a heuristic, used to build a probe program and for the message"""
    t = list(tokens)
    # drop  template < ... >
    if t and t[0] == 'template' and len(t) > 1 and t[1] == '<':
        d, k = 0, 1
        while k < len(t):
            d += t[k] == '<'
            d -= t[k] == '>'
            if t[k] == '>>':
                d -= 2
            k += 1
            if d <= 0:
                break
        t = t[k:]
    # drop  __attribute__ (( ... ))  /  alignas( ... )
    out, k = [], 0
    while k < len(t):
        if t[k] in ('__attribute__', 'alignas', '__declspec') and k + 1 < len(t) and t[k + 1] == '(':
            d, k = 0, k + 1
            while k < len(t):
                d += t[k] == '('
                d -= t[k] == ')'
                k += 1
                if d == 0:
                    break
            continue
        out.append(t[k])
        k += 1
    t = out
    ident = lambda x: bool(re.fullmatch(r'[A-Za-z_]\w*', x))
    if t and t[0] == 'using' and len(t) > 2 and ident(t[1]) and t[2] == '=':
        return t[1], False
    if t and t[0] == 'typedef':
        ids = [x for x in t if ident(x)]
        return (ids[-1] if ids else None), False
    for k, x in enumerate(t):
        if x in CLASS_KEYS and (k == 0 or t[k - 1] in ('typedef', 'static', 'const', 'inline', 'extern', 'constexpr', 'friend')):
            j = k + 1
            if j < len(t) and t[j] in ('class', 'struct'):
                j += 1
            if j < len(t) and ident(t[j]) and t[j] not in SKIP_NAMES:
                nxt = t[j + 1] if j + 1 < len(t) else ';'
                if nxt in ('{', ':', ';', 'final'):
                    return t[j], False
            break
    d = 0
    for k, x in enumerate(t):
        if x in ('(', '=', '{', ';', '[') and d == 0:
            j = k - 1
            while j >= 0 and not ident(t[j]):
                j -= 1
            if j >= 0 and t[j] not in SKIP_NAMES:
                return t[j], (j > 0 and t[j - 1] == '::')
            return None, False
        d += x == '<'
        d -= (x == '>') + 2 * (x == '>>')
    return None, False


def readable(tokens, limit=220):
    s = ' '.join(tokens)
    s = re.sub(r'__attribute__ \( \( visibility \( "default" \) \) \) ', '', s)
    s = re.sub(r' ?:: ?', '::', s)
    s = re.sub(r' ([,;)\]])', r'\1', re.sub(r'([(\[]) ', r'\1', s))
    return s if len(s) <= limit else s[:limit] + ' ...'


def library_cpps(repo):
    root = os.path.join(repo, 'src', 'qtlogger')
    out = []
    for d, dirs, fs in os.walk(root):
        dirs[:] = [x for x in dirs if x != 'build' and not x.startswith('.')]
        out += [os.path.join(d, f) for f in fs if f.endswith('.cpp') and not f.startswith('.')]
    return sorted(out)


def preprocess(args, timeout=600):
    rc, so, se = vlib.sh(['g++', '-std=c++17', '-fPIC', '-w', '-E', '-x', 'c++'] + args, timeout=timeout)
    return rc, so, se


def compare(repo, defs, cflags, workdir):
    """-> dict(ok, error, n_src, n_hdr, missing=[decl...], extra=[decl...]) for one set of -D flags"""
    repo_r = os.path.realpath(repo)
    src_root = os.path.join(repo_r, 'src') + os.sep
    hdr = os.path.join(repo_r, 'qtlogger.h')
    umbrella = os.path.join(repo_r, 'src', 'qtlogger', 'qtlogger.h')
    cpps = library_cpps(repo_r)
    a = os.path.join(workdir, 'c20_all_sources.cpp')
    with open(a, 'w') as f:
        f.write('#include "%s"\n' % umbrella + ''.join('#include "%s"\n' % c for c in cpps))
    b = os.path.join(workdir, 'c20_user.cpp')
    with open(b, 'w') as f:
        f.write('#include "qtlogger.h"\n')
    D = ['-D' + d for d in defs]
    rc1, so1, se1 = preprocess(D + ['-DQTLOGGER_DECL_SPEC=inline', '-I' + os.path.join(repo_r, 'src'), '-I' + os.path.join(repo_r, 'src', 'qtlogger')] + cflags + [a])
    rc2, so2, se2 = preprocess(D + ['-I' + repo_r] + cflags + [b])
    if rc1 != 0 or rc2 != 0:
        err = lambda se: ([l for l in se.splitlines() if 'error' in l] or [se.strip()[:200]])[0][:240]
        return {'ok': False, 'sources_preprocess': rc1 == 0, 'header_preprocess': rc2 == 0, 'error': err(se1 if rc1 else se2)}
    own_a = lambda p: os.path.realpath(p).startswith(src_root)
    own_b = lambda p: os.path.realpath(p) == hdr
    roots = sorted({repo_r + os.sep, os.path.abspath(repo) + os.sep, workdir + os.sep})
    da = declarations(canon_file_line(tokens_of(*own_text(so1, own_a)), roots))
    db = declarations(canon_file_line(tokens_of(*own_text(so2, own_b)), roots))
    ca, cb = {}, {}
    for ns, tk, w in da:
        ca.setdefault((ns, tk), []).append(w)
    for ns, tk, w in db:
        cb.setdefault((ns, tk), []).append(w)
    missing, extra = [], []
    for ns, tk, w in da:          # in source order
        k = (ns, tk)
        if len(ca[k]) > len(cb.get(k, [])) and not any(m['key'] == k for m in missing):
            missing.append({'key': k, 'namespace': ns, 'tokens': tk, 'in_sources': len(ca[k]), 'in_header': len(cb.get(k, [])),
                            'declared_at': '%s:%d' % (os.path.relpath(os.path.realpath(w[0]), repo_r), w[1])})
    for ns, tk, w in db:
        k = (ns, tk)
        if len(cb[k]) > len(ca.get(k, [])) and not any(m['key'] == k for m in extra):
            extra.append({'key': k, 'namespace': ns, 'tokens': tk, 'in_sources': len(ca.get(k, [])), 'in_header': len(cb[k]),
                          'declared_at': 'qtlogger.h:%d' % w[1]})
    return {'ok': True, 'n_src': len(da), 'n_hdr': len(db), 'n_src_tokens': sum(len(t) for _, t, _ in da), 'n_hdr_tokens': sum(len(t) for _, t, _ in db),
            'namespaces': sorted({ns for ns, _, _ in da})[:12], 'missing': missing, 'extra': extra, 'cpps': len(cpps)}


PROBE = '''#ifdef C20_HEADER_ONLY
#include "qtlogger.h"
#else
#include "qtlogger/qtlogger.h"
#endif
using %s;
int main() { return 0; }
'''


def probe_program(repo, qualified_name, defs, cflags, workdir):
    """the smallest user program that needs the declaration: compiled against the library sources and header-only"""
    p = os.path.join(workdir, 'c20_probe.cpp')
    text = PROBE % qualified_name
    open(p, 'w').write(text)
    D = ['-D' + d for d in defs]
    base = ['g++', '-std=c++17', '-fPIC', '-w', '-fsyntax-only']
    r1 = vlib.sh(base + D + ['-DQTLOGGER_STATIC', '-I' + os.path.join(repo, 'src'), '-I' + os.path.join(repo, 'src', 'qtlogger')] + cflags + [p], timeout=600)
    r2 = vlib.sh(base + D + ['-DC20_HEADER_ONLY', '-I' + repo] + cflags + [p], timeout=600)
    err = lambda r: ([l for l in r[2].splitlines() if 'error' in l] or [''])[0][-240:]
    return {'program': text, 'library_build_compiles': r1[0] == 0, 'header_only_compiles': r2[0] == 0,
            'library_error': err(r1), 'header_only_error': err(r2)}


def declarations_leg(chk, repo, configs, cflags):
    """configs: list of lists of feature macros (same on both sides)"""
    work = tempfile.mkdtemp(prefix='c20_decl_')
    cov = {'configurations': [], 'declarations_compared': 0}
    n = 0
    reported = set()
    try:
        for F in configs:
            r = compare(repo, F, cflags, work)
            name = ' '.join(F) or '(no feature macro)'
            if not r['ok']:
                cov['configurations'].append({'macros': name, 'preprocessable_here': False, 'note': r['error']})
                if r['sources_preprocess'] != r['header_preprocess']:
                    chk.broke('with -D%s only one of {all sources, single header} can be preprocessed: %s' % (name, r['error']),
                              {'kind': 'declarations-preprocess', 'macros': F, 'error': r['error']})
                continue
            n += 1
            cov['declarations_compared'] += r['n_src']
            cov['configurations'].append({'macros': name, 'declarations_in_sources': r['n_src'], 'declarations_in_header': r['n_hdr'],
                                          'tokens_in_sources': r['n_src_tokens'], 'tokens_in_header': r['n_hdr_tokens'], 'library_cpps': r['cpps'],
                                          'namespaces': r['namespaces'], 'header_lacks': len(r['missing']), 'header_has_in_excess': len(r['extra'])})
            for which, lst, kind in (('lacks', r['missing'], 'header-lacks-declaration'), ('has in excess', r['extra'], 'header-has-extra-declaration')):
                if not lst or (kind, lst[0]['key']) in reported:
                    continue
                m = lst[0]
                reported.add((kind, m['key']))
                nm, qual = declared_name(m['tokens'])
                probe = None
                if kind == 'header-lacks-declaration' and nm and not qual and m['namespace'] and '(anonymous)' not in m['namespace'] and 'extern' not in m['namespace']:
                    probe = probe_program(repo, m['namespace'] + '::' + nm, F, cflags, work)
                others = []
                for x in lst[1:8]:
                    on, _ = declared_name(x['tokens'])
                    others.append('%s (%s)' % (on or readable(x['tokens'], 60), x['declared_at']))
                what = ('the compiled text of qtlogger.h %s a declaration of the sources%s: namespace %s: %s  [%s; %d x in the sources, %d x in the header]%s%s'
                        % (which, (' with -D' + ' -D'.join(F)) if F else '', m['namespace'] or '(global)', readable(m['tokens']), m['declared_at'], m['in_sources'], m['in_header'],
                           ('; a program that only says "using %s::%s;" compiles against the library sources: %s, against the single header: %s%s'
                            % (m['namespace'], nm, probe['library_build_compiles'], probe['header_only_compiles'],
                               (' (' + probe['header_only_error'] + ')') if probe['header_only_error'] else '')) if probe else '',
                           ('; also: ' + ', '.join(others)) if others else ''))
                rep = {'kind': kind, 'declaration': readable(m['tokens'], 600), 'name': nm, 'namespace': m['namespace'], 'declared_at': m['declared_at'],
                       'occurrences_in_sources': m['in_sources'], 'occurrences_in_header': m['in_header'], 'feature_macros': F,
                       'all_differing': [{'name': declared_name(x['tokens'])[0], 'at': x['declared_at'], 'declaration': readable(x['tokens'], 120)} for x in lst[:20]],
                       'how': 'g++ -E (comments dropped) of {src/qtlogger/qtlogger.h + every library .cpp, -DQTLOGGER_DECL_SPEC=inline} vs {#include "qtlogger.h"}, same -D flags; '
                              'own text only (line markers); multiset of namespace-scope declarations - see checks/c20_decl.py'}
                if probe:
                    rep['probe'] = probe
                chk.fail(what, rep, kind=kind)
    finally:
        shutil.rmtree(work, ignore_errors=True)
    chk.cov['declarations_sources_vs_header'] = cov
    return n
