"""C15 — Category rules decide exactly as ordered Qt-style rules prescribe."""
import glob as _glob, itertools, json, os, re
import vlib

META = {
    'id': 'C15',
    'level': 'proof',
    'technique': 'Coq proof (induction on rule lists and glob patterns; model proved equal to a specification function '
                 'written from the property text; invariant proof of the iterative wildcard matcher) + source-to-Coq translation of the '
                 'rule regex pieces, separators, the statements of wildcardMatch, '
                 'default verdict and loop shape + differential run of the extracted model and specification oracle '
                 'against the real CategoryFilter',
    'text': 'Theorems (Properties_C15.v): the filter verdict is that of the LAST rule whose glob pattern and optional type '
            'suffix match, default pass; the iterative matcher of the code (wildcardMatch, transcribed as glob_iter) terminates within '
            'its fuel and is sound and complete w.r.t. a declarative glob relation and the '
            'decomposition along the stars (every other character literal); ";" and newline are interchangeable and NOTHING else separates (a text without either is one line; <name>=<value> with a blank-free name '
            'without ";" is the one rule for that name, whatever punctuation or non-ASCII code units the name holds, and decides exactly the categories the name globs); rejected '
            'lines contribute nothing; typed rules never affect other types, fatal is decided by untyped rules only; ONE filter object '
            'answering a history of messages (address of the category name, name text, type) answers each with the specified verdict of its own '
            'name text and type - independent of the history and of the address, also when consecutive different names share one address. They are '
            're-checked on every run against the constants translated from categoryfilter.cpp/logmessage.h, and the extracted '
            'model and specification are run against the real CategoryFilter on generated and exhaustively enumerated rule texts (incl. a sweep of every ASCII character and '
            'non-ASCII look-alikes as would-be separators, and non-ASCII / astral category names handed over as UTF-8 bytes), and the object '
            'model against one real object per rule text on generated histories with adversarial storage of the category names '
            '(one reused buffer, recycled heap blocks, LogMessage copies). Front end: the body of SimplePipeline::filterCategory is translated '
            '(src_cat_front) and the filter it yields is proved to answer exactly as CategoryFilter(rules) for every rule text, message, history and '
            'whatever was requested through the front end before (a front end dropping the rule text or handing out one shared static object is refuted); '
            'about 30% of the generated filter objects are obtained through SimplePipeline().filterCategory(rules).handler(capture), half of them after an '
            'earlier request by another pipeline, and must answer as the model of the direct object.',
    'note': 'Trusted: Coq 8.16.1 kernel (vm_compute only for the closed configuration check and the example), no axioms; '
            'tools/s2c/category.py (regex translation of categoryfilter.cpp and of the stringToQtMsgType table), extraction '
            '(ExtrOcamlBasic only) and ocaml/drv_category.ml, harness/h_category.cpp (also offers Qt own QLoggingCategory as a cross-check on the rule subset Qt supports). '
            'Modelled, not verified: '
            'QRegularExpression/PCRE2 for the LINE regex only (modelled as: last "=", ASCII \\s trimming, lazy name + optional suffix), '
            'QString::replace/split/at/size (lists of UTF-16 code units; the indices p,t,star,mark of wildcardMatch are represented by list '
            'suffixes), QString::fromUtf8 of the category. The translator reads const locals as their initialisers, a guard-with-continue as the positive test, the type test before the pattern test as the same conjunction, and a loop from the end of the list returning at the first match as shape LastFromBack (proved equal to the forward loop: C15_backward_loop_is_last_match_wins). The object model has no state besides the rule list: the translator pins that CategoryFilter has the one data member m_rules, no mutable member and no writable static. Outside the model: ill-formed UTF-16 in rules (lone surrogates), NUL in rule names.',
    'design_ref': 'DESIGN.md section 4, C15',
    'engine': 'coq+extraction+harness',
}

TYPES = ['debug', 'warning', 'critical', 'fatal', 'info']          # QtMsgType numeric order
CORPUS = os.path.join(vlib.VERIF, 'corpus', 'C15')


def hx(s):
    """hex UTF-16 code units of a python str (astral characters become surrogate pairs)"""
    b = s.encode('utf-16-be', 'surrogatepass')
    return b.hex() if b else '-'


def unhx(h):
    return '' if h == '-' else bytes.fromhex(h).decode('utf-16-be', 'surrogatepass')


def line_of(case):
    return hx(case[0]) + ' ' + ','.join(hx(c) for c in case[1])


# ---- how the application obtained the filter object (round 8).  A case is (rules, categories[, via]); via is the prefix the
# harness reads in front of the rules field (h_category.cpp, FRONT END): '' = CategoryFilter(rules) constructed directly,
# 'F:' = SimplePipeline().filterCategory(rules).handler(capture), 'F<hex>:' = the same after another pipeline of the process
# requested filterCategory(<that text>).  The model and the specification never see it: the front end must be transparent.
EARLIER = ['*=false', '', '*=true', 'a=false', 'net.*=false;app=true', 'x.debug=false\n*.info=false', '\u0441\u0435\u0442\u044c=false', 'garbage']


def via_of(case):
    return case[2] if len(case) > 2 else ''


def via_prefix(earlier=None):
    return 'F:' if earlier is None else 'F' + hx(earlier) + ':'


def via_earlier(via):
    """None = direct or first request of the process, else the rule text requested earlier"""
    return unhx(via[1:-1]) if len(via) > 2 else None


def via_class(via):
    return 'constructed_directly' if not via else ('fluent_first_request' if via == 'F:' else 'fluent_after_an_earlier_request')


def via_text(via):
    if not via:
        return 'CategoryFilter(rules) constructed directly'
    t = 'SimplePipeline().filterCategory(rules).handler(capture); verdict = whether the trailing handler is reached'
    e = via_earlier(via)
    return t if e is None else t + '; before that another pipeline of the process requested filterCategory(%r)' % e


def gen_via(rng, other_rules=None):
    """about 30% of the cases through the fluent front end, half of them after an earlier request"""
    k = rng.random()
    if k < 0.70:
        return ''
    if k < 0.85:
        return 'F:'
    return via_prefix(other_rules if (other_rules is not None and rng.random() < 0.4) else rng.choice(EARLIER))


def impl_line(case):
    return via_of(case) + line_of(case)


# ------------------------------------------------------------------------------------ generators
NAMES = ['net', 'net.http', 'net.http.client', 'network', 'app', 'app.ui', 'app.ui.dialogs', 'default', 'qt.core',
         'a=b', 'a.b+c', 'x(y)', '[z]', 'a\\b', 'q$', '^q', 'a|b', 'a?b', '.debug', 'net.debug', 'a*b', '*', 'n', 'a',
         'x.fatal', 'x.Debug', 'a{2}', 'a\\*b', '\\', 'a\\', '$', '^', '.', '..', 'a.b', 'ab', 'a+', '(', ')', 'a)(b',
         'été', 'naïve.ü', '\U0001F600.x', '中文', 'a\xa0b', 'a\u2003b', '\u0085',
         'a\nb', 'a\n', '\n', '\na', 'a\n\nb', 'a\rb', 'a\r', 'a\tb', 'a b', ' a', 'a ', 'A', 'Net', 'true', 'false', '=',
         'debug', 'x.debug.info', 'x.info', 'driver.usb', 'driver.usb.low', 'q_1', '-', 'a-b', 'a/b', "a'b", 'a"b', '#', 'a#b',
         'a&b', 'a,b', 'a<b>', '~', '!', '%s', '@', '`', '\x7f', '\x01', '\x1f', '\x1c',
         # ASCII punctuation that is NOT a rule separator (only ';' and newline are): C++-style scoped names, lists, paths
         'ui::widgets', 'ns::mod', 'ns::mod::sub', 'net:tcp', 'drv:usb', 'a:b', ':', '::', 'a:', ':a', 'app:', 'garbage:app',
         'x,y,z', 'a|b|c', 'k/v/w', 'c:\\dir', 'a#b#c', 'say"hi"', "it's", 'a:b,c|d#e/f', 'widgets', 'mod', 'tcp',
         # non-ASCII names (2-, 3- and 4-byte UTF-8 sequences; the category reaches the filter as UTF-8 bytes)
         '\u0441\u0435\u0442\u044c.http', '\u0441\u0435\u0442\u044c', 'gr\xf6\xdfe.cache', '\xe9', '\xff', '\x80', '\u07ff', '\u0800', '\uffff',
         '\u65e5\u5fd7.net', '\U00010000', '\U0010ffff', 'a\U0001F600b', '\U0001F600', '\U0001F600.\U0001F601', 'e\u0301', 'a\ufeffb',
         '\u2028', 'x\u2029y', '\uff1b', 'a\uff1ab', '\xc3\xa9', '\xd1\x81']
SUFFIX = ['', '', '', '.debug', '.info', '.warning', '.critical', '.fatal', '.Debug', '.DEBUG', '.warn', '.debug.info',
          '.critical.debug', '.debugx', '.', '.Warning', '.infoo', 'debug']
VALUES = ['true', 'false', 'true', 'false', 'true', 'false', 'TRUE', 'True', 'False', '1', '0', 'yes', 'no', 'tru', 'falsee',
          'false false', 'true;', 'truefalse', '', 'on', ' true ', 'true\r', 't rue']
WS = ['', '', '', '', ' ', '\t', '  ', ' \t ', '\r', '\x0b', '\x0c']
NONWS = ['\xa0', '\u2003', '\x1c', '\x85', '\u3000']   # look like blanks, are NOT \\s for PCRE2 without UCP
GARBAGE = ['garbage', '=', '==true', 'a b=true', '=false', ' ', 'a=', 'true', 'a=true=false', 'a=b=true', 'a.debug.info=false',
           'x = y = true', '# comment', '[Rules]', ';', '.debug=true', '.=false', '*', '*.debug', 'a.debug', '= true', '\t',
           'a= =true', 'a=true b=false', 'a=true,b=false', 'net.*', '.debug.debug=false', '*=', '*==false', 'a =false',
           '=.debug=false', 'a .debug=false', 'a. debug=false', 'a.debug =false', '\r', 'a=false\x00', 'a==', 'true=false',
           # lines that would hold a well-formed rule if ':' ',' '|' '#' '/' ... separated rules (they do not)
           'junk:app', 'junk:app=false', 'app=false:junk', 'net=false,app=false', 'net=false|app=false', '#app=false', 'x/app=false',
           'a=false:b=false', '::', ':', 'a:=false', ':a=false', 'app=false#', "'app=false'", '"app=false"', 'a=false\\b=false',
           'net=true:net.debug=false', '\u0441=false\uff1b\u0442=false', 'a=false\u2028b=false', '*=false:app=true']
SEPS = [';', ';', ';', '\n', '\n', '\r\n', ';;', ';\n', '\n\n', ' ; ', ';\t', '\n;']
FILL = ['', 'x', 'http', '.http', '.', 'a', 'ab', '*', 'net', '.a.b.c', 'xx.yy', '\n', 'a\nb', '.debug', '=', ' ', 'é', 'z' * 40,
        ':', '::x', 'a:b', ',', '|', '#', '/', '\\', '"', "'", '\u0442', '\U0001F600', '\u65e5']
MUT_ALPHA = ' \t=.*;\ntruefalsdbginwc\r+(' + ':,|#/\\"\'' + ':\xe9\u0442'
PUNCT = ':,|#/\\"\''                       # ASCII punctuation that must stay part of a name


def wildcardise(rng, name, hist):
    """a pattern derived from a name so that it has a fair chance to match it"""
    k = rng.random()
    n = len(name)
    if k < 0.30 or n == 0:
        hist['literal'] += 1
        return name
    i, j = sorted((rng.randint(0, n), rng.randint(0, n)))
    if k < 0.45:
        hist['star_end'] += 1
        return name[:i] + '*'
    if k < 0.58:
        hist['star_start'] += 1
        return '*' + name[j:]
    if k < 0.72:
        hist['star_middle'] += 1
        return name[:i] + '*' + name[j:]
    if k < 0.82:
        hist['star_both'] += 1
        return '*' + name[i:j] + '*'
    if k < 0.93:
        hist['star_multiple'] += 1
        parts = [name[:i], name[i:j], name[j:]]
        return rng.choice(['', '*']) + '*'.join(parts) + rng.choice(['', '*', '**'])
    hist['star_only'] += 1
    return rng.choice(['*', '**', '*.*', '*.*.*', '?*', '.*', '*.'])


def gen_rule(rng, hist):
    r = rng.random()
    if r < 0.10:
        hist['garbage_line'] += 1
        return rng.choice(GARBAGE), None
    name = rng.choice(NAMES)
    if rng.random() < 0.08:
        name = name + rng.choice(['.', '_', '']) + rng.choice(NAMES)
    pat = wildcardise(rng, name, hist)
    k = rng.random()
    suf = '' if k < 0.35 else (rng.choice(['.debug', '.info', '.warning', '.critical']) if k < 0.82 else rng.choice(SUFFIX))
    val = rng.choice(['true', 'false', 'false']) if rng.random() < 0.86 else rng.choice(VALUES)
    if suf in ('.debug', '.info', '.warning', '.critical'):
        hist['typed'] += 1
    elif suf == '':
        hist['untyped'] += 1
    else:
        hist['odd_suffix'] += 1
    if val not in ('true', 'false'):
        hist['bad_value'] += 1
    sp = lambda: rng.choice(WS)
    inner = ''
    if rng.random() < 0.04:
        inner = rng.choice([' ', '\t'] + NONWS)
        hist['inner_blank'] += 1
    text = sp() + pat + inner + suf + sp() + '=' + sp() + val + sp()
    if rng.random() < 0.05:                      # char-level mutation: hits the parser's boundaries
        hist['mutated_line'] += 1
        i = rng.randrange(len(text) + 1)
        op = rng.randrange(3)
        c = rng.choice(MUT_ALPHA)
        text = text[:i] + c + text[i:] if op == 0 else (text[:i] + text[i + 1:] if op == 1 else text[:i] + c + text[i + 1:])
    return text, pat


def instantiate(rng, pat):
    """a category built from a pattern: every star replaced by some filler"""
    return ''.join(rng.choice(FILL) if c == '*' else c for c in pat)


def perturb(rng, s):
    if not s:
        return rng.choice(NAMES)
    i = rng.randrange(len(s))
    k = rng.randrange(5)
    if k == 0:
        return s[:i] + s[i + 1:]
    if k == 1:
        return s[:i] + rng.choice('x.a*\n' + PUNCT + ':') + s[i:]
    if k == 2:
        return s[:i] + rng.choice('x.aX') + s[i + 1:]      # "a.b" -> "axb": an unescaped '.' would match
    if k == 3:
        return s + rng.choice(['x', '.x', '\n', '.debug', ' '])
    return rng.choice(['x', '.', '\n', 'a']) + s


def clean_cat(c):
    # no NUL (the category is a C string) and no byte-order mark at the start (QString::fromUtf8 drops a leading
    # U+FEFF; stated in chk.assumptions, observed in cov['leading_bom_probe'])
    return c.replace('\x00', '').lstrip('\ufeff')


_FRAG = re.compile('[' + re.escape(PUNCT) + r'.,\-+()\[\]{}<>&!@~`$^%? \t\r]|[^\x00-\x7f]')


def fragment(rng, text):
    """a piece of a rule line between two characters that are NOT separators (punctuation, blanks, non-ASCII): the
    category a rule would be about if one of those characters separated rules"""
    parts = [x for x in _FRAG.split(text.split('=')[0]) if x]
    if not parts:
        return text
    k = rng.randrange(len(parts))
    return parts[k] if rng.random() < 0.8 else ''.join(parts[k:k + 2])


def gen_case(rng, hist, chist):
    n = rng.choice([0, 1, 1, 2, 2, 3, 3, 4, 5, 6, 8])
    pieces, pats = [], []
    for _ in range(n):
        t, p = gen_rule(rng, hist)
        pieces.append(t)
        if p is not None:
            pats.append(p)
    sep = rng.choice(SEPS)
    rules = ''
    for k, t in enumerate(pieces):
        rules += t
        if k + 1 < len(pieces):
            rules += sep if rng.random() < 0.7 else rng.choice(SEPS)
    if rng.random() < 0.12:
        rules = rng.choice([';', '\n', '', ';;']) + rules + rng.choice([';', '\n', '', '\r\n'])
    hist['rules_len_%d' % min(n, 8)] += 1
    cats = []
    for _ in range(rng.choice([3, 4, 5, 6])):
        k = rng.random()
        if pats and k < 0.40:
            cats.append(instantiate(rng, rng.choice(pats))); chist['instantiated_pattern'] += 1
        elif pats and k < 0.58:
            cats.append(perturb(rng, instantiate(rng, rng.choice(pats)))); chist['perturbed'] += 1
        elif pats and k < 0.64:
            cats.append(rng.choice(pats)); chist['pattern_text_itself'] += 1
        elif pieces and k < 0.72:
            cats.append(fragment(rng, rng.choice(pieces))); chist['fragment_of_a_line_between_non_separators'] += 1
        elif k < 0.90:
            cats.append(rng.choice(NAMES)); chist['pool_name'] += 1
        elif k < 0.93:
            cats.append(''); chist['empty'] += 1
        elif k < 0.96:
            cats.append('default'); chist['default'] += 1
        else:
            # very long name; the model's matcher backtracks (cost ~ length^stars), so the length follows the
            # largest number of stars in any line of this rule text
            stars = max([p.count('*') for p in pieces] or [0])
            reps = rng.randint(60, 150) if stars <= 2 else (12 if stars <= 4 else 3)
            base = rng.choice(pats) if pats else rng.choice(NAMES)
            cats.append(''.join(('q.' * reps) if c == '*' else c for c in base[:40]) or 'q' * 300); chist['very_long'] += 1
    cats = [clean_cat(c) for c in cats]
    for c in cats:
        if '\n' in c:
            chist['contains_lf'] += 1
        if any(ch in c for ch in PUNCT):
            chist['contains_non_separator_punctuation'] += 1
        if ':' in c:
            chist['contains_colon'] += 1
        if not c.isascii():
            chist['non_ascii'] += 1
            if any(ord(ch) > 0xffff for ch in c):
                chist['non_ascii_astral'] += 1
    if any(ch in rules for ch in PUNCT):
        hist['text_with_non_separator_punctuation'] += 1
    if ':' in rules:
        hist['text_with_colon'] += 1
    if not rules.isascii():
        hist['text_non_ascii'] += 1
    return rules, cats


def gen_many_stars(rng, mh):
    """patterns with up to 40 wildcards against matching and near-miss categories up to 255 characters: the family
    on which a backtracking regex engine gives up (PCRE2 match limit) and answers 'no match'"""
    k = rng.choice([1, 2, 3, 5, 8, 12, 16, 20, 21, 22, 23, 24, 28, 32, 36, 40])
    mh['stars_%02d_%02d' % (k // 10 * 10, k // 10 * 10 + 9)] += 1
    if rng.random() < 0.5:
        segs = ['a'] * k + ['b']                       # the canonical  *a*a...*a*b
    else:
        segs = [rng.choice(['a', 'b', 'ab', 'a', '.', 'x', 'ba', 'aa']) for _ in range(k)] + [rng.choice(['b', 'a', 'end', ''])]
    lead = rng.choice(['*', '*', ''])
    pat = lead + '*'.join(segs)
    rules = rng.choice(['', 'z*=true;', '*=true\n']) + pat + rng.choice(['', '', '.debug', '.info']) + '=false'
    cats = []
    for _ in range(5):
        r = rng.random()
        if r < 0.30:                                   # matching: every star filled with a short filler
            c = ''.join(seg + rng.choice(['', '', 'a', 'aa', 'b', 'ab', 'xa', 'a' * rng.randint(0, 9)]) for seg in segs[:-1]) + segs[-1]
            if lead:
                c = rng.choice(['', 'a', 'zz']) + c
            mh['cat_filled'] += 1
        elif r < 0.55:                                 # a^n b : matches the canonical pattern iff n >= k
            c = 'a' * rng.choice([k - 1, k, k + 1, 20, 50, 100, 200, 254]) + 'b'
            mh['cat_a^n_b'] += 1
        elif r < 0.70:                                 # near miss: the last literal is missing
            c = 'a' * rng.choice([k, 50, 200, 255])
            mh['cat_a^n'] += 1
        elif r < 0.85:                                 # near miss: one character too many / one dropped
            c = ''.join(seg + rng.choice(['', 'a', 'b']) for seg in segs)
            i = rng.randrange(len(c) + 1)
            c = c[:i] + rng.choice(['', 'x', 'b', 'a']) + c[i + 1:]
            mh['cat_perturbed'] += 1
        else:
            c = ''.join(rng.choice('ab') for _ in range(rng.randint(0, 255)))
            mh['cat_random_ab'] += 1
        cats.append(c[:255])
    return rules, cats


def exhaustive_globs():
    """every pattern over {a,b,*} up to length 3 against every category over {a,b} up to length 4"""
    cats = [''.join(t) for k in range(0, 5) for t in itertools.product('ab', repeat=k)]
    return [(''.join(p) + '=false', cats) for k in range(1, 4) for p in itertools.product('ab*', repeat=k)]


def exhaustive_rule_lists(depth):
    """all lists of `depth` rules over a small rule alphabet (overlaps, typed/untyped, order)"""
    rules = [p + s + '=' + v for p in ['*', 'a', 'a*', '*a'] for s in ['', '.debug', '.info'] for v in ['true', 'false']]
    cats = ['a', 'b', 'aa', 'ba', '']
    return [(';'.join(t), cats) for t in itertools.product(rules, repeat=depth)]


SWEEP_EXTRA = [0x85, 0xa0, 0xa6, 0xab, 0xb6, 0xb7, 0xe9, 0xff, 0x37e, 0x387, 0x441, 0x55d, 0x589, 0x5c3, 0x61b, 0x2003, 0x2028, 0x2029,
               0x2236, 0x3001, 0x3002, 0xa789, 0xfe13, 0xfe14, 0xfe54, 0xfe55, 0xfeff, 0xff0c, 0xff1a, 0xff1b, 0xff5c, 0xfffd, 0xffff,
               0x10000, 0x1f600, 0x10ffff]


def separator_sweep():
    """every ASCII character (and look-alikes of ';' ':' ',' and line ends beyond ASCII) between two names: only ';' and LF
    separate.  x<c>y=false is one rule about the category x<c>y (or, for a blank, a malformed line) - never a rule about y"""
    out = []
    for cp in list(range(1, 0x80)) + SWEEP_EXTRA:
        c = chr(cp)
        cats = [clean_cat(x) for x in ('x' + c + 'y', 'y', 'x', 'xy', 'x' + c, c + 'y', 'x' + c + c + 'y')]
        out.append(('x' + c + 'y=false', cats))
        out.append(('*=false;junk' + c + 'y=true', cats))
        out.append(('x=true' + c + 'y=false', cats))
        out.append(('x' + c + 'y.debug=false' + c + 'y.info=false', cats))
    return out


UNI_NAMES = ['\xe9', '\xe9t\xe9', 'gr\xf6\xdfe.cache', '\u0441\u0435\u0442\u044c.http', '\u65e5\u5fd7', '\u65e5\u5fd7.net', '\x80', '\xff', '\u0100', '\u07ff',
             '\u0800', '\ud7ff', '\ue000', '\ufffd', '\uffff', '\U00010000', '\U0001F600', '\U0001F600.x', 'a\U0001F600', '\U0001F600\U0001F601',
             '\U0010ffff', 'e\u0301', 'a\ufeffb', 'na\xefve.\xfc', 'x.\u0442', '\xc3\xa9', '\xc3\x83\xc2\xa9', '\u00a0', 'a\u2003b']


def mojibake(s):
    """the UTF-8 bytes of s read as Latin-1 (what QString::fromLatin1 makes of a UTF-8 category)"""
    return s.encode('utf-8', 'surrogatepass').decode('latin-1')


def unicode_cases():
    """non-ASCII category names (2-, 3-, 4-byte UTF-8 sequences, boundary code points, combining marks) named by rules,
    as whole names, typed, and under wildcards; probed with the name itself, its neighbours and the name's UTF-8 bytes
    read as Latin-1 (which is another name)"""
    out = []
    for n in UNI_NAMES:
        m = mojibake(n)
        low = ''.join(chr(ord(ch) & 0xff) if ord(ch) < 0x10000 else '?' for ch in n)     # the code units truncated to 8 bits
        u = [int(hx(n)[i:i + 4], 16) for i in range(0, len(hx(n)), 4)]                    # UTF-16 code units
        k = next(i for i, x in enumerate(u) if x > 0x7f)
        hi = unhx(''.join('%04x' % (x ^ 0x100 if i == k else x) for i, x in enumerate(u)))   # same low byte, other high byte
        k = max(i for i, x in enumerate(u) if x > 0x7f)
        lo = unhx(''.join('%04x' % (x ^ 1 if i == k else x) for i, x in enumerate(u)))       # neighbouring code unit
        cats = [clean_cat(x) for x in (n, m, n[:-1], n[1:], n + 'x', low, 'x', n + n, hi, lo)]
        out.append((n + '=false', cats))
        out.append(('*=false;' + n + '=true', cats))
        out.append((n + '.debug=false\n' + n + '.critical=false', cats))
        out.append((n[0] + '*=false', cats))
        out.append(('*' + n[-1] + '=false', cats))
        out.append(('*' + n + '*=false;' + m + '=true', cats))
        out.append((m + '=false', cats))
        out.append(('*=false;' + m[0] + '*=true', cats))
    return out


# ---- cross-check against Qt's own QLoggingCategory on the rule subset Qt supports
QT_NAMES = ['ns::mod', 'net:tcp', 'ui::widgets', 'drv:usb', 'a,b', 'a#b', 'x|y', "it's", 'say"hi"', 'net', 'net.http', 'net.http.client', 'network', 'app', 'app.ui', 'app.ui.dialogs', 'default', 'driver.usb', 'a', 'ab',
            'a.b', 'a.b+c', 'x(y)', 'z]', 'q$', '^q', 'a|b', 'a?b', 'x.fatal', 'net.debug', 'x.debug.info', 'n', 'core', 'Net', 'aa', 'a-b', 'a/b', 'a{2}']


def gen_qt_case(rng, qh):
    """rules Qt's parser reads the same way: one '=', ASCII, no blanks inside the name, '*' only at the start
    and/or the end; categories outside the known quirks of QLoggingRule::pass (see qt_comparable)"""
    pats, lines, keys = [], [], []
    for _ in range(rng.choice([1, 2, 2, 3, 4, 6])):
        name = rng.choice(QT_NAMES)
        i, j = sorted((rng.randint(0, len(name)), rng.randint(0, len(name))))
        k = rng.randrange(6)
        pat = [name, name[:i] + '*', '*' + name[j:], '*' + name[i:j] + '*', '*', name][k]
        qh[['full', 'prefix*', '*suffix', '*mid*', '*', 'full'][k]] += 1
        suf = rng.choice(['', '', '.debug', '.info', '.warning', '.critical'])
        val = rng.choice(['true', 'false', 'false', 'true', 'false', 'TRUE', '1', ''])
        sp = lambda: rng.choice(['', '', ' ', '\t', '  '])
        lines.append(sp() + pat + suf + sp() + '=' + sp() + val + sp())
        pats.append(pat)
        keys.append(pat + suf)
    rules = rng.choice([';', '\n', '\r\n', ';\n']).join(lines)
    cats = []
    for _ in range(5):
        k = rng.random()
        c = instantiate(rng, rng.choice(pats)) if k < 0.5 else (perturb(rng, instantiate(rng, rng.choice(pats))) if k < 0.7 else rng.choice(QT_NAMES))
        cats.append(c)
    cats = [c for c in cats if qt_comparable(keys, c)] or ['app.core']
    return rules, cats


def qt_comparable(pats, cat):
    """pats = the rule keys (pattern with its type suffix, as written left of '=')"""
    if '\\' in cat or '%' in cat:
        return False            # Qt passes rule keys through QSettings' iniUnescapedKey (backslash, %XX)
    if not cat or not cat.isascii() or '\n' in cat or '\x00' in cat or cat == 'qt' or cat.startswith('qt.'):
        return False            # Qt reads the name as Latin-1; "qt*" categories have debug off by default
    for p in pats:
        for sfx in ('.debug', '.info', '.warning', '.critical'):     # both parsers strip exactly one type suffix
            if p.endswith(sfx) and len(p) > len(sfx):
                p = p[:-len(sfx)]
                break
        lit = p.strip('*')
        if '*' in lit:
            return False
        if p.startswith('*') and not p.endswith('*') and lit and cat.endswith(lit) and cat.find(lit) != len(cat) - len(lit):
            return False        # QLoggingRule::pass compares the FIRST occurrence for a "*suffix" rule
    return True


def load_corpus():
    out = []
    for p in sorted(_glob.glob(os.path.join(CORPUS, '*.json'))):
        try:
            d = json.load(open(p))
            for c in d.get('cases', [] if 'histories' in d else [d]):
                out.append((c['rules'], list(c['categories'])))
        except Exception as e:      # a broken corpus file must not pass silently
            raise RuntimeError('corpus file %s unreadable: %r' % (p, e))
    return out


def load_corpus_histories():
    """recorded histories (rules, categories, query list); each is replayed under every storage mode"""
    out = []
    for p in sorted(_glob.glob(os.path.join(CORPUS, '*.json'))):
        try:
            for h in json.load(open(p)).get('histories', []):
                qs = [tuple(int(x) for x in q.split(':')) for q in h['queries']]
                for st in ([h['storage']] if 'storage' in h else sorted(set(STORAGE))):
                    out.append(((h['rules'], list(h['categories'])), qs, st))
        except Exception as e:
            raise RuntimeError('corpus file %s unreadable: %r' % (p, e))
    return out


# ------------------------------------------------------------------- python reference (statistics only)
_LINE = re.compile(r'^\s*(\S+?)(?:\.(debug|info|warning|critical))?\s*=\s*(true|false)\s*\Z', re.ASCII)


def py_glob(p, s):
    """iterative glob, '*' = any string, everything else literal (independent of the Coq matcher)"""
    reach = {0}
    def close(st):
        st = set(st)
        for i in sorted(st):
            j = i
            while j < len(p) and p[j] == '*':
                j += 1; st.add(j)
        return st
    reach = close(reach)
    for ch in s:
        nxt = set()
        for i in reach:
            if i < len(p):
                if p[i] == '*':
                    nxt.add(i)
                elif p[i] == ch:
                    nxt.add(i + 1)
        reach = close(nxt)
        if not reach:
            return False
    return len(p) in reach


def py_rules(text):
    out = []
    for line in re.split('[;\n]', text):
        m = _LINE.match(line) if line else None
        if m:
            out.append((m.group(1), m.group(2), m.group(3) == 'true'))
    return out


def line_class(line):
    """which branch of the line parser (the case split of parse_line / LineOK) a line exercises"""
    if line == '':
        return 'empty_part_skipped'
    if '=' not in line:
        return 'no_equals'
    l, r = line.rsplit('=', 1)
    ws = ' \t\n\r\x0b\x0c'
    if r.strip(ws) not in ('true', 'false'):
        return 'value_not_true_false'
    core = l.strip(ws)
    if core == '':
        return 'empty_name'
    if any(c in ws for c in core):
        return 'blank_inside_name'
    for sfx in ('.debug', '.info', '.warning', '.critical'):
        if core.endswith(sfx):
            return 'suffix_only_name_is_untyped' if core == sfx else 'typed'
    return 'untyped_with_equals_in_name' if '=' in core else 'untyped'


def py_stats(rules, cat):
    """(verdict string, number of rules matching per type)"""
    v, nm = '', []
    for t in TYPES:
        ms = [en for (p, ty, en) in rules if (ty is None or ty == t) and py_glob(p, cat)]
        nm.append(len(ms))
        v += '1' if (ms[-1] if ms else True) else '0'
    return v, nm


# ------------------------------------------------------------------------------------ running
def run_impl(impl, cases, args=()):
    rc, out, err = vlib.run_lines(impl, [impl_line(c) for c in cases], list(args))
    return rc, out, err


def run_model(model, cases, mode='model', timeout=600):
    return vlib.run_lines(model, [line_of(c) for c in cases], [mode], timeout=timeout)[1]


def run_oracle(model, cases, verdicts):
    lines = [line_of(c) + ' ' + v for c, v in zip(cases, verdicts)]
    return vlib.run_lines(model, lines, ['oracle'])[1]


STORAGE = ['', 'B/', 'B/', 'S/', 'H/', 'C/', 'C/']      # where the harness keeps the category names (h_category.cpp)
STORAGE_NAME = {'': 'own_address_per_name', 'B/': 'one_reused_buffer', 'S/': 'one_reused_buffer_scribbled_after_each_query',
                'H/': 'malloc_per_query_freed_after', 'C/': 'logmessage_copy_destroyed_after'}


def gen_queries(rng, ncats, qhist=None):
    """a history of (category index, type index) queries for one filter object.
    shuffle    : all pairs in random order, about a third of them asked again later;
    type_bursts: type after type (random order), under each all categories in random order - consecutive
                 messages of the SAME type with DIFFERENT names (what a burst from several categories looks like);
    walk       : random pairs, the type kept from the previous query half of the time, the category a quarter."""
    k = rng.random()
    if k < 0.4:
        shape = 'shuffle'
        qs = [(ci, ti) for ci in range(ncats) for ti in range(5)]
        rng.shuffle(qs)
        for q in list(qs):
            if rng.random() < 0.35:
                qs.insert(rng.randint(0, len(qs)), q)
    elif k < 0.75:
        shape = 'type_bursts'
        qs = []
        for ti in rng.sample(range(5), 5) + [rng.randrange(5), rng.randrange(5)]:
            order = list(range(ncats))
            rng.shuffle(order)
            if rng.random() < 0.3 and order:
                order.insert(rng.randint(0, len(order)), rng.choice(order))
            qs += [(ci, ti) for ci in order]
    else:
        shape = 'walk'
        qs = []
        ci, ti = rng.randrange(ncats), rng.randrange(5)
        for _ in range(int(6.5 * ncats)):
            if rng.random() >= 0.5:
                ti = rng.randrange(5)
            if rng.random() >= 0.25:
                ci = rng.randrange(ncats)
            qs.append((ci, ti))
    if qhist is not None:
        qhist['history_' + shape] += 1
    return qs


def seq_line(rules, cats, queries, storage='', via=''):
    """via is given for the implementation only (the model and the oracle read the line without it)"""
    return via + line_of((rules, cats)) + ' ' + storage + ','.join('%d:%d' % q for q in queries)


def split_seq_output(v, storage, n):
    """harness answer to a history line -> (verdict string, same-address flags); '?' * n when malformed"""
    flags = '.' * n
    if storage:
        v, _, flags = v.partition(' ')
        if len(flags) != n:
            flags = '?' * n
    return (v if re.fullmatch('[01]{%d}' % n, v) else '?' * n), flags


def well_formed(case, v):
    parts = v.split(',')
    return len(parts) == len(case[1]) and all(re.fullmatch('[01]{5}', p) for p in parts)


def split_pieces(rules):
    """rule text -> list of (line, following separator run) so that a shrunk list re-joins to a rule text"""
    return [m.group(0) for m in re.finditer(r'[^;\n]*[;\n]*', rules) if m.group(0)]


def run():
    chk = vlib.Check('C15')
    chk.trusted = ['Coq 8.16.1 kernel; vm_compute only on the closed terms cfg_goodb src_cfg and the non-vacuity example; no native_compute',
                   'axioms: none (every Print Assumptions: Closed under the global context)',
                   'tools/s2c/category.py translator (categoryfilter.cpp, categoryfilter.h, logmessage.h, body of SimplePipeline::filterCategory in simplepipeline.cpp -> SrcCategory.v)',
                   'front end: Pipeline::process / SortedPipeline::append / FunctionHandler are modelled (the trailing handler is reached iff the filter passes), not verified',
                   'extraction ExtrOcamlBasic (bool/option/unit/prod/list/sumbool), no Extract Constant; ocaml/drv_category.ml',
                   'harness/h_category.cpp; QRegularExpression/PCRE2, QString::replace/split/fromUtf8 are modelled, not verified']
    chk.assumptions = ['rule text and category are well-formed UTF-16/UTF-8 (no lone surrogates) and the category has no NUL (it is a C string)',
                       'the category name does not START with U+FEFF (QString::fromUtf8 drops a leading byte-order mark: rules "a=false" drop the category '
                       '"<U+FEFF>a"; observed on every run in cov.leading_bom_probe, U+FEFF inside a name is generated and must be literal)',
                       'PCRE2 \\s without the UCP option is exactly HT LF VT FF CR SPACE (probed: U+00A0, U+2003, U+0085, U+001C are name characters)',
                       'categories are at most a few hundred characters (the matcher is quadratic at worst; the generator stops at 255 for the many-wildcard family)']
    import time as _t
    ph, t0 = {}, _t.time()
    chk.proof(vlib.proof_leg('Properties_C15', ['category']))
    ph['proof_leg'] = round(_t.time() - t0, 1); t0 = _t.time()
    model = vlib.build_model('category')
    impl = vlib.build_harness('category')
    ph['builds'] = round(_t.time() - t0, 1); t0 = _t.time()
    thorough = chk.tier == 'thorough'
    rng = chk.rng
    import collections
    hist, chist = collections.Counter(), collections.Counter()
    cases = load_corpus()
    n_corpus = len(cases)
    cases += exhaustive_globs()
    cases += exhaustive_rule_lists(2)
    n_sweep0 = len(cases)
    cases += separator_sweep()
    n_uni0 = len(cases)
    cases += unicode_cases()
    n_uni1 = len(cases)
    if thorough:
        cases += exhaustive_rule_lists(3)
    n_fixed = len(cases)
    for _ in range(60000 if thorough else 6000):
        cases.append(gen_case(rng, hist, chist))
    mh = collections.Counter()
    for _ in range(6000 if thorough else 600):
        cases.append(gen_many_stars(rng, mh))

    # how the filter object is obtained: corpus cases as recorded (directly), every other case by gen_via
    for i in range(n_corpus, len(cases)):
        other = cases[rng.randrange(n_fixed, len(cases))][0] if len(cases) > n_fixed else None
        cases[i] = (cases[i][0], cases[i][1], gen_via(rng, other))
    via_hist = collections.Counter(via_class(via_of(c)) for c in cases)
    via_hist['distinct_earlier_requests'] = len({via_of(c) for c in cases if via_earlier(via_of(c)) is not None})

    rc, out_i, err_i = run_impl(impl, cases)
    if rc != 0 or len(out_i) != len(cases):
        k = min(len(out_i), len(cases) - 1)
        chk.fail('implementation crashed or produced no output on a rule text',
                 {'kind': 'crash', 'rc': rc, 'stderr': err_i[-500:], 'rules': cases[k][0], 'categories': cases[k][1]}, kind='crash')
        out_i = out_i + [''] * (len(cases) - len(out_i))
    # the models of the two former regex shapes backtrack (exponential on the many-wildcard family): bounded run
    out_m = run_model(model, cases, timeout=900 if thorough else 90)
    out_i = [v if well_formed(c, v) else ','.join('?????' for _ in c[1]) for c, v in zip(cases, out_i)]
    marks = run_oracle(model, cases, out_i)
    if len(out_m) != len(cases) or len(marks) != len(cases):
        chk.broke('model driver produced %d/%d lines (oracle %d) - timed out or crashed' % (len(out_m), len(cases), len(marks)), {'kind': 'driver'})
        out_m += [''] * (len(cases) - len(out_m)); marks += [''] * (len(cases) - len(marks))

    ph['fixed_order_runs'] = round(_t.time() - t0, 1); t0 = _t.time()
    evaluations = 0
    py_diff = 0
    match_hist, parsed_hist, line_hist = collections.Counter(), collections.Counter(), collections.Counter()
    dis_model, falsified = [], []
    vec_hist = collections.Counter()
    nontrivial = set()
    for case, a, b, mk in zip(cases, out_i, out_m, marks):
        va, vb, vm = a.split(','), b.split(','), mk.split(',')
        pr = py_rules(case[0])
        for ln in re.split('[;\n]', case[0]):
            line_hist[line_class(ln)] += 1
        parsed_hist['accepted_lines_%d' % min(len(pr), 6)] += 1
        for ci, cat in enumerate(case[1]):
            pv, nm = py_stats(pr, cat)
            for k in nm:
                match_hist['rules_matching_%s' % (k if k < 3 else '3+')] += 1
            py_diff += (ci < len(va) and pv != va[ci])
            evaluations += 5
            x = va[ci] if ci < len(va) else ''
            y = vb[ci] if ci < len(vb) else ''
            z = vm[ci] if ci < len(vm) else ''
            vec_hist['all_pass' if x == '11111' else ('all_blocked' if x == '00000' else 'mixed_by_type')] += 1
            if x != '11111':
                nontrivial.add((case[0], cat))
            if x != y and b != '':
                dis_model.append((case[0], cat, x, y))
            if '0' in z or len(z) != 5:
                falsified.append((case[0], cat, x, z, case[1], via_of(case)))

    ph['python_statistics'] = round(_t.time() - t0, 1); t0 = _t.time()
    # generator self-check: the dimensions the fixed legs and the random generator are meant to cover are there
    gen_dims = {'separator_sweep_cases': n_uni0 - n_sweep0, 'non_ascii_name_cases': n_uni1 - n_uni0,
                'sweep_characters': len(range(1, 0x80)) + len(SWEEP_EXTRA),
                'random_texts_with_colon': hist['text_with_colon'], 'random_texts_with_non_separator_punctuation': hist['text_with_non_separator_punctuation'],
                'random_texts_non_ascii': hist['text_non_ascii'], 'random_categories_with_colon': chist['contains_colon'],
                'random_categories_non_ascii': chist['non_ascii'], 'random_categories_astral': chist['non_ascii_astral'],
                'random_categories_fragment': chist['fragment_of_a_line_between_non_separators'],
                'filters_obtained_through_the_front_end_first_request': via_hist['fluent_first_request'],
                'filters_obtained_through_the_front_end_after_an_earlier_request': via_hist['fluent_after_an_earlier_request']}
    for k2, n2 in gen_dims.items():
        if not n2:
            chk.broke('generator: dimension %s is empty (the generator has gone constant)' % k2, {'kind': 'generator', 'dimension': k2})
    # observation (not part of the property's domain, see chk.assumptions): a byte-order mark at the START of a category
    # name does not reach the matcher (QString::fromUtf8 drops it)
    bom_cases = [('a=false', ['\ufeffa']), ('\ufeffa=false', ['\ufeffa']), ('a\ufeffb=false', ['a\ufeffb'])]
    _, bom_i, _ = run_impl(impl, bom_cases)
    bom_m = run_model(model, bom_cases, 'spec')
    leading_bom_probe = {'inputs': [{'rules': r, 'category': c[0], 'implementation': a, 'specification': b}
                                    for (r, c), a, b in zip(bom_cases, bom_i + [''] * 3, bom_m + [''] * 3)],
                         'note': 'observation only: a category name starting with U+FEFF is outside what the check generates'}

    def judge(rules, cat, via=''):
        """(impl verdicts, oracle marks) of one (rules, category), the filter obtained as via says"""
        c = (rules, [cat], via)
        _, o, _ = run_impl(impl, [c])
        v = o[0] if o and well_formed(c, o[0]) else '?????'
        mk = run_oracle(model, [c], [v])
        return v, (mk[0] if mk else '')

    def still_bad(rules, cat, via=''):
        if cat.startswith('\ufeff'):
            return False                # outside the stated domain (leading byte-order mark): never shrink into it
        v, mk = judge(rules, cat, via)
        return '0' in mk

    def spec_of(rules, cat):
        return (run_model(model, [(rules, [cat])], 'spec') or ['?'])[0]

    def explain(rules, cat, v, spec):
        """why the implementation may have answered v: (class, extra replay fields) or (None, {}).  Diagnosis only - the
        verdict was falsified by the specification oracle before this is asked; every explanation is confirmed by a
        direct question to the implementation."""
        impl_says = lambda r, c: judge(r, c)[0]
        # 1. the category's UTF-8 bytes not decoded as UTF-8: the answer is the specified one for the bytes read as Latin-1,
        #    and the implementation lets a rule that names that misreading decide about this category
        if not cat.isascii():
            mj = mojibake(cat)
            if spec_of(rules, mj) == v and impl_says(mj + '=false', cat) == '00000' and spec_of(mj + '=false', cat) == '11111':
                return 'category_not_decoded_as_utf8', {
                    'category_utf8_bytes_hex': cat.encode('utf-8', 'surrogatepass').hex(),
                    'explanation': 'the implementation answers as specified for the category whose name is the UTF-8 bytes of this one '
                                   'read as Latin-1 (%r), and a rule naming that misreading decides about this category' % mj}
        # 2. some character other than ';' / newline treated as a rule separator: the answer is the specified one for the text
        #    with that character replaced by ';', and the implementation reads "x<c>y=false" as a rule about the category "y"
        for ch in sorted(set(rules) - set(';\n\x00')):
            if spec_of(rules.replace(ch, ';'), cat) == v and spec_of('x' + ch + 'y=false', 'y') == '11111' \
                    and impl_says('x' + ch + 'y=false', 'y') == '00000':
                return 'extra_separator', {'character_treated_as_separator': ch, 'character_code_point': 'U+%04X' % ord(ch),
                                           'explanation': 'the implementation answers as if %r separated rules (it reads "x%sy=false" as a rule about '
                                                          'the category "y"); only \';\' and newline do' % (ch, ch)}
        if not cat.isascii():
            table = {}
            for ch in rules + cat:
                if not ch.isascii():
                    table.setdefault(ch, chr(0x41 + len(table) % 26) * (1 + len(table) // 26) + '_')
            fold = lambda t: ''.join(table.get(ch, ch) for ch in t)
            if not still_bad(fold(rules), fold(cat)):
                return 'non_ascii_category', {'explanation': 'with every non-ASCII character replaced by an ASCII stand-in (in rules and '
                                                             'category alike) the same input is answered as specified'}
        elif not rules.isascii():
            return 'non_ascii_rules', {}
        return None, {}

    def report(rules, cat, n_before, only_lf=False, via=''):
        """shrink one falsified (rules, category), classify it, chk.fail; returns (kind, class)"""
        if via and still_bad(rules, cat, ''):
            via = ''                    # the directly constructed filter fails on it as well: not a matter of the front end
        elif via_earlier(via) is not None and still_bad(rules, cat, 'F:'):
            via = 'F:'                  # the earlier request is not needed
        pieces = vlib.shrink_list(split_pieces(rules), lambda ps: still_bad(''.join(ps), cat, via), max_steps=150)
        rules = ''.join(pieces)
        cat = ''.join(vlib.shrink_list(list(cat), lambda cs: still_bad(rules, ''.join(cs), via), max_steps=150))
        rules = ''.join(vlib.shrink_list(list(rules), lambda rs: still_bad(''.join(rs), cat, via), max_steps=250))
        if via_earlier(via) is not None:
            via = via_prefix(''.join(vlib.shrink_list(list(via_earlier(via)), lambda es: still_bad(rules, cat, via_prefix(''.join(es))), max_steps=80)))
        v, mk = judge(rules, cat, via)
        c = (rules, [cat])
        spec = run_model(model, [c], 'spec')[0]
        legacy = (run_model(model, [c], 'legacy', timeout=30) or ['?'])[0]
        ti = mk.index('0') if '0' in mk else 0
        rep = {'rules': rules, 'category': cat, 'rules_hex_utf16': hx(rules), 'category_hex_utf16': hx(cat),
               'msg_type': TYPES[ti], 'implementation_verdicts': v, 'specified_verdicts': spec,
               'types_order': 'debug warning critical fatal info',
               'rules_as_parsed_by_the_specification': run_model(model, [c], 'srules')[0],
               'wildcards_in_the_rule_text': rules.count('*'), 'category_length': len(cat),
               'falsified_cases_before_shrinking': n_before,
               'filter_obtained_via': via, 'filter_obtained_by': via_text(via)}
        if via:
            direct_v = judge(rules, cat, '')[0]
            rep['directly_constructed_filter_verdicts'] = direct_v
            if via_earlier(via) is not None:
                rep['earlier_front_end_request'] = via_earlier(via)
                rep['same_request_as_the_first_of_the_process'] = judge(rules, cat, 'F:')[0]
        kind, cls = 'verdict', None
        lf_free = cat.replace('\n', '\ue000')
        if via:
            # the directly constructed filter answers this input as specified (checked at the top): the defect is in the front end
            cls = 'front_end_depends_on_earlier_request' if via_earlier(via) is not None else 'front_end'
            rep['class'] = cls
            rep['explanation'] = ('CategoryFilter(rules) constructed directly answers as specified; the filter obtained through '
                                  'SimplePipeline::filterCategory(rules) does not' + (' when another pipeline requested a filter before'
                                                                                     if via_earlier(via) is not None else ''))
        elif '\n' in cat and v == legacy and v != spec and not still_bad(rules, lf_free):
            # the implementation behaves like "^...$" without DotMatchesEverything on this input and is right once the
            # line feeds are replaced by another character
            kind = 'lf_in_category'
            cls = ('dollar_before_final_lf' if cat.endswith('\n') and run_model(model, [(rules, [cat[:-1]])], 'spec')[0] == v
                   else 'dot_excludes_lf')
            rep['class'] = cls
        if kind == 'verdict' and v != spec and not via:
            cls, more = explain(rules, cat, v, spec)
            if cls:
                rep['class'] = cls
                rep.update(more)
        rep['kind'] = kind
        if only_lf and kind != 'lf_in_category':
            return kind, cls        # the same non-LF defect was already reported on an LF-free category
        who = 'CategoryFilter(%r)' % rules if not via else (
            'SimplePipeline().filterCategory(%r)%s' % (rules, '' if via_earlier(via) is None else
                                                     ' (after another pipeline requested filterCategory(%r))' % via_earlier(via)))
        chk.fail('%s gives %s for category %r, type %s; ordered rule evaluation prescribes %s%s'
                 % (who, 'pass' if v[ti:ti + 1] == '1' else 'drop', cat, TYPES[ti], 'pass' if spec[ti:ti + 1] == '1' else 'drop',
                    '; the directly constructed CategoryFilter answers as specified' if via else ''),
                 rep, kind=kind)
        return kind, cls

    # a falsified answer of the batch run that a fresh object asked about that one category does not repeat depends on
    # what the object was asked before (the harness puts all categories of a line to one object): such failures are left
    # to the history pass below, which shrinks histories instead of single questions
    confirmed = 0
    if falsified:
        size = lambda f: (len(split_pieces(f[0])), len(f[0]) + len(f[1]))
        falsified = [f for f in sorted(falsified, key=size)]
        # candidates: the smallest ones, and the smallest whose filter came through the front end after an in-line earlier request
        # (a front end handing out a shared object fails on 'F:' lines of the batch only because of EARLIER LINES of the process)
        in_isolation = lambda fs: next((f for f in fs[:6] + [g for g in fs if via_earlier(g[5]) is not None][:6]
                                        if still_bad(f[0], f[1], f[5])), None)
        plain = [f for f in falsified if '\n' not in f[1]]
        with_lf = [f for f in falsified if '\n' in f[1]]
        seen = set()
        f = in_isolation(plain)
        if f:                           # a failure that has nothing to do with LF is reported first
            seen.add(report(f[0], f[1], len(falsified), via=f[5]))
            confirmed += 1
        # categories with LF: the two faces of the "^...$" defect are reported separately; anything else as 'verdict'
        final_lf = [f for f in with_lf if f[1].endswith('\n')]
        inner_lf = [f for f in with_lf if not f[1].endswith('\n')]
        for group in (final_lf, inner_lf):
            f = in_isolation(group)
            if f:
                k, _ = report(f[0], f[1], len(falsified), only_lf=bool(confirmed), via=f[5])
                seen.add(k)
                confirmed += (k == 'lf_in_category' or not confirmed)
    if dis_model:
        r, c, x, y = min(dis_model, key=lambda f: len(f[0]) + len(f[1]))
        chk.broke('correspondence: model (with the translated configuration) and CategoryFilter differ on %d (rules, category) pairs, '
                  'e.g. rules %r category %r: implementation %s model %s' % (len(dis_model), r, c, x, y),
                  {'kind': 'correspondence', 'rules': r, 'category': c, 'implementation_verdicts': x, 'model_verdicts': y})

    # ---- one filter object per rule text answering a HISTORY of messages: the (category, type) queries in random
    # order with repetitions / in bursts of one type, the category names kept where an adversarial but legal caller
    # keeps them (one reused buffer, recycled heap blocks, LogMessage copies).  A verdict must depend neither on
    # what the object was asked before nor on the address of the name.
    seq_cases = cases[:n_fixed:7] + cases[n_fixed:]
    qhist = collections.Counter()
    seqs = [gen_queries(rng, len(c[1]), qhist) for c in seq_cases]
    stor = [rng.choice(STORAGE) for _ in seq_cases]
    corpus_h = load_corpus_histories()
    seq_cases = [h[0] for h in corpus_h] + seq_cases
    seqs = [h[1] for h in corpus_h] + seqs
    stor = [h[2] for h in corpus_h] + stor
    slines = [seq_line(c[0], c[1], q, st) for c, q, st in zip(seq_cases, seqs, stor)]
    slines_i = [via_of(c) + l for c, l in zip(seq_cases, slines)]     # the implementation's line says how the object is obtained
    seq_via_hist = collections.Counter(via_class(via_of(c)) for c in seq_cases)
    for k2 in ('fluent_first_request', 'fluent_after_an_earlier_request'):
        if not seq_via_hist[k2]:
            chk.broke('history generator: no filter object obtained through the front end (%s)' % k2, {'kind': 'generator', 'dimension': k2})
    rcs, out_s, err_s = vlib.run_lines(impl, slines_i)
    out_s = out_s + [''] * (len(slines) - len(out_s))
    split = [split_seq_output(v, st, len(q)) for v, st, q in zip(out_s, stor, seqs)]
    out_s, flags_s = [a for a, _ in split], [b for _, b in split]
    marks_raw = vlib.run_lines(model, [l + ' ' + v for l, v in zip(slines, out_s)], ['oracle'])[1]
    marks_raw += [''] * (len(slines) - len(marks_raw))
    marks_s, whole_s = [m.partition(' ')[0] for m in marks_raw], [m.partition(' ')[2] for m in marks_raw]
    model_s = vlib.run_lines(model, slines, ['model'], timeout=900 if thorough else 90)[1]
    model_s += [''] * (len(slines) - len(model_s))
    seq_queries = sum(len(q) for q in seqs)
    seq_bad, seq_inconsistent, seq_dis, oracle_mismatch = [], 0, [], 0
    addr_hist = collections.Counter()
    for c, q, st, v, fl, mk, wh, mo in zip(seq_cases, seqs, stor, out_s, flags_s, marks_s, whole_s, model_s):
        first = {}
        for k, pair in enumerate(q):
            if first.setdefault(pair, v[k]) != v[k]:
                seq_inconsistent += 1
        bad = len(mk) != len(q) or '0' in mk
        if bad:
            seq_bad.append((c[0], c[1], q, st, via_of(c)))
        if (wh == '1') == bad:             # prop_c15_seq_b must be the conjunction of the per-message marks (C15_history_oracle_pointwise)
            oracle_mismatch += 1
        if mo != v and mo != '':
            seq_dis.append((c[0], c[1], q, st, v, mo))
        addr_hist['objects_' + STORAGE_NAME[st]] += 1
        if st:
            for k in range(1, len(q)):
                if fl[k] == '=':
                    addr_hist['consecutive_other_name_same_address'] += 1
                    if q[k][1] == q[k - 1][1]:
                        addr_hist['...and_same_type'] += 1
                        if len(mo) == len(q) and mo[k] != mo[k - 1]:
                            # the pair on which a memo keyed by (address, type) gives the previous message's verdict
                            addr_hist['...and_other_specified_verdict'] += 1
                            addr_hist['...and_other_specified_verdict_' + STORAGE_NAME[st]] += 1
                elif fl[k] == '+':
                    addr_hist['consecutive_same_name_same_address'] += 1
    if oracle_mismatch:
        chk.broke('model driver: the history oracle prop_c15_seq_b and the per-message oracle prop_c15_b disagree on %d histories' % oracle_mismatch,
                  {'kind': 'driver'})
    for stn in ('B/', 'S/', 'H/', 'C/'):
        if not addr_hist['...and_other_specified_verdict_' + STORAGE_NAME[stn]]:
            chk.broke('history generator: no consecutive same-type messages with different specified verdicts at one address under storage %s '
                      '(the allocator did not recycle the block, or the generator has gone constant)' % STORAGE_NAME[stn], {'kind': 'generator', 'storage': stn})

    def seq_judge(rules, cats, queries, storage='', via=''):
        if not queries:
            return '', ''
        l = seq_line(rules, cats, queries, storage)
        o = vlib.run_lines(impl, [via + l])[1]
        v = split_seq_output(o[0] if o else '', storage, len(queries))[0]
        mk = vlib.run_lines(model, [l + ' ' + v], ['oracle'])[1]
        return v, (mk[0].partition(' ')[0] if mk else '')

    if seq_bad and not confirmed:
        # the fixed-order pass found nothing: the failure needs a particular history / storage of the names
        # the reused-buffer storages first: they do not depend on what the allocator does, so the replay is deterministic
        order = lambda f: (f[3] in ('H/', 'C/'), len(f[2]), len(f[0]))
        rules, cats, queries, storage, via = min(seq_bad, key=order)
        bad = lambda r, cs, qs: '0' in seq_judge(r, cs, qs, storage, via)[1]
        if not bad(rules, cats, queries):
            # not reproducible in isolation (the heap modes depend on the allocator, a shared front-end object on the earlier
            # lines of the process): try the other failing histories
            for cand in sorted(seq_bad, key=order)[:40] + sorted([g for g in seq_bad if via_earlier(g[4]) is not None], key=order)[:10]:
                storage, via = cand[3], cand[4]
                if bad(cand[0], cand[1], cand[2]):
                    rules, cats, queries = cand[0], cand[1], cand[2]
                    break
        if via and '0' in seq_judge(rules, cats, queries, storage, '')[1]:
            via = ''                    # the directly constructed object fails as well: not a matter of the front end
        queries = vlib.shrink_list(queries, lambda qs: bad(rules, cats, qs), max_steps=200)
        used = sorted({ci for ci, _ in queries})
        cats = [cats[ci] for ci in used]
        queries = [(used.index(ci), ti) for ci, ti in queries]
        rules = ''.join(vlib.shrink_list(split_pieces(rules), lambda ps: bad(''.join(ps), cats, queries), max_steps=120))
        rules = ''.join(vlib.shrink_list(list(rules), lambda rs: bad(''.join(rs), cats, queries), max_steps=200))
        for i in range(len(cats)):
            cats[i] = ''.join(vlib.shrink_list(list(cats[i]), lambda cs: bad(rules, cats[:i] + [''.join(cs)] + cats[i + 1:], queries), max_steps=80))
        v, mk = seq_judge(rules, cats, queries, storage, via)
        k = mk.index('0') if '0' in mk else len(queries) - 1
        ci, ti = queries[k]
        alone_v, alone_mk = seq_judge(rules, cats, [queries[k]], storage, via)
        plain_v, plain_mk = seq_judge(rules, cats, queries, '', via)
        kind = 'order_dependent' if alone_mk == '1' else 'verdict'
        spec_seq = vlib.run_lines(model, [seq_line(rules, cats, queries, storage)], ['spec'])[1]
        rep = {'kind': kind, 'rules': rules, 'categories': cats, 'rules_hex_utf16': hx(rules),
               'query_sequence': [{'category': cats[a], 'type': TYPES[b], 'implementation': v[n], 'specified': (spec_seq[0][n] if spec_seq else '?')}
                                  for n, (a, b) in enumerate(queries)],
               'queries': ['%d:%d' % q for q in queries], 'failing_query_index': k,
               'storage': storage, 'category_names_stored_in': STORAGE_NAME[storage],
               'same_query_on_a_fresh_object': alone_v, 'histories_with_a_falsified_answer': len(seq_bad),
               'filter_obtained_via': via, 'filter_obtained_by': via_text(via)}
        where = ''
        if via:
            rep['same_history_on_a_directly_constructed_filter'] = seq_judge(rules, cats, queries, storage, '')[0]
            rep['class'] = 'front_end_depends_on_earlier_request' if via_earlier(via) is not None else 'front_end'
            where = ' (the object was obtained through the front end: %s; the directly constructed filter answers the same history as specified)' % via_text(via)
        if storage:
            rep['same_history_with_every_name_at_its_own_address'] = plain_v
            if kind == 'order_dependent' and '0' not in plain_mk and not via:
                rep['class'] = 'address_reuse'
                where = ' (the category names of consecutive messages share one address: %s; with every name at its own address the same history is answered as specified)' % STORAGE_NAME[storage]
        chk.fail('one CategoryFilter(%r) object: query #%d (category %r, type %s) is answered %s after the earlier queries, %s on a fresh object; '
                 'ordered rule evaluation prescribes %s%s' % (rules, k + 1, cats[ci], TYPES[ti], 'pass' if v[k] == '1' else 'drop',
                                                           'pass' if alone_v == '1' else 'drop', 'drop' if v[k] == '1' else 'pass', where),
                 rep, kind=kind)
    if falsified and not confirmed and not seq_bad:
        # falsified in the batch run, not by a fresh object per category, and the generated histories are all answered as specified:
        # report the batch line itself (one object asked about its categories in order, five types each)
        f = falsified[0]
        c = (f[0], f[4], f[5])
        _, o, _ = run_impl(impl, [c])
        v = o[0] if o and well_formed(c, o[0]) else ','.join('?????' for _ in c[1])
        mk = run_oracle(model, [c], [v])
        if mk and '0' in mk[0]:
            chk.fail('one CategoryFilter(%r) object asked about the categories %r in this order (five types each) answers %s; ordered rule evaluation '
                     'prescribes %s; a fresh object per category answers as specified' % (c[0], c[1], v, run_model(model, [c], 'spec')[0]),
                     {'kind': 'order_dependent', 'rules': c[0], 'categories': c[1], 'implementation_verdicts': v,
                      'types_order': 'debug warning critical fatal info'}, kind='order_dependent')
        else:
            chk.broke('%d answers of the batch run were not as specified but neither a fresh object nor a re-run of the line repeats them' % len(falsified),
                      {'kind': 'unreproducible', 'rules': c[0], 'categories': c[1]})
    if seq_dis and not seq_bad and not falsified:
        r, cs, q, st, v, mo = min(seq_dis, key=lambda f: (len(f[2]), len(f[0])))[:6]
        chk.broke('correspondence: object model (object_answers src_cfg) and one CategoryFilter object differ on %d histories' % len(seq_dis),
                  {'kind': 'correspondence', 'rules': r, 'categories': cs, 'queries': ['%d:%d' % x for x in q], 'storage': st,
                   'implementation_verdicts': v, 'model_verdicts': mo})
    if rcs != 0:
        chk.fail('implementation crashed while answering a query sequence', {'kind': 'crash', 'rc': rcs, 'stderr': err_s[-500:]}, kind='crash')

    ph['query_sequences'] = round(_t.time() - t0, 1); t0 = _t.time()
    # cross-check: Qt's QLoggingCategory on the subset of the rule language Qt itself supports
    qh = collections.Counter()
    qcases = [gen_qt_case(rng, qh) for _ in range(20000 if thorough else 2500)]
    env_qt = {'QT_LOGGING_RULES': '', 'QT_LOGGING_CONF': '/nonexistent', 'QT_LOGGING_DEBUG': ''}
    rcq, out_q, err_q = vlib.run_lines(impl, [line_of(c) for c in qcases], ['qt'], env=env_qt)
    _, out_c, _ = run_impl(impl, qcases)
    qt_diff, qt_eval, qt_blocked = [], 0, 0
    for c, q, a in zip(qcases, out_q, out_c):
        for cat, vq, va in zip(c[1], q.split(','), a.split(',')):
            qt_eval += 4
            qt_blocked += va != '11111'
            if vq.replace('-', '') != va[:3] + va[4:]:
                qt_diff.append((c[0], cat, va, vq))
    if rcq != 0 or len(out_q) != len(qcases):
        chk.broke('Qt cross-check: harness failed in qt mode (rc=%s)' % rcq, {'kind': 'qt_crosscheck', 'stderr': err_q[-400:]})
    elif qt_diff:
        r, c, va, vq = min(qt_diff, key=lambda f: len(f[0]) + len(f[1]))
        chk.broke('Qt cross-check: CategoryFilter and QLoggingCategory differ on %d (rules, category) pairs of the Qt-supported subset, e.g. '
                  'rules %r category %r: CategoryFilter %s QLoggingCategory %s' % (len(qt_diff), r, c, va, vq),
                  {'kind': 'qt_crosscheck', 'rules': r, 'category': c, 'implementation_verdicts': va, 'qloggingcategory_verdicts': vq})

    ph['qt_crosscheck'] = round(_t.time() - t0, 1); t0 = _t.time()
    # thorough: the same cases through the sanitizer build, the single-header build and with a null category pointer
    extra = {}
    if thorough:
        sub = cases[:n_fixed] + cases[n_fixed:n_fixed + 8000]
        for variant, args in (('san', ()), ('hdr', ()), ('', ('null',))):
            try:
                exe = vlib.build_harness('category', variant) if variant else impl
                rc2, o2, e2 = run_impl(exe, sub, args)
                o2 = [v if well_formed(c, v) else '?' for c, v in zip(sub, o2)]
                d = sum(1 for a, b in zip(o2, out_i[:len(sub)]) if a != b) + abs(len(o2) - len(sub))
                extra['variant_%s_differences' % (variant or 'nullptr_category')] = d
                if rc2 != 0 or d:
                    k = next((i for i, (a, b) in enumerate(zip(o2, out_i)) if a != b), 0)
                    chk.fail('%s build of the harness %s' % (variant or 'null-category', 'crashed' if rc2 else 'gives other verdicts'),
                             {'kind': 'variant', 'variant': variant or 'nullptr_category', 'rc': rc2, 'stderr': e2[-800:],
                              'rules': sub[k][0], 'categories': sub[k][1]}, kind='variant')
                if variant:
                    # the histories with adversarial name storage as well (a memo that keeps a dangling name pointer and
                    # reads through it is a use-after-free only the sanitizer build sees)
                    nseq = min(len(slines), 6000)
                    rc3, o3, e3 = vlib.run_lines(exe, slines_i[:nseq])
                    o3 = o3 + [''] * (nseq - len(o3))
                    d3 = [i for i in range(nseq) if split_seq_output(o3[i], stor[i], len(seqs[i]))[0] != out_s[i]]
                    extra['variant_%s_history_differences' % variant] = len(d3)
                    if rc3 != 0 or d3:
                        i = d3[0] if d3 else min(len(o3), nseq) - 1
                        chk.fail('%s build of the harness %s on a history of messages' % (variant, 'crashed' if rc3 else 'gives other answers'),
                                 {'kind': 'variant', 'variant': variant, 'rc': rc3, 'stderr': e3[-800:], 'rules': seq_cases[i][0],
                                  'categories': seq_cases[i][1], 'queries': ['%d:%d' % q for q in seqs[i]], 'storage': stor[i]}, kind='variant')
            except RuntimeError as e:
                chk.broke('harness variant %s does not build: %s' % (variant, str(e)[-300:]), {'kind': 'build', 'variant': variant})

    chk.cov.update({'evaluations': evaluations, 'rule_texts': len(cases), 'distinct_rule_texts': len({c[0] for c in cases}),
                    'distinct_nontrivial': len(nontrivial),
                    'rule': 'corpus (LF-in-category regression cases) + every pattern over {a,b,*} of length<=3 x every category over {a,b} of length<=4 + every list of '
                            '%d rules over 24 small rules + random rule texts (wildcards at start/middle/end/both/multiple, typed/untyped/odd '
                            'suffixes, regex metacharacters, the ASCII punctuation that does not separate (: , | # / \\ quotes) in names, garbage lines and fillers, non-ASCII and astral names, blanks, CRLF, garbage and mutated lines, mixed separators, odd values) + the many-wildcard family (up to 40 stars, matching and near-miss categories up to 255 chars) x 3-6 '
                            'categories (instantiated from the patterns, perturbed, pieces of a line between non-separators, pool, empty, default, very long, with LF) x 5 types; '
                            'non-trivial = distinct (rules, category) where at least one type is blocked' % (3 if thorough else 2),
                    'corpus_cases': n_corpus, 'fixed_cases': n_fixed,
                    'filter_object_obtained_via': {'rule_texts': dict(via_hist), 'history_objects': dict(seq_via_hist),
                                                   'rule': 'every non-corpus case: 70% CategoryFilter(rules) constructed directly, 15% SimplePipeline().filterCategory(rules)'
                                                           '.handler(capture) as the first front-end request of the line, 15% the same after another pipeline requested '
                                                           'filterCategory(<earlier text>) (a fixed pool or the rule text of another case); verdict of a fluent object = '
                                                           'whether the trailing handler is reached; expected answers are those of the model of the direct object '
                                                           '(C15_front_end_is_transparent)'},
                    'separators_and_alphabets': dict(gen_dims, rule='separator sweep: for every code point 1..0x7F and %d non-ASCII look-alikes of separators / line ends / '
                                                     'blanks c: the texts x<c>y=false, *=false;junk<c>y=true, x=true<c>y=false, x<c>y.debug=false<c>y.info=false x the '
                                                     'categories x<c>y, y, x, xy, x<c>, <c>y, x<c><c>y; non-ASCII names: %d names (2/3/4-byte UTF-8, boundary code points, '
                                                     'combining mark, inner U+FEFF) x 8 rule shapes (whole, typed, after *=false, prefix*, *suffix, *name*, and the rules '
                                                     'naming the UTF-8 bytes of the name read as Latin-1) x the name, that misreading, neighbours' % (len(SWEEP_EXTRA), len(UNI_NAMES))),
                    'leading_bom_probe': leading_bom_probe,
                    'disagreements_model_vs_impl': len(dis_model), 'oracle_evaluated_on_impl_verdicts': evaluations,
                    'oracle_falsified': len(falsified),
                    'query_sequences': {'filter_objects': len(seq_cases), 'corpus_histories': len(corpus_h), 'queries': seq_queries,
                                        'objects_with_a_falsified_answer': len(seq_bad), 'answers_differing_from_the_first_answer_to_the_same_query': seq_inconsistent,
                                        'histories_where_object_model_and_implementation_differ': len(seq_dis),
                                        'history_shape_histogram': dict(qhist), 'name_storage_and_address_reuse_histogram': dict(addr_hist),
                                        'rule': 'one CategoryFilter object per rule text answering a history (chk.rng): all (category, type) pairs shuffled with ~35% asked again / '
                                                'bursts of one type over all categories / random walk; the category names live at their own addresses, in ONE reused buffer '
                                                '(optionally scribbled over after the query), in a malloc block freed after the query, or in the heap QByteArray of a LogMessage copy '
                                                'destroyed after the query; per-message oracle prop_c15_b and history oracle prop_c15_seq_b on every answer, object model '
                                                '(object_answers src_cfg) compared with the answers'}, 'verdict_vector_histogram': dict(vec_hist),
                    'accepted_lines_per_text_histogram': dict(parsed_hist), 'matching_rules_per_evaluation_histogram': dict(match_hist),
                    'line_parser_branch_histogram': dict(line_hist),
                    'python_reference_vs_impl_differences': py_diff,
                    'qt_crosscheck': {'rule_texts': len(qcases), 'evaluations': qt_eval, 'pairs_with_a_blocked_type': qt_blocked,
                                      'differences': len(qt_diff), 'pattern_shapes': dict(qh),
                                      'subset': 'ASCII, one "=", no blank inside the name, "*" only at start and/or end, no backslash or percent sign (QSettings key unescaping), fatal excluded, categories '
                                                'not qt*/empty, "*suffix" rules only where the first occurrence of the suffix is the final one'},
                    'phase_wall_s': ph,
                    'many_wildcards_family_histogram': dict(mh),
                    'rule_generator_histogram': dict(hist), 'category_generator_histogram': dict(chist)})
    chk.cov.update(extra)
    idx = [n_fixed + 1, n_fixed + 2, len(cases) // 2]
    chk.samples = [{'rules': cases[i][0], 'categories': cases[i][1], 'filter_obtained_by': via_text(via_of(cases[i])), 'impl': out_i[i], 'model': out_m[i]}
                   for i in idx if i < len(cases)]
    return chk.finish()


def replay(path):
    r = json.load(open(path))['replay']
    if isinstance(r, list):
        r = r[0]
    rules, cat = r.get('rules'), r.get('category')
    if rules is None:
        print(json.dumps(r, indent=1)); return 0
    cats = [cat] if cat is not None else r.get('categories', [''])
    vlib.gen_src(['category'])
    model = vlib.build_model('category'); impl = vlib.build_harness('category')
    via = r.get('filter_obtained_via', '')
    c = (rules, cats, via)
    print('filter object    %s' % via_text(via))
    if r.get('queries'):
        l = line_of(c) + ' ' + r.get('storage', '') + ','.join(r['queries'])
        print('rules            %r' % rules)
        print('categories       %r' % cats)
        print('category names stored in: %s' % STORAGE_NAME.get(r.get('storage', ''), '?'))
        print('queries (category index:type index, types debug warning critical fatal info)', ' '.join(r['queries']))
        print('implementation (one object, this order)  ', vlib.run_lines(impl, [via + l])[1])
        if via:
            print('implementation, filter constructed directly', vlib.run_lines(impl, [l])[1])
        print('model / specification (order-independent)', vlib.run_lines(model, [l])[1], vlib.run_lines(model, [l], ['spec'])[1])
        return 0
    print('rules            %r' % rules)
    print('categories       %r' % cats)
    print('types            debug warning critical fatal info')
    print('implementation  ', run_impl(impl, [c])[1])
    if via:
        print('impl., direct   ', run_impl(impl, [(rules, cats)])[1], '  (CategoryFilter(rules) constructed directly)')
    print('model           ', run_model(model, [c]))
    print('specification   ', run_model(model, [c], 'spec'))
    print('parsed rules    ', run_model(model, [c], 'srules'))
    return 0
