"""C20 helper — conditional groups of the library sources: scanner, instrumentation (one marker pragma after every
#if/#ifdef/#ifndef/#elif/#else and at the top of every file), translation into the line protocol of the extracted
model (coq/theories/AmalgamCondDefs.v, build/m_amalgam cond) and the comparison of what g++ -E does in the library
build and in a header-only user's build."""
import os, re

EXTS = ('.h', '.cpp', '.inc', '.hpp', '.ipp', '.tpp')
TRACKED = re.compile(r'^QTLOGGER_[A-Za-z0-9_]+$')          # the macros the model tracks; everything else is opaque
MARK, FMARK = '#pragma c20m ', '#pragma c20f '


def strip_comments(line, in_block):
    """text of one physical line outside comments (string and character literals respected); returns (text, in_block)"""
    out, i, n = [], 0, len(line)
    while i < n:
        if in_block:
            j = line.find('*/', i)
            if j < 0:
                return ''.join(out), True
            i, in_block = j + 2, False
            out.append(' ')
            continue
        c = line[i]
        if c == '/' and i + 1 < n and line[i + 1] == '/':
            break
        if c == '/' and i + 1 < n and line[i + 1] == '*':
            in_block = True
            i += 2
            continue
        if c in '"\'':
            j = i + 1
            while j < n and line[j] != c:
                j += 2 if line[j] == '\\' else 1
            out.append(line[i:j + 1])
            i = j + 1
            continue
        out.append(c)
        i += 1
    return ''.join(out), in_block


def scan(text):
    """directives of one file: list of dicts {kind, arg, first, last} (0-based physical lines of the logical line).
    Lines inside block comments and continuation lines of macro definitions are not directives."""
    lines = text.split('\n')
    res, in_block, i = [], False, 0
    while i < len(lines):
        code, in_block2 = strip_comments(lines[i], in_block)
        first = i
        logical = code
        # splice continuation lines (the backslash must be the last character of the physical line)
        while lines[i].endswith('\\') and not in_block2 and i + 1 < len(lines):
            logical = logical.rstrip()[:-1] if logical.rstrip().endswith('\\') else logical
            i += 1
            nxt, in_block2 = strip_comments(lines[i], in_block2)
            logical += ' ' + nxt
        m = None if in_block else re.match(r'\s*#\s*([a-z_]+)\b(.*)$', logical, re.S)
        in_block = in_block2
        if m:
            res.append({'kind': m.group(1), 'arg': m.group(2).strip(), 'first': first, 'last': i, 'text': re.sub(r'\s+', ' ', logical.strip())})
        i += 1
    return res


COND_KINDS = ('if', 'ifdef', 'ifndef', 'elif', 'else')


def instrument(text, file_id, next_id, table, rel):
    """insert the markers; returns the new text.  table: id -> {file, line, text, kind}"""
    lines = text.split('\n')
    ins = {}
    for d in scan(text):
        if d['kind'] in COND_KINDS:
            gid = next_id[0]
            next_id[0] += 1
            table[gid] = {'file': rel, 'line': d['first'] + 1, 'text': d['text'], 'kind': d['kind']}
            ins[d['last']] = gid
    out = [FMARK + str(file_id)]
    for k, l in enumerate(lines):
        out.append(l)
        if k in ins:
            out.append(MARK + str(ins[k]))
    return '\n'.join(out)


# ---- condition expressions -> prefix form of the model -----------------------------------------------------------
TOK = re.compile(r'\s*(defined\b|[A-Za-z_]\w*|\d+[uUlL]*|&&|\|\||[()!]|.)', re.S)


class Macros:
    def __init__(self):
        self.num = {}

    def of(self, name):
        if name not in self.num:
            self.num[name] = len(self.num) + 1
        return self.num[name]

    def name(self, n):
        return next((k for k, v in self.num.items() if v == n), '?%d' % n)


def translate_cond(expr, gid, macros):
    """prefix tokens; anything beyond defined()/!/&&/||/0/1 over tracked macros becomes one opaque atom o<gid>:<tracked macros>"""
    toks = [t for t in TOK.findall(expr) if t.strip()]
    pos = [0]

    class Opaque(Exception):
        pass

    def peek():
        return toks[pos[0]] if pos[0] < len(toks) else None

    def eat(t=None):
        x = peek()
        if x is None or (t is not None and x != t):
            raise Opaque()
        pos[0] += 1
        return x

    def p_or():
        a = p_and()
        while peek() == '||':
            eat()
            a = ['|'] + a + p_and()
        return a

    def p_and():
        a = p_un()
        while peek() == '&&':
            eat()
            a = ['&'] + a + p_un()
        return a

    def p_un():
        t = peek()
        if t == '!':
            eat()
            return ['!'] + p_un()
        if t == '(':
            eat()
            a = p_or()
            eat(')')
            return a
        if t == 'defined':
            eat()
            if peek() == '(':
                eat()
                name = eat()
                eat(')')
            else:
                name = eat()
            if not TRACKED.match(name):
                raise Opaque()
            return ['d%d' % macros.of(name)]
        if t in ('0', '1'):
            eat()
            return [t]
        raise Opaque()
    try:
        r = p_or()
        if pos[0] != len(toks):
            raise Opaque()
        return r
    except Opaque:
        ms = sorted({macros.of(t) for t in toks if TRACKED.match(t)})
        return ['o%d:%s' % (gid, '.'.join(str(m) for m in ms))]


def model_lines(directives, ids, macros, resolve):
    """protocol lines of one file.  ids: per conditional directive (in order) its group id; resolve(include text) -> file id or None"""
    out, k = [], 0
    for d in directives:
        kd, arg = d['kind'], d['arg']
        if kd in COND_KINDS:
            gid = ids[k]
            k += 1
            if kd == 'else':
                out.append('L %d' % gid)
                continue
            if kd == 'ifdef':
                c = translate_cond('defined(%s)' % arg.split()[0] if arg.split() else '', gid, macros)
            elif kd == 'ifndef':
                c = translate_cond('!defined(%s)' % arg.split()[0] if arg.split() else '', gid, macros)
            else:
                c = translate_cond(arg, gid, macros)
            out.append('%s %d %s' % ('E' if kd == 'elif' else 'I', gid, ' '.join(c)))
        elif kd == 'endif':
            out.append('N')
        elif kd in ('define', 'undef'):
            m = re.match(r'([A-Za-z_]\w*)', arg)
            if m and TRACKED.match(m.group(1)):
                out.append('%s %d' % ('D' if kd == 'define' else 'U', macros.of(m.group(1))))
        elif kd == 'include':
            m = re.match(r'"([^"]+)"', arg)
            f = resolve(m.group(1)) if m else None
            if f is not None:
                out.append('C %d' % f)
        elif kd == 'pragma' and re.match(r'once\b', arg):
            out.append('O')
    return out


def markers_of(pp_output):
    """(groups entered, files entered), in order, from the marker pragmas that survive preprocessing"""
    groups, files = [], []
    for l in pp_output.splitlines():
        if l.startswith(MARK):
            groups.append(int(l[len(MARK):].split()[0]))
        elif l.startswith(FMARK):
            files.append(int(l[len(FMARK):].split()[0]))
    return groups, files
