"""C16 — Built-in filters and counters follow their decision rules on every sequence."""
import itertools, json, os, random
import vlib

META = {
    'id': 'C16',
    'level': 'proof',
    'technique': 'Coq proofs over all message sequences / scenarios (automata invariants, projection of a multi-pipeline '
                 'run onto each shared handler object, Brzozowski-derivative matcher proved equal to an inductive matching '
                 'relation with search semantics) + source-to-Coq translation of the decision rules + differential run of '
                 'the extracted model and the extracted reference monitor against the real handler objects',
    'text': 'Properties_C16.v proves, for the rule configuration translated from the source on every run: LevelFilter passes '
            'iff severity(type) >= severity(threshold) (all 25 pairs, priority = severity rank); a DuplicateFilter object drops '
            'exactly the messages whose text equals the text of the message it saw immediately before (initially empty) and so '
            'passes the run-collapsed sequence; a SeqNumberAttr object hands out 0,1,2,... to the messages it sees, inside the '
            'int range for up to 2^31 messages, whatever later handlers decide and however many pipelines share the object; '
            'RegExpFilter passes iff the expression matches a factor of the text (regex subset, derivative matcher = inductive '
            'relation). The extracted model and the extracted boolean monitor are run against the real objects, each kind obtained both by '
            'constructing the class and through the fluent API (SimplePipeline::filterLevel / filterDuplicate / filter(regexp) / addSeqNumber; '
            'the translator anchors that each appends exactly one object of the translated class built from the argument); the 25 level pairs '
            'go through both; one run of 70000 messages through one SeqNumberAttr is compared with observe ref_cfg (= the oracle, C16_oracle_exact).',
    'note': 'Trusted: Coq 8.16.1 kernel (vm_compute only for the closed configuration check and the 25-pair sweep), no axioms; '
            'tools/s2c/filters.py (regex translation of levelfilter.h, duplicatefilter.*, regexpfilter.cpp, seqnumberattr.*), '
            'extraction (ExtrOcamlBasic) and ocaml/drv_filters.ml (reads a fluently obtained object as its kind), harness/h_filters.cpp (a fluent object '
            '= the handlers a scratch SimplePipeline holds after the fluent call, run in order until one says no), the scenario generator. Modelled not '
            'verified: QString::operator== (code-unit equality, null == empty), QVariantHash, Pipeline::process (C01), '
            'QRegularExpression/PCRE2 — the regex theorem is about the modelled subset (literals, classes, ., concatenation, '
            'alternation, * + ?, ^ $ with PCRE2 defaults: UTF mode, newline LF, no MULTILINE/DOTALL/DOLLAR_ENDONLY); the full '
            'derivative matcher was built (no fall-back to literal matchers). int overflow of the counter after 2^31 messages is '
            'outside the model (the theorem states the bound). A subject with an unpaired surrogate never matches (PCRE2 UTF check).',
    'design_ref': 'DESIGN.md section 4, C16',
    'engine': 'coq+extraction+harness',
}

# ------------------------------------------------------------------------------------------ texts
def u16(s):
    b = s.encode('utf-16-be', 'surrogatepass')
    return ''.join('%02x%02x' % (b[i], b[i + 1]) for i in range(0, len(b), 2))


NULL = '-'
FAMILIES = {
    'case': ['abc', 'ABC', 'Abc', 'abC'],
    'space': ['a b', 'a  b', 'a b ', ' a b', 'a\tb', 'a\u00a0b', 'ab'],
    'norm2': ['caf\u00e9', 'cafe\u0301', 'cafe', 'a\u200bb', 'ab', 'a\u200b\u200bb', 'a\u00adb'],  # canonically equivalent / ignorable code points
    'norm': ['\u00e9', 'e\u0301', 'e', '\u00c5', 'A\u030a', '\u212b'],      # NFC / NFD / compatibility forms
    'empty': [None, '', ' ', '\n', '\u200b'],
    'newline': ['a', 'a\n', 'a\n\n', '\na', 'a\r', 'a\r\n', 'a '],
    'astral': ['\U0001F600', '\U0001F601', '\U0001F600\U0001F600', 'a\U0001F600b'],
    'illformed': ['\ud83d', '\ude00', 'a\ud83db', '\ude00\ud83d', 'ab\udc00'],
    'hash': ['Aa', 'BB', 'AaAa', 'BBBB', 'AaBB', 'BBAa', 'C#'],     # equal length, equal 31-multiplier hash (qHash, seed 0)
    'plain': ['a', 'b', 'ab', 'ba', 'aab', 'abab', 'x', 'hello world', 'a1', '0', 'zz9'],
}


def tok_text(t):
    return NULL if t is None else u16(t)


def gen_texts(rng, n, hist):
    """a sequence of n texts made of runs and alternations over a small pool of confusable texts"""
    fam = rng.choice(list(FAMILIES))
    hist['family_' + fam] = hist.get('family_' + fam, 0) + 1
    pool = list(FAMILIES[fam])
    if rng.random() < 0.5:
        pool += rng.sample(FAMILIES['empty'], 2)
    if rng.random() < 0.3:
        pool += rng.sample(FAMILIES['plain'], 2)
    pool = rng.sample(pool, min(len(pool), rng.randint(2, 4)))
    out = []
    style = rng.choice(['runs', 'alt', 'mixed'])
    while len(out) < n:
        if style == 'alt' or (style == 'mixed' and rng.random() < 0.4):
            a, b = rng.choice(pool), rng.choice(pool)
            k = rng.randint(1, 3)
            out += [a, b] * k
        else:
            k = min(rng.choice([1, 1, 2, 2, 3, 5]), 8)
            hist['run_%d' % k] = hist.get('run_%d' % k, 0) + 1
            out += [rng.choice(pool)] * k
    return out[:n]


# ------------------------------------------------------------------------------------------ regex menu
REG_ALPHA = [0x61, 0x62, 0x41, 0x20, 0x0a, 0x31, 0xe9, 0x65, 0x301, 0x1F600, 0x78]


def gen_re(rng, depth):
    """prefix AST over the modelled subset"""
    r = rng.random()
    if depth <= 0 or r < 0.3:
        k = rng.random()
        if k < 0.5:
            return 'c%x;' % rng.choice(REG_ALPHA)
        if k < 0.62:
            return '.'
        if k < 0.82:
            rs = []
            for _ in range(rng.randint(1, 3)):
                lo = rng.choice(REG_ALPHA + [0x30, 0x61, 0x41])
                hi = lo + rng.choice([0, 0, 1, 2, 9, 25])
                if lo <= 0xDFFF and hi >= 0xD800:
                    hi = lo
                rs.append('%x-%x' % (lo, hi))
            return '[%d%s;' % (rng.random() < 0.35, ','.join(rs))
        if k < 0.9:
            return '^'
        if k < 0.98:
            return '$'
        return 'e'
    if r < 0.55:
        return '&' + gen_re(rng, depth - 1) + gen_re(rng, depth - 1)
    if r < 0.72:
        return '|' + gen_re(rng, depth - 1) + gen_re(rng, depth - 1)
    return rng.choice('*+?') + gen_re(rng, depth - 1)


def gen_anchored_literal(rng, texts):
    """substring / prefix-anchored / suffix-anchored literal taken from a text of the scenario"""
    cand = [t for t in texts if t]
    t = rng.choice(cand) if cand else 'a'
    cps = [ord(c) for c in t if not 0xD800 <= ord(c) <= 0xDFFF] or [0x61]
    i = rng.randrange(len(cps)); j = rng.randint(i + 1, len(cps))
    # right-nested concatenation of the literals
    parts = ['c%x;' % c for c in cps[i:j]]
    ast = parts[-1]
    for p in reversed(parts[:-1]):
        ast = '&' + p + ast
    k = rng.random()
    if k < 0.25:
        return '&^' + ast
    if k < 0.5:
        return '&' + ast + '$'
    if k < 0.6:
        return '&^&' + ast + '$'
    return ast


# ------------------------------------------------------------------------------------------ scenarios
class Scn:
    def __init__(self, objs, pipes, msgs):
        self.objs, self.pipes, self.msgs = list(objs), [list(p) for p in pipes], list(msgs)

    def line(self, pcre):
        toks = []
        for o in self.objs:
            toks.append('o:' + (o if o[0] not in 'Rr' else '%s%s~%s' % (o[0], o[1:], pcre[o[1:]])))
        toks += ['p:' + ','.join(str(i) for i in p) for p in self.pipes]
        toks += [('m:%d' % m[0] if m[0] >= 0 else 'a:%d' % (-m[0] - 1)) + ':%d:%d:%s' % tuple(m[1:4])
                 + ((':%d:%d' % (m[4], m[5])) if len(m) > 5 and m[5] else (':%d' % m[4] if len(m) > 4 and m[4] else '')) for m in self.msgs]
        return ' '.join(toks)

    def kinds(self):
        used = {i for p in self.pipes for i in p if i < len(self.objs)}
        used |= {-m[0] - 1 for m in self.msgs if m[0] < 0 and -m[0] - 1 < len(self.objs)}
        return sorted({self.objs[i][0].upper() for i in used})

    def fluent(self):
        """object numbers obtained through the fluent API (lower-case kind)"""
        return [i for i, o in enumerate(self.objs) if o[0] in FLUENT]


# lower-case kind = the same handler kind, obtained by the harness through SimplePipeline's fluent method
FLUENT = {'d': 'SimplePipeline::filterDuplicate()', 'n': 'SimplePipeline::addSeqNumber(name)', 'v': 'SimplePipeline::filterLevel(t)',
          'r': 'SimplePipeline::filter(regexp)'}


def fluently(rng, scn, hist):
    """the same scenario with some of its D / N / V / R objects obtained through the fluent API"""
    idx = [i for i, o in enumerate(scn.objs) if o[0] in 'DNVR']
    if not idx:
        return scn
    pick = idx if rng.random() < 0.3 else [i for i in idx if rng.random() < 0.5]
    for i in pick:
        o = scn.objs[i]
        scn.objs[i] = o[0].lower() + o[1:]
        hist['fluent_' + o[0]] = hist.get('fluent_' + o[0], 0) + 1
    return scn


LONG_N = 70000


def long_scn(n, fluent):
    """n tiny messages through ONE SeqNumberAttr shared by two pipelines; a later filter drops every third message"""
    a = u16('a')
    return Scn(['n' if fluent else 'N', 'X0'], [[0, 1], [0]], [(1 if k % 5 == 4 else 0, 4, 1 if k % 3 == 2 else 0, a, 0) for k in range(n)])


def gen_scenario(rng, hist, big):
    shape = rng.choice(['dup', 'fmtdup', 'seqdrop', 'shared', 'regex', 'level', 'free', 'free'])
    hist['shape_' + shape] = hist.get('shape_' + shape, 0) + 1
    n = rng.randint(4, 40 if big else 22)
    texts = gen_texts(rng, n, hist)
    objs, pipes = [], []
    if shape == 'dup':
        objs, pipes = ['D'], [[0]]
    elif shape == 'fmtdup':
        objs = [rng.choice(['FC', 'FT']), 'D', 'N']
        pipes = [[0, 1, 2], [2, 0, 1]][:rng.randint(1, 2)]
    elif shape == 'seqdrop':
        objs = ['N', 'X%d' % rng.randint(0, 2), 'D', 'V%d' % rng.randint(0, 4), 'N']
        pipes = [rng.sample([0, 1, 2, 3, 4], 5)]
        pipes[0].remove(0); pipes[0].insert(0, 0)
    elif shape == 'shared':
        objs = ['N', 'D', 'X0', 'X1', 'V%d' % rng.randint(0, 4), 'D']
        pipes = [[0, 2, 1], [3, 0, 1], [0, 1, 4, 0, 5]][:rng.randint(2, 3)]
    elif shape == 'regex':
        objs = [('R' + (gen_anchored_literal(rng, texts) if rng.random() < 0.35 else gen_re(rng, rng.randint(1, 4))))
                for _ in range(rng.randint(1, 4))]
        pipes = [[i] for i in range(len(objs))]
        if len(objs) > 1:
            pipes.append(list(range(len(objs))))
    elif shape == 'level':
        objs = ['V%d' % t for t in range(5)] + ['N']
        pipes = [[5, t] for t in range(5)]
    else:
        menu = ['D', 'N', 'D', 'N', 'V%d' % rng.randint(0, 4), 'X%d' % rng.randint(0, 2), 'FC', 'FT',
                'R' + gen_re(rng, rng.randint(1, 3))]
        objs = [rng.choice(menu) for _ in range(rng.randint(2, 7))]
        pipes = []
        for _ in range(rng.randint(1, 3)):
            k = rng.randint(0, 6)
            p = [rng.randrange(len(objs) + (1 if rng.random() < 0.05 else 0)) for _ in range(k)]
            pipes.append(p)
    msgs = []
    # which harness thread constructs and sends each message: all on the main thread, or a pool of 2-4 threads
    # (the rules are about the sequence a handler sees, whoever logs)
    threads = [0] if rng.random() < 0.4 else rng.sample([0, 1, 2, 3], rng.randint(2, 4))
    hist['threads_%d' % len(threads)] = hist.get('threads_%d' % len(threads), 0) + 1
    direct_targets = [i for i, o in enumerate(objs) if o[0] in 'NDVRX']   # (objects become fluent only after generation)
    seq_targets = [i for i, o in enumerate(objs) if o[0] == 'N']
    direct_targets += seq_targets * 3                       # mostly the counters
    direct = bool(direct_targets) and rng.random() < 0.35
    for t in texts:
        p = rng.randrange(len(pipes)) if rng.random() > 0.02 else len(pipes)   # rarely: a pipeline that does not exist
        if direct and rng.random() < 0.3:
            # another user of a handler object calls attributes() / filter() on it directly (step "a:")
            p = -(rng.choice(direct_targets) + 1)
            hist['direct_calls'] = hist.get('direct_calls', 0) + 1
        msgs.append((p, rng.randrange(5), rng.choice([0, 0, 0, 1, 2, 3, 4, 5, 7]), tok_text(t), rng.choice(threads)))
    return Scn(objs, pipes, msgs)


def exhaustive_scenarios(maxlen):
    """every text sequence of length <= maxlen over {null, "", "a", "A"} x drop flag through N, X0, D in
    one pipeline, and alternately through two pipelines sharing N and D"""
    texts = [NULL, '', u16('a'), u16('A')]
    for k in range(1, maxlen + 1):
        for seq in itertools.product(range(len(texts) * 2), repeat=k):
            msgs = [(i % 2, 4, (s // len(texts)), texts[s % len(texts)], (i + k) % 3) for i, s in enumerate(seq)]
            yield Scn(['N', 'X0', 'D'], [[0, 1, 2], [2, 0]], msgs)
            if k <= maxlen - 1:
                # the same, with every message of a dropping flag replaced by a direct call: attributes() on the
                # counter (even positions) or filter() on the duplicate filter (odd positions)
                yield Scn(['N', 'X0', 'D'], [[0, 1, 2], [2, 0]],
                          [m if not m[2] else ((-1 if i % 2 == 0 else -3), 4, 0, m[3], m[4]) for i, m in enumerate(msgs)])


def regex_asts(scns):
    return sorted({o[1:] for s in scns for o in s.objs if o[0] in 'Rr'})


def raw_edge_blanks(h):
    """the model prints a blank literal as \\x{20} / \\x{a} / \\x{9}; at the two EDGES of the pattern text the
    harness is handed the raw character instead (same PCRE meaning: no extended mode is ever set), so that a
    constructor that rewrites the pattern text (trimming, simplifying) decides with another expression"""
    if not h or h.startswith(('!', 'E')):
        return h
    for esc, raw in (('5c787b32307d', '20'), ('5c787b617d', '0a'), ('5c787b397d', '09')):
        if h.startswith(esc):
            h = raw + h[len(esc):]
        if h.endswith(esc) and len(h) > len(esc):
            h = h[:-len(esc)] + raw
    return h


class Runner:
    def __init__(self, model, impl, env=None, pcre=None):
        self.model, self.impl, self.env = model, impl, env
        self.pcre = {} if pcre is None else pcre

    def need_pcre(self, scns):
        new = [a for a in regex_asts(scns) if a not in self.pcre]
        if new:
            _, out, _ = vlib.run_lines(self.model, new, ['pcre'])
            for a, h in zip(new, out):
                self.pcre[a] = raw_edge_blanks(h)

    def drop_unprintable(self, scns):
        """replace expressions outside the printable subset (e.g. an empty class) by 'e'"""
        for s in scns:
            s.objs = [(o[0] + 'e' if o[0] in 'Rr' and self.pcre.get(o[1:], '!').startswith(('!', 'E')) else o) for o in s.objs]
        self.pcre.setdefault('e', '283f3a29')

    def lines(self, scns):
        return [s.line(self.pcre) for s in scns]

    def impl_obs(self, lines):
        rc, out, err = vlib.run_lines(self.impl, lines, timeout=600 if len(lines) > 50 else 60, env=self.env)
        return rc, out + ['CRASH'] * (len(lines) - len(out)), err

    def model_obs(self, lines):
        return vlib.run_lines(self.model, lines)[1]

    def spec_obs(self, lines):
        return vlib.run_lines(self.model, lines, ['spec'])[1]

    def oracle(self, lines, obs):
        return vlib.run_lines(self.model, ['%s # %s' % (l, o) for l, o in zip(lines, obs)], ['oracle'])[1]

    def bad(self, scn):
        """does the implementation's behaviour on this scenario violate the rules?"""
        if not scn.msgs:
            return False
        l = scn.line(self.pcre)
        _, o, _ = self.impl_obs([l])
        return self.oracle([l], o)[0] != '1'


def shrink(run, scn):
    msgs = vlib.shrink_list(scn.msgs, lambda ms: run.bad(Scn(scn.objs, scn.pipes, ms)), max_steps=250)
    scn = Scn(scn.objs, scn.pipes, msgs)
    # drop handler positions from the pipelines
    pos = [(pi, k) for pi, p in enumerate(scn.pipes) for k in range(len(p))]

    def with_pos(keep):
        ks = set(keep)
        return Scn(scn.objs, [[i for k, i in enumerate(p) if (pi, k) in ks] for pi, p in enumerate(scn.pipes)], scn.msgs)
    pos = vlib.shrink_list(pos, lambda keep: run.bad(with_pos(keep)), max_steps=150)
    scn = with_pos(pos)
    # shorten the texts
    for mi in range(len(scn.msgs)):
        p, t, f, tx, th = (tuple(scn.msgs[mi]) + (0,))[:5]
        if tx in (NULL, ''):
            continue
        units = [tx[i:i + 4] for i in range(0, len(tx), 4)]

        def with_text(us, mi=mi, p=p, t=t, f=f, th=th):
            ms = list(scn.msgs); ms[mi] = (p, t, f, ''.join(us), th); return Scn(scn.objs, scn.pipes, ms)
        # never shrink to the empty text by accident of equality: keep at least what fails
        us = vlib.shrink_list(units, lambda us: run.bad(with_text(us)), max_steps=40)
        scn = with_text(us)
    scn = prune(scn)
    for mi in range(len(scn.msgs)):   # flags and types towards 0 / debug
        p, t, f, tx, th = (tuple(scn.msgs[mi]) + (0,))[:5]
        for cand in ((p, 0, 0, tx, th), (p, t, 0, tx, th), (p, 0, f, tx, th)):
            ms = list(scn.msgs); ms[mi] = cand
            if cand != (p, t, f, tx, th) and run.bad(Scn(scn.objs, scn.pipes, ms)):
                scn = Scn(scn.objs, scn.pipes, ms); break
    for mi in range(len(scn.msgs)):   # threads towards the main thread / a smaller tag
        p, t, f, tx, th = (tuple(scn.msgs[mi]) + (0,))[:5]
        for cand_th in range(th):
            ms = list(scn.msgs); ms[mi] = (p, t, f, tx, cand_th)
            if run.bad(Scn(scn.objs, scn.pipes, ms)):
                scn = Scn(scn.objs, scn.pipes, ms); break
    return scn


def prune(scn):
    """drop unused objects and pipelines, renumber (behaviour-preserving: object k's attribute name
    changes with k, but observations are positional)"""
    used_p = sorted({m[0] for m in scn.msgs if 0 <= m[0] < len(scn.pipes)})
    pmap = {p: k for k, p in enumerate(used_p)}
    pipes = [scn.pipes[p] for p in used_p]
    used_o = sorted({i for p in pipes for i in p if i < len(scn.objs)}
                    | {-m[0] - 1 for m in scn.msgs if m[0] < 0 and -m[0] - 1 < len(scn.objs)})
    omap = {o: k for k, o in enumerate(used_o)}
    nobj = len(used_o)
    pipes = [[omap.get(i, nobj) for i in p] for p in pipes]          # a null handler stays a null handler
    msgs = [((pmap.get(m[0], len(pipes)) if m[0] >= 0 else -(omap.get(-m[0] - 1, nobj) + 1)),) + tuple(m[1:]) for m in scn.msgs]
    return Scn([scn.objs[o] for o in used_o], pipes, msgs)


def long_run(run, n, fluent, exact_oracle=False):
    """run long_scn(n, fluent) on the real objects; k = index of the first message whose observation is not the prescribed one"""
    scn = long_scn(n, fluent)
    l = scn.line({})
    io = run.impl_obs([l])[1][0].split(';')[:-1]
    so = run.spec_obs([l])[0].split(';')[:-1]
    mo = run.model_obs([l])[0].split(';')[:-1]
    k = next((i for i in range(max(len(io), len(so))) if i >= len(io) or i >= len(so) or io[i] != so[i]), None)
    decided = 'implementation observations == observe ref_cfg (theorem C16_oracle_exact: equivalent to prop_c16_b = true)'
    if exact_oracle:
        ok = run.oracle([l], [';'.join(io) + ';'])[0] == '1'
        decided = 'prop_c16_b evaluated on the implementation observations'
        if ok and k is not None or (not ok and k is None):
            k = None if ok else 0
    get = lambda xs, i: xs[i] if i is not None and i < len(xs) else 'missing'
    return {'k': k, 'scn': scn, 'impl_at_k': get(io, k), 'spec_at_k': get(so, k), 'before': ';'.join(io[max(0, (k or 0) - 3):(k or 0)]),
            'last': get(io, len(io) - 1) if io else 'missing', 'model_differs': mo != so, 'decided_by': decided}


KIND = {'D': 'duplicate', 'N': 'seqnumber', 'V': 'level', 'R': 'regex'}
OBJ_DOC = ('lower-case kind (o:d o:n o:v<t> o:r...) = the same kind obtained through SimplePipeline::filterDuplicate() / addSeqNumber("s<k>") / filterLevel(t) / filter(regexp) on a scratch SimplePipeline (the object is what that call installed); o:D DuplicateFilter, o:N SeqNumberAttr("s<k>"), o:V<t> LevelFilter(QtMsgType t), o:R<ast>~<PCRE hex> RegExpFilter, '
           'o:FC/FT formatter (constant "X" / shown text + flags char), o:X<b> filter dropping iff bit b of the flags; '
           'p: pipeline = object numbers; m:<pipeline>:<QtMsgType>:<flags>:<text hex UTF-16, - = null>[:<harness thread that constructs and sends it, 0 = main>]; a:<object>:... = attributes()/filter() of that object called directly by another user; observations: per message '
           'the handler calls (1/0 verdict, 1=<n> sequence number), messages end with ;')


def describe(scn, run):
    d = []
    for m in scn.msgs:
        p, t, f, tx, th = (tuple(m) + (0,))[:5]
        d.append({('pipeline' if p >= 0 else 'direct_call_of_attributes_or_filter_on_object'): (p if p >= 0 else -p - 1), 'thread': th, 'type': ['debug', 'warning', 'critical', 'fatal', 'info'][t], 'flags': f,
                  'text': None if tx == NULL else bytes.fromhex(tx).decode('utf-16-be', 'surrogatepass').encode('unicode_escape').decode()})
    regs = {a: bytes.fromhex(run.pcre[a]).decode() for a in regex_asts([scn]) if not run.pcre.get(a, '!').startswith(('!', 'E'))}
    return d, regs


def run():
    chk = vlib.Check('C16')
    chk.trusted = ['Coq 8.16.1 kernel; vm_compute only on closed terms (cfg_goodb src_cfg, 25 level pairs); no native_compute',
                   'axioms: none (every Print Assumptions: Closed under the global context)',
                   'tools/s2c/filters.py translator (levelfilter.h, duplicatefilter.{h,cpp}, regexpfilter.cpp, seqnumberattr.{h,cpp} -> SrcFilters.v; '
                   'simplepipeline.cpp fluent methods + Pipeline::append: shape anchors only, the fluent way of obtaining an object is not part of the Coq model)',
                   'extraction ExtrOcamlBasic, no Extract Constant; ocaml/drv_filters.ml (parsing/printing, int<->N/Z)',
                   'harness/h_filters.cpp (probe handlers, scripted formatters/drop filters) and the scenario generator in checks/c16.py',
                   'modelled, not verified: QString equality (UTF-16 code units; null == empty), QVariantHash, Pipeline::process, '
                   'QRegularExpression/PCRE2 restricted to the modelled subset with default options']
    chk.assumptions = ['regular expressions are those of the modelled subset (literals, classes, ., concatenation, alternation, * + ?, ^ $) '
                       'compiled without pattern options; PCRE2 newline convention LF (probed on this build)',
                       'a message text with an unpaired surrogate is ill-formed UTF-16: QRegularExpression reports no match for it, '
                       'whatever the expression (modelled; the regex theorem is stated for well-formed texts)',
                       'a SeqNumberAttr object sees at most 2^31 messages (int counter; signed overflow is undefined behaviour)',
                       'handler objects are called sequentially (concurrency is C02); messages may come from different threads, '
                       'the rules speak of the sequence a handler object sees, whoever logs']
    chk.proof(vlib.proof_leg('Properties_C16', ['filters']))
    try:
        model = vlib.build_model('filters')
    except RuntimeError as e:
        chk.broke('extracted model does not build', {'kind': 'build', 'error': str(e)[-800:]})
        return chk.finish()
    try:
        impl = vlib.build_harness('filters')
    except RuntimeError as e:
        chk.broke('harness does not build against the repository', {'kind': 'build', 'error': str(e)[-800:]})
        return chk.finish()
    thorough = chk.tier == 'thorough'
    run_ = Runner(model, impl)
    hist = {}

    # ---- 1. LevelFilter: all thresholds x all types
    pairs = ['%d %d' % (a, b) for a in range(5) for b in range(5)]
    _, lv_m, _ = vlib.run_lines(model, pairs, ['level'])
    names = ['debug', 'warning', 'critical', 'fatal', 'info']
    # both ways of obtaining the filter: the LevelFilter class, and what SimplePipeline::filterLevel(threshold) installs
    for hmode, made in (('level', 'LevelFilter(%s)'), ('flevel', 'the filter installed by SimplePipeline::filterLevel(%s)')):
        _, lv_i, _ = vlib.run_lines(impl, pairs, [hmode])
        lv_i += ['?'] * (25 - len(lv_i))
        wrong, differ = [], []
        for pr, a, b in zip(pairs, lv_i, lv_m):
            mn, t = map(int, pr.split())
            if a != b[1]:
                wrong.append({'threshold': names[mn], 'type': names[t], 'implementation_passes': a == '1', 'specified_passes': b[1] == '1'})
            if a != b[0]:
                differ.append((names[mn], names[t]))
        if wrong:
            w = wrong[0]
            chk.fail('%s %s a %s message, the severity order debug<info<warning<critical<fatal says the opposite (%d of 25 pairs wrong)' % (
                made % w['threshold'], 'passes' if w['implementation_passes'] else 'drops', w['type'], len(wrong)),
                dict(w, kind='level', obtained_through=(made % w['threshold']), harness_mode=hmode, wrong_pairs=wrong), kind='level')
        if differ:
            chk.broke('correspondence: LevelFilter model (translated priority table) and %s differ on %d pairs, e.g. %s' % (made % 't', len(differ), differ[0]),
                      {'kind': 'correspondence', 'harness_mode': hmode, 'pairs': differ})

    # ---- 1b. expressions QRegularExpression rejects: an expression that cannot be compiled matches nothing, so the filter
    # passes nothing ("passes iff the expression matches the text") - asked of the implementation only, the modelled
    # subset has no invalid expressions
    invalid = ['(unclosed', '[a-', 'a{2,1}', '*start', 'x\\', '(?<n>a)(?<n>b)', 'a)', '(?P<1>x)']
    probe_texts = [NULL, '', u16('a'), u16('(unclosed'), u16('*start'), u16('abc def')]
    inv_lines = []
    for k, pat in enumerate(invalid):
        hx = ''.join('%02x' % b for b in pat.encode('utf-8'))
        # two objects so that both constructors (QString / QRegularExpression) are used (the harness alternates by index)
        inv_lines.append('o:RX~%s o:RX~%s p:0 p:1 ' % (hx, hx) + ' '.join('m:%d:4:0:%s' % (i % 2, t) for i, t in enumerate(probe_texts * 2)))
    rc_inv, inv_obs, _ = vlib.run_lines(impl, inv_lines, timeout=60)
    inv_bad = [(pat, o) for pat, o in zip(invalid, inv_obs + ['CRASH'] * (len(inv_lines) - len(inv_obs))) if o.replace('0;', '') != '']
    hist['invalid_expressions_probed'] = len(invalid)
    if inv_bad:
        pat, o = inv_bad[0]
        chk.fail('RegExpFilter(%r): the expression does not compile, so it matches no text and the filter must pass nothing; the real '
                 'filter gives the observations %s (1 = passed) for the texts null, "", "a", the pattern text itself, "*start", "abc def"' % (pat, o[:80]),
                 {'kind': 'regex', 'expression': pat, 'class': 'invalid_expression', 'implementation_observations': o, 'specified': '0;' * 12,
                  'invalid_expressions_failing': [p_ for p_, _ in inv_bad]}, kind='regex')

    # ---- 2. scenarios through the real objects
    scns = []
    cdir = os.path.join(vlib.VERIF, 'corpus', 'C16')
    corpus = 0
    if os.path.isdir(cdir):
        for f in sorted(os.listdir(cdir)):
            try:
                d = json.load(open(os.path.join(cdir, f)))
                scns.append(Scn(d['objs'], d['pipes'], [tuple(m) for m in d['msgs']])); corpus += 1
            except Exception:
                pass
    # wall-clock pauses between messages: none of the four rules mentions time, so a run of equal texts stays collapsed,
    # numbering stays consecutive and verdicts stay the same however long the gaps are (6th message field = pause in
    # ms before the message is constructed; the model ignores it).  Quick: gaps of 1.2 s; thorough: 5.6 s and 11 s.
    a_, b_ = tok_text('a'), tok_text('b')
    for gaps in ([1200] if not thorough else [1200, 5600]):
        # one pause per scenario (every evaluation of it, also while shrinking, costs that pause once)
        scns.append(Scn(['N', 'D', 'V0'], [[0, 1, 2], [1]],
                        [(0, 4, 0, a_, 0, 0), (0, 4, 0, a_, 0, gaps), (0, 0, 0, a_, 1, 0), (1, 4, 0, a_, 0, 0), (0, 4, 0, b_, 0, 0), (0, 2, 0, b_, 2, 0)]))
        scns.append(Scn(['D'], [[0]], [(0, 4, 0, tok_text(''), 0, gaps), (0, 4, 0, tok_text(''), 0, 0), (0, 4, 0, a_, 0, 0)]))
    hist['timed_scenarios'] = len(scns) - corpus
    nrand = 12000 if thorough else 4000
    for _ in range(nrand):
        scns.append(gen_scenario(chk.rng, hist, thorough))
    # a third of the random scenarios obtain some of their D / N / V / R objects through the fluent API
    # (own generator, seeded from chk.rng AFTER the scenarios were drawn: the scenarios themselves are those of earlier rounds)
    fl_rng = random.Random(chk.rng.getrandbits(64))
    for s in scns[len(scns) - nrand:]:
        if fl_rng.random() < 0.34:
            fluently(fl_rng, s, hist)
    # the 25 (threshold, type) pairs and the stateful kinds through pipelines, every object fluent
    em = tok_text('')
    scns.append(Scn(['v%d' % t for t in range(5)] + ['n'], [[5, t] for t in range(5)], [(p, t, 0, em, 0) for p in range(5) for t in range(5)]))
    scns.append(Scn(['n', 'X0', 'd', 'rc%x;' % ord('a')], [[0, 1, 2], [2, 0, 3], [3]],
                    [(k % 3, 4, (k // 2) % 2, tok_text(t), k % 2) for k, t in enumerate(['', '', 'a', 'a', 'a', 'b', 'A', 'a', 'a', None, '', 'ab', 'ab', 'ba'])]
                    + [(-1, 4, 0, a_, 0), (-3, 4, 0, a_, 0), (-3, 4, 0, a_, 0), (0, 4, 0, a_, 0)]))
    hist['fluent_fixed_scenarios'] = 2
    ex_len = 5 if thorough else 4
    exh = list(exhaustive_scenarios(ex_len))
    # the exhaustive family once more with N and D obtained fluently (one length shorter)
    exh_f = [Scn(['n', 'X0', 'd'], s.pipes, s.msgs) for s in exhaustive_scenarios(ex_len - 1)]
    exh += exh_f
    scns += exh
    run_.need_pcre(scns)
    run_.drop_unprintable(scns)
    lines = run_.lines(scns)
    rc, obs_i, err_i = run_.impl_obs(lines)
    obs_m = run_.model_obs(lines)
    if rc != 0:
        chk.fail('implementation crashed on a scenario', {'kind': 'crash', 'rc': rc, 'stderr': err_i[-400:]}, kind='crash')
    verdicts = run_.oracle(lines, obs_i)
    falsified = [k for k, v in enumerate(verdicts) if v != '1']
    disagree = [k for k, (a, b) in enumerate(zip(obs_i, obs_m)) if a != b]
    model_bad = [k for k, v in enumerate(run_.oracle(lines, obs_m)) if v != '1']
    def report(run_, falsified, where='', extra={}):
        """shrink and report the scenarios on which the implementation's observations break the rules"""
        reported = set()
        order = sorted(falsified, key=lambda k: len(lines[k]))
        alone = [k for k in order[:60] if run_.bad(scns[k])]       # falsified when run alone in a fresh process
        for k in alone[:40]:
            small = shrink(run_, scns[k])
            kinds = [KIND[c] for c in small.kinds() if c in KIND] or ['structure']
            kind = kinds[0] if len(kinds) == 1 else 'mixed'
            if kind in reported:
                continue
            reported.add(kind)
            l = small.line(run_.pcre)
            o = run_.impl_obs([l])[1][0]
            msgs, regs = describe(small, run_)
            chk.fail('%s rule violated by the real handler objects on a %d-step scenario%s' % (kind, len(small.msgs), where),
                     {**extra, 'kind': kind, 'handler_kinds': kinds, 'scenario_line': l, 'objects': small.objs, 'pipelines': small.pipes,
                      'messages': msgs, 'regular_expressions': regs, 'implementation_observations': o,
                      'specified_observations': run_.spec_obs([l])[0],
                      'model_observations': run_.model_obs([l])[0], 'falsified_scenarios': len(falsified), 'legend': OBJ_DOC,
                      'scn': {'objs': small.objs, 'pipes': small.pipes, 'msgs': small.msgs}}, kind=kind)
        if falsified and not alone:
            # no falsified scenario fails on its own: the handler objects of one scenario were influenced by
            # objects of EARLIER scenarios of the same process (state that is not per object).  The failing
            # input is then a list of scenarios run one after the other in one process.
            k = min(falsified)

            def bad_seq(idx):
                ls = [lines[i] for i in idx]
                _, o, _ = run_.impl_obs(ls)
                return any(v != '1' for v in run_.oracle(ls, o))
            pre = list(range(max(0, k - 300), k))
            if not bad_seq(pre + [k]):
                pre = list(range(k))
            pre = vlib.shrink_list(pre, lambda keep: bad_seq(keep + [k]), max_steps=120)
            idx = pre + [k]
            smalls = [prune(scns[i]) for i in idx]
            for j in range(len(smalls)):          # shorten every scenario's message list, keeping the whole list failing
                def with_msgs(ms, j=j):
                    return [sc if i != j else Scn(sc.objs, sc.pipes, ms) for i, sc in enumerate(smalls)]

                def still(ms):
                    ls = [sc.line(run_.pcre) for sc in with_msgs(ms)]
                    if not ms:
                        return False
                    _, o, _ = run_.impl_obs(ls)
                    return any(v != '1' for v in run_.oracle(ls, o))
                smalls = [prune(sc) for sc in with_msgs(vlib.shrink_list(smalls[j].msgs, still, max_steps=60))]
            ls = [sc.line(run_.pcre) for sc in smalls]
            o = run_.impl_obs(ls)[1]
            kinds = sorted({KIND[c] for sc in smalls for c in sc.kinds() if c in KIND}) or ['structure']
            kind = kinds[0] if len(kinds) == 1 else 'mixed'
            chk.fail('%s rule violated: handler objects of one scenario are influenced by the objects of an earlier scenario in the '
                     'same process (%d scenarios run one after the other)%s' % (kind, len(ls), where),
                     {**extra, 'kind': kind, 'handler_kinds': kinds, 'cross_scenario': True, 'scenario_lines': ls,
                      'implementation_observations': o, 'specified_observations': run_.spec_obs(ls),
                      'falsified_scenarios': len(falsified), 'legend': OBJ_DOC,
                      'note': 'every scenario creates its own handler objects; the lines are run in ONE harness process, in this order',
                      'scns': [{'objs': sc.objs, 'pipes': sc.pipes, 'msgs': sc.msgs} for sc in smalls]}, kind=kind)

    report(run_, falsified)

    # ---- 3. one long run: LONG_N messages through ONE SeqNumberAttr (shared by two pipelines, a later filter drops every
    # third message): the numbers must go on 0, 1, 2, ... (the model's counter is an unbounded Z; the int bound of the
    # theorem is 2^31 messages).  prop_c16_b is quadratic in the length, so the run is decided by comparing with the
    # observations the rules prescribe (observe ref_cfg): by theorem C16_oracle_exact that IS the oracle's verdict.
    long_cov = []
    for fl in ([False, True] if thorough else [False]):
        res = long_run(run_, LONG_N, fl)
        long_cov.append({'messages': LONG_N, 'counter_obtained_through': FLUENT['n'] if fl else 'SeqNumberAttr', 'first_wrong_message': res['k'],
                         'last_observation': res['last']})
        if res['k'] is not None:
            k = res['k']
            small = long_run(run_, k + 1, fl, exact_oracle=k + 1 <= 6000)         # the shortest failing prefix, in a fresh process
            if small['k'] is not None:
                chk.fail('seqnumber rule violated on a long run: message number %d through one SeqNumberAttr object is observed as "%s", the rules say "%s"' % (
                    small['k'] + 1, small['impl_at_k'], small['spec_at_k']),
                    {'kind': 'seqnumber', 'handler_kinds': ['seqnumber'], 'long_run': {'messages': k + 1, 'fluent': fl},
                     'objects': small['scn'].objs, 'pipelines': small['scn'].pipes,
                     'messages': '%d messages: text "a", type info, message k goes to pipeline 1 iff k %% 5 == 4, flags 1 (dropped by X0) iff k %% 3 == 2' % (k + 1),
                     'first_wrong_message_index': small['k'], 'implementation_observation': small['impl_at_k'], 'specified_observation': small['spec_at_k'],
                     'implementation_observations_before': small['before'], 'decided_by': small['decided_by'], 'legend': OBJ_DOC}, kind='seqnumber')
            else:
                chk.broke('long run: the real SeqNumberAttr deviates at message %d of %d but not when the first %d messages are run alone' % (k, LONG_N, k + 1),
                          {'kind': 'long-run-unstable', 'long_run': {'messages': LONG_N, 'fluent': fl}, 'first_wrong_message_index': k})
        elif res['model_differs']:
            chk.broke('correspondence: model (translated configuration) and the rules differ on the long run', {'kind': 'correspondence', 'long_run': {'messages': LONG_N, 'fluent': fl}})

    # ---- the same scenarios with the harness under a UTF-8 locale (QLocale / ICU collation active):
    # the rules compare texts code unit by code unit, whatever the locale
    loc_env = {'LC_ALL': 'en_US.UTF-8', 'LANG': 'en_US.UTF-8', 'LC_COLLATE': 'en_US.UTF-8', 'LC_CTYPE': 'en_US.UTF-8'}
    run_loc = Runner(model, impl, env=loc_env, pcre=run_.pcre)
    rc_l, obs_l, err_l = run_loc.impl_obs(lines)
    if rc_l != 0:
        chk.fail('implementation crashed on a scenario under LC_ALL=en_US.UTF-8', {'kind': 'crash', 'rc': rc_l, 'stderr': err_l[-400:], 'environment': loc_env}, kind='crash')
    verdicts_l = run_.oracle(lines, obs_l)
    falsified_l = [k for k, v in enumerate(verdicts_l) if v != '1']
    if falsified_l and not falsified:
        report(run_loc, falsified_l, ' with the process under LC_ALL=en_US.UTF-8', {'environment': loc_env})
    if disagree:
        k = min(disagree, key=lambda k: len(lines[k]))
        chk.broke('correspondence: model (translated configuration) and real handlers differ on %d scenarios' % len(disagree),
                  {'kind': 'correspondence', 'scenario_line': lines[k], 'implementation': obs_i[k], 'model': obs_m[k],
                   'oracle_on_implementation': verdicts[k], 'scn': {'objs': scns[k].objs, 'pipes': scns[k].pipes, 'msgs': scns[k].msgs}})
    if model_bad and not falsified:
        k = model_bad[0]
        chk.broke('the model with the translated configuration violates the rules (theorem C16_oracle_holds cannot hold)',
                  {'kind': 'model', 'scenario_line': lines[k], 'model': obs_m[k]})

    # ---- thorough: the same scenarios on the sanitizer build and on the single-header build
    extra = {}
    if thorough:
        for variant in ('san', 'hdr'):
            try:
                exe = vlib.build_harness('filters', variant)
                sub = lines[:4000]
                rcv, outv, errv = vlib.run_lines(exe, sub, env={'ASAN_OPTIONS': 'detect_leaks=0'})
                diff = sum(1 for a, b in zip(outv, obs_i) if a != b) + (len(sub) - len(outv))
                extra[variant] = {'scenarios': len(sub), 'rc': rcv, 'differences_to_normal_build': diff}
                if rcv != 0 or diff:
                    chk.broke('%s build of the harness differs from the normal build or reports an error' % variant,
                              {'kind': 'variant', 'variant': variant, 'rc': rcv, 'stderr': errv[-600:]})
            except RuntimeError as e:
                chk.broke('%s build of the harness does not build' % variant, {'kind': 'build', 'error': str(e)[-600:]})

    # ---- coverage
    calls = [c for o in obs_i for m in o.split(';') for c in m.split(',') if c]
    nmsgs = sum(len(s.msgs) for s in scns)
    kinds_hist = {}
    regex_true = regex_false = 0
    for s, o in zip(scns, obs_i):
        for ob in s.objs:
            kinds_hist[ob[0]] = kinds_hist.get(ob[0], 0) + 1
        if s.kinds() == ['R']:
            for m in o.split(';'):
                for c in m.split(','):
                    regex_true += c == '1'; regex_false += c == '0'
    multi_thread = sum(1 for s in scns if len({(tuple(m) + (0,))[4] for m in s.msgs}) > 1)
    shared = sum(1 for s in scns if any(sum(1 for p in s.pipes if i in p) >= 2 for i, ob in enumerate(s.objs) if ob in ('D', 'N', 'd', 'n')))
    nontrivial = {l for l, o in zip(lines, obs_i) if '0' in o.replace('=0', '') and '1' in o}
    textclass = {'null': 0, 'empty': 0, 'illformed': 0, 'astral': 0}
    for s in scns:
        for m in s.msgs:
            tx = m[3]
            if tx == NULL:
                textclass['null'] += 1
            elif tx == '':
                textclass['empty'] += 1
            else:
                us = [int(tx[i:i + 4], 16) for i in range(0, len(tx), 4)]
                if any(0xD800 <= u <= 0xDBFF for u in us):
                    textclass['astral'] += 1
                try:
                    bytes.fromhex(tx).decode('utf-16-be')
                except UnicodeDecodeError:
                    textclass['illformed'] += 1
    chk.cov.update({
        'evaluations': len(scns) + 50 + len(long_cov), 'distinct_nontrivial': len(nontrivial),
        'rule': 'scenarios = handler objects (real DuplicateFilter/SeqNumberAttr/LevelFilter/RegExpFilter, scripted formatters and '
                'drop filters) placed in 1-3 real pipelines (objects shared), 4-%d messages each (constructed and sent, one after the other, from up to 4 harness threads) with texts drawn as runs/alternations '
                'from confusable pools (case, whitespace, NFC/NFD, null/empty, newline, astral, ill-formed); plus every sequence of '
                'length <= %d over {null, "", "a", "A"} x drop flag through two pipelines sharing N and D; plus all 25 '
                '(threshold, type) pairs through LevelFilter(t) and through SimplePipeline::filterLevel(t); a third of the random scenarios, the exhaustive family one length shorter and two fixed scenarios obtain D/N/V/R objects through the fluent API (lower-case kinds); '
                'one run of 70000 messages through one SeqNumberAttr; non-trivial = a scenario with both verdicts observed' % (40 if thorough else 22, ex_len),
        'level_pairs': 50, 'corpus_replayed': corpus, 'random_scenarios': nrand, 'exhaustive_scenarios': len(exh), 'exhaustive_up_to_length': ex_len,
        'messages': nmsgs, 'handler_calls_observed': len(calls),
        'verdict_histogram': {'pass': sum(1 for c in calls if c[0] == '1'), 'drop': sum(1 for c in calls if c[0] == '0'),
                              'numbered': sum(1 for c in calls if '=' in c)},
        'object_kind_histogram': kinds_hist, 'scenarios_with_shared_stateful_object': shared, 'scenarios_logged_from_several_threads': multi_thread,
        'regex_expressions': len(run_.pcre), 'regex_only_verdicts': {'match': regex_true, 'no_match': regex_false},
        'text_classes': textclass, 'generator_histogram': dict(sorted(hist.items())),
        'disagreements_model_vs_impl': len(disagree), 'oracle_evaluated_on_impl_scenarios': len(verdicts),
        'oracle_falsified_scenarios': len(falsified),
        'locale_subrun': {'environment': loc_env, 'scenarios': len(lines), 'oracle_falsified_scenarios': len(falsified_l),
                          'observations_differing_from_C_locale_run': sum(1 for x, y in zip(obs_l, obs_i) if x != y)},
        'long_runs': long_cov, 'fluent_objects': sum(len(s.fluent()) for s in scns),
        'scenarios_with_fluent_object': sum(1 for s in scns if s.fluent()),
        'level_pairs_obtained_through': ['LevelFilter(t)', 'SimplePipeline::filterLevel(t)'],
        'variants': extra})
    pick = [0, len(scns) // 3, len(scns) // 2]
    chk.samples = [{'scenario': lines[i][:400], 'impl': obs_i[i][:200], 'model': obs_m[i][:200]} for i in pick if i < len(scns)]
    return chk.finish()


def replay(path):
    r = json.load(open(path))['replay']
    if isinstance(r, list):
        r = r[0]
    vlib.gen_src(['filters'])
    model = vlib.build_model('filters'); impl = vlib.build_harness('filters')
    if r.get('kind') == 'level' and 'threshold' in r:
        names = ['debug', 'warning', 'critical', 'fatal', 'info']
        l = '%d %d' % (names.index(r['threshold']), names.index(r['type']))
        print('%s on a %s message' % (r.get('obtained_through', 'LevelFilter(%s)' % r['threshold']), r['type']))
        print('implementation passes', vlib.run_lines(impl, [l], [r.get('harness_mode', 'level')])[1])
        print('model passes / specified', vlib.run_lines(model, [l], ['level'])[1])
        return 0
    if r.get('long_run'):
        run_ = Runner(model, impl)
        n, fl = r['long_run']['messages'], r['long_run'].get('fluent', False)
        res = long_run(run_, n, fl, exact_oracle=n <= 6000)
        print('long run       ', n, 'messages through', res['scn'].objs, 'pipelines', res['scn'].pipes, '(message k: pipeline 1 iff k % 5 == 4, dropped by X0 iff k % 3 == 2)')
        print('legend         ', OBJ_DOC)
        print('first message whose observation is not the prescribed one:', res['k'])
        print('implementation ', res['before'], '|', res['impl_at_k'])
        print('specified      ', res['spec_at_k'])
        print('decided by     ', res['decided_by'])
        return 0
    if r.get('scns'):
        run_ = Runner(model, impl, env=r.get('environment'))
        scs = [Scn(x['objs'], x['pipes'], [tuple(m) for m in x['msgs']]) for x in r['scns']]
        run_.need_pcre(scs); run_.drop_unprintable(scs)
        ls = run_.lines(scs)
        o = run_.impl_obs(ls)[1]
        print('scenarios (one process, in order)'); [print('   ', l) for l in ls]
        print('legend         ', OBJ_DOC)
        print('implementation ', o)
        print('specified      ', run_.spec_obs(ls))
        print('rules hold on the implementation output:', run_.oracle(ls, o))
        return 0
    s = r.get('scn')
    if not s:
        print(json.dumps(r, indent=1)); return 0
    run_ = Runner(model, impl, env=r.get('environment'))
    if r.get('environment'):
        print('environment    ', r['environment'])
    scn = Scn(s['objs'], s['pipes'], [tuple(m) for m in s['msgs']])
    run_.need_pcre([scn]); run_.drop_unprintable([scn])
    l = scn.line(run_.pcre)
    o = run_.impl_obs([l])[1]
    print('scenario       ', l)
    print('legend         ', OBJ_DOC)
    print('implementation ', o)
    print('specified      ', run_.spec_obs([l]))
    print('model          ', run_.model_obs([l]))
    print('rules hold on the implementation output:', run_.oracle([l], o))
    return 0
