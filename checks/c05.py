"""C05 — File rotation never loses, duplicates, reorders or splits a record."""
import vlib
from checks import rotate_util

META = {
    'id': 'C05',
    'level': 'proof',
    'technique': 'Coq proof (invariants over all operation histories of an executable model of RotatingFileSink, instantiated at the '
                 'decision shapes translated from the source) + differential run of the extracted model against the real sink under a '
                 'virtual wall clock + extracted boolean oracle evaluated on the implementation\'s directories',
    'text': 'Theorems (Properties_C05.v): history_conserved (gone ++ rotated files in rotation order ++ active = everything written, record for record and byte for byte), only whole removed files missing, nothing missing when N <= 0, each record = payload + its own newline, record_is_the_shown_text (a message with a formatted text - set, possibly empty - writes that text, else the raw text, + ONE newline, also when the text ends in a newline or is a lone newline), rotation order = name order — for every history of write / clock advance / restart / foreign-file operations, every L, N, '
            'option set and timestamp granularity.  They are about the very definitions that are extracted and run against the real '
            'RotatingFileSink (directory listing identical after every operation); the oracle prop_c05_b, proved true on every model '
            'world, is evaluated on the implementation\'s listings with ghost data reconstructed from the written history.  Outside the model (implementation-only oracle): a refused rename (a sub-directory named like the next rotated file) must not lose any record written before or after it.',
    'note': rotate_util.META_NOTE,
    'design_ref': 'DESIGN.md section 4, C05/C06/C07/C09',
    'engine': 'coq+extraction+harness',
}


def run():
    return rotate_util.run_check('C05')


def replay(path):
    return rotate_util.replay_check('C05', path)
