"""C10 — A crash or I/O failure during rotation does not destroy flushed records."""
import gzip as pygzip, json, os, re, shutil, subprocess, tempfile, time
from concurrent.futures import ThreadPoolExecutor
import vlib

META = {
    'id': 'C10',
    'level': 'proof',
    'technique': 'Coq proof (induction over the prefixes of the mutation-step list of any sink history, with at most one failing '
                 'rename/create/unlink/open step; step order interpreted from the statement lists translated from rotate()/'
                 'compressFile()) + strace trace validation of the step list + real SIGKILL at every mutation system call and '
                 'injected errno failures on a real RotatingFileSink, directories compared with the extracted model and judged '
                 'by the extracted oracle',
    'text': 'Theorems (Properties_C10.v): for every directory, configuration, record list, single fault and crash point k, every '
            'record that was in an intact file or was appended before k is in an intact plain or complete .gz file of the crash '
            'directory, or went with a whole file removed by retention; rename and create targets never exist (next index skips '
            'plain and .gz); a restart is another history on the crash directory.  The step order the theorems rely on is '
            're-translated from the source on every run; the correspondence leg kills the real process before each mutation call.',
    'note': 'Trusted: Coq 8.16.1 kernel (vm_compute only for src_goodb src_crash and the example), no axioms; tools/s2c/crash.py '
            '(regex translation of rotate/compressFile/removeOldFiles/findNextIndexForDate/send/FileSink ctor); extraction + '
            'ocaml/drv_crash.ml; harness/h_crash.cpp; strace as tracer and injector (a process dies BEFORE the k-th call takes effect); '
            'Python gzip as decoder. Modelled, not verified: the kernel file system (rename/unlink/open atomic), QFile buffering, '
            'one calendar day per run. Outside C10 (by its own fault set): errors of write/close on the .gz (F8: never checked before '
            'the original is removed) - those steps are non-failing in the model; power loss (no fsync); partial writes; '
            "QFile::rename's block-copy fallback interrupted by a crash (a second fault).",
    'design_ref': 'DESIGN.md section 4, C10',
    'engine': 'coq+extraction+harness',
}

TRACE = 'trace=openat,write,close,renameat2,renameat,rename,link,unlink,unlinkat,truncate,ftruncate'
LINE = re.compile(r'^(\d+)\s+(\w+)\((.*)\)\s+=\s+(-?\d+|\?)(.*)$')
NAME = re.compile(r'^app\.(\d{4}-\d\d-\d\d)\.(\d+)\.log(\.gz)?$')
_NAME_CACHE = {}


def name_re(fname):
    """recogniser of the rotated names of <base>.<suffix>: <base>.<date>.<index>.<suffix>[.gz]"""
    if fname not in _NAME_CACHE:
        base, _, suf = fname.rpartition('.')
        _NAME_CACHE[fname] = re.compile(r'^%s\.(\d{4}-\d\d-\d\d)\.(\d+)\.%s(\.gz)?$' % (re.escape(base), re.escape(suf)))
    return _NAME_CACHE[fname]
ERRNOS = ('EACCES', 'ENOSPC', 'EIO')


# ------------------------------------------------------------------------------------------ real side
def strace_run(crash, logdir, L, N, opts, start, sizes, inject=(), trace_path=None, fname='app.log'):
    cmd = ['strace', '-f', '-s', '48', '-o', trace_path or '/dev/null', '-e', TRACE]
    for i in inject:
        cmd += ['-e', 'inject=' + i]
    cmd += [crash, logdir, str(L), str(N), str(opts), str(start), ','.join(map(str, sizes)), fname]
    p = subprocess.run(cmd, stdout=subprocess.PIPE, stderr=subprocess.PIPE, timeout=120, env=dict(os.environ, LC_ALL='C.UTF-8'))
    done = [int(x.split()[1]) for x in p.stderr.decode('utf-8', 'replace').split('\n') if x.startswith('DONE')]
    return p.returncode, done


def plain_run(crash, logdir, L, N, opts, start, sizes, fname='app.log', extra=()):
    p = subprocess.run([crash, logdir, str(L), str(N), str(opts), str(start), ','.join(map(str, sizes)), fname] + list(extra),
                       stdout=subprocess.PIPE, stderr=subprocess.PIPE, timeout=120, env=dict(os.environ, LC_ALL='C.UTF-8'))
    return p.returncode


def parse_records(b):
    """(records [(id,size)], whole: every byte belongs to a well-formed record)"""
    recs, whole = [], True
    parts = b.split(b'\n')
    if parts and parts[-1] == b'':
        parts.pop()
    elif parts:
        whole = False
        parts.pop()
    for ln in parts:
        m = re.match(rb'^r(\d{5})x*$', ln)
        if m:
            recs.append((int(m.group(1)), len(ln) + 1))
        else:
            whole = False
    return recs, whole


def read_dir(logdir, fname='app.log', ignore_foreign=False):
    """real directory -> {model name: (complete, [(id,size)])}, anomalies"""
    out, odd, dates = {}, [], set()
    for f in sorted(os.listdir(logdir)) if os.path.isdir(logdir) else []:
        b = open(os.path.join(logdir, f), 'rb').read()
        if f == fname:
            recs, whole = parse_records(b)
            out['A'] = (whole, recs)
            continue
        m = name_re(fname).match(f)
        if not m:
            odd.append('foreign file ' + f); continue
        dates.add(m.group(1))
        if m.group(3):
            try:
                if len(b) < 18:
                    raise ValueError('shorter than header + trailer')   # gzip.decompress(b'') == b''
                recs, whole = parse_records(pygzip.decompress(b))
                out['G' + m.group(2)] = (whole, recs)
            except Exception:
                out['G' + m.group(2)] = (False, [])
        else:
            recs, whole = parse_records(b)
            out['P' + m.group(2)] = (whole, recs)
    if len(dates) > 1:
        odd.append('midnight')
    return out, odd


def show_dir(d):
    return ';'.join('%s=%s:%s' % (n, 'c' if c else 'i', ','.join('%d.%d' % r for r in recs)) for n, (c, recs) in sorted(d.items()))


def parse_model_dir(s):
    d = {}
    for e in s.strip().split(';'):
        if not e:
            continue
        n, rest = e.split('=', 1)
        d[n] = (rest[0] == 'c', [tuple(map(int, t.split('.'))) for t in rest[2:].split(',') if t])
    return d


def same_dir(model, real):
    """the model's directory against the real one; an incomplete model file may be anything not yet closed"""
    if set(model) != set(real):
        return False
    for n, (c, recs) in model.items():
        rc, rrecs = real[n]
        if c:
            if not rc or rrecs != recs:
                return False
        elif rc and rrecs != recs:
            return False
    return True


def project(trace_path, logdir, fname='app.log'):
    """strace output -> list of events {tok, sc, ordinal, ok, injected} in the model's step alphabet, plus the ids
    whose write to the active file succeeded"""
    fd, counts, ev, flushed = {}, {}, [], []
    cur_i, pending_link = None, None
    pre = logdir.rstrip('/') + '/'
    NAME = name_re(fname)
    for line in open(trace_path, errors='replace'):
        m = LINE.match(line.rstrip('\n'))
        if not m:
            continue
        sc, args, ret, tail = m.group(2), m.group(3), m.group(4), m.group(5)
        counts[sc] = counts.get(sc, 0) + 1
        ok = ret not in ('-1', '?')
        inj = 'INJECTED' in tail
        paths = [p for p in re.findall(r'"((?:[^"\\]|\\.)*)"', args)]
        def e(tok):
            ev.append({'tok': tok, 'sc': sc, 'ordinal': counts[sc], 'ok': ok, 'injected': inj})
        if sc == 'openat':
            p = paths[0] if paths else ''
            if not p.startswith(pre):
                if ok and ret.isdigit():
                    fd.pop(int(ret), None)
                continue
            base = p[len(pre):]
            if 'O_CREAT' in args:
                if base == fname:
                    e('Ot' if 'O_TRUNC' in args else 'Oa')
                    if ok: fd[int(ret)] = ('A',)
                else:
                    mm = NAME.match(base)
                    if mm and mm.group(3):
                        e('Z' + mm.group(2)); cur_i = mm.group(2)
                        if ok: fd[int(ret)] = ('G', mm.group(2))
                    elif mm:
                        e('COPY' + mm.group(2))          # QFile::rename's block-copy fallback creating the target
                        if ok: fd[int(ret)] = ('C', mm.group(2))
                    else:
                        e('CREATE:' + base)
            elif ok and ret.isdigit():
                fd.pop(int(ret), None)
        elif sc == 'write':
            try:
                n = int(args.split(',')[0])
            except ValueError:
                continue
            if n in fd:
                k = fd[n]
                if k[0] == 'A':
                    mm = re.match(r'\d+, "r(\d{5})', args)
                    e('A%d' % int(mm.group(1)) if mm else 'A?')
                    if ok and mm: flushed.append(int(mm.group(1)))
                elif k[0] == 'G':
                    if not (ev and ev[-1]['tok'] == 'W' + k[1]):
                        e('W' + k[1])
                else:
                    e('COPYW' + k[1])
        elif sc == 'close':
            try:
                n = int(args.strip())
            except ValueError:
                continue
            if n in fd:
                k = fd.pop(n)
                if k[0] == 'A': e('X')
                elif k[0] == 'G': e('K' + k[1])
                else: e('COPYK' + k[1])
        elif sc in ('renameat2', 'renameat', 'rename', 'link'):
            if len(paths) >= 2 and paths[0] == pre + fname:
                mm = NAME.match(paths[1][len(pre):]) if paths[1].startswith(pre) else None
                if mm and not mm.group(3):
                    e('R' + mm.group(2)); cur_i = mm.group(2)
                    if sc == 'link' and ok: pending_link = True
                else:
                    e('RENAME:' + paths[1])
            elif paths and paths[0].startswith(pre):
                e('RENAME:' + ','.join(paths))
        elif sc == 'truncate':
            if paths and paths[0].startswith(pre):
                e('TRUNCATE:' + paths[0][len(pre):])
        elif sc == 'ftruncate':
            try:
                n = int(args.split(',')[0])
            except ValueError:
                continue
            if n in fd:
                e('TRUNCATE:fd-of-' + ''.join(fd[n]))
        elif sc in ('unlink', 'unlinkat'):
            p = paths[0] if paths else ''
            if not p.startswith(pre):
                continue
            base = p[len(pre):]
            if base == fname:
                if pending_link:
                    pending_link = None      # second half of the link+unlink shape of a rename
                else:
                    e('UNLINK-ACTIVE')
                continue
            mm = NAME.match(base)
            if mm and not mm.group(3) and mm.group(2) == cur_i and any(x['tok'] == 'Z' + cur_i for x in ev) \
               and not any(x['tok'] == 'U' + cur_i for x in ev):
                e('U' + mm.group(2))       # compressFile() removing the original (later unlinks of it are retention)
            elif mm:
                e('V' + ('G' if mm.group(3) else 'P') + mm.group(2))
            else:
                e('UNLINK:' + base)
    if ev and ev[-1]['tok'] == 'X':
        ev.pop()          # the destructor closing the active file at exit: no directory change, no further step
    return ev, flushed


def handle_closed_filter(toks):
    """model step tokens -> what reaches the kernel: a sink whose (re)open failed has no descriptor, so its
    close and its record writes (flagged '-' by the model) are not system calls"""
    return [t for t in toks if not (t[0] in 'XA' and t.endswith('-'))]


# ------------------------------------------------------------------------------------------ model side
class Model:
    def __init__(self, exe):
        self.exe = exe

    def ask(self, lines):
        rc, out, err = vlib.run_lines(self.exe, lines, timeout=300)
        return out

    @staticmethod
    def h_line(L, N, opts, fault, d0, recs):
        return 'H %d %d %d %s | %s | %s' % (L, N, opts, fault or '-', d0, ','.join('%d.%d' % r for r in recs))

    @staticmethod
    def split_h(out):
        """consume one H answer from a list of lines: (tokens, [(dir, gone)], rest)"""
        toks = out[0].split()
        states, i = [], 1
        while i < len(out) and out[i] != 'END':
            parts = out[i].split(' | ')
            parts += [''] * (3 - len(parts))
            states.append((parts[1].strip(), parts[2].strip()))
            i += 1
        return toks, states, out[i + 1:]


# ------------------------------------------------------------------------------------------ one configuration
def run_config(chk, crash, model, cfgv, stats, pool):
    L, N, opts, sizesA, sizesB = cfgv['L'], cfgv['N'], cfgv['opts'], cfgv['sizesA'], cfgv['sizesB']
    preseed = cfgv.get('preseed', [])
    fname = cfgv.get('name', 'app.log')
    fbase, _, fsuf = fname.rpartition('.')
    base = {'L': L, 'N': N, 'options': opts, 'phaseA_sizes': sizesA, 'phaseB_sizes': sizesB, 'preseed': preseed, 'file_name': fname,
            'how': 'preseed = rotated files app.<today>.<index>.log[.gz] holding record r<id> put into the directory first (a directory left by '
                   'earlier runs); h_crash <dir> L N options 0 <phaseA sizes> (untraced), then h_crash <dir> L N options <first id> <phaseB sizes> under strace'}
    top = tempfile.mkdtemp(prefix='c10_', dir='/tmp')
    try:
        tmpl = os.path.join(top, 'tmpl')
        os.makedirs(tmpl)
        today = time.strftime('%Y-%m-%d')
        for idx, gz, rid in preseed:
            data = b'r%05d\n' % rid
            with open(os.path.join(tmpl, '%s.%s.%d.%s%s' % (fbase, today, idx, fsuf, '.gz' if gz else '')), 'wb') as f:
                f.write(pygzip.compress(data) if gz else data)
        d_pre, _ = read_dir(tmpl, fname)
        if sizesA:
            if plain_run(crash, tmpl, L, N, opts, 0, sizesA, fname) != 0:
                chk.broke('phase A run failed', dict(base, kind='harness')); return
        d_tmpl, odd = read_dir(tmpl, fname)
        recsA = [(i, s) for i, s in enumerate(sizesA)]
        recsB = [(len(sizesA) + i, s) for i, s in enumerate(sizesB)]
        startB = len(sizesA)
        # model of phase A from the empty directory, of phase B from the REAL directory phase A left
        out = model.ask([Model.h_line(L, N, opts, None, show_dir(d_pre), recsA), Model.h_line(L, N, opts, None, show_dir(d_tmpl), recsB)])
        toksA, statesA, rest = Model.split_h(out)
        toksB, statesB, _ = Model.split_h(rest)
        if sizesA and not same_dir(parse_model_dir(statesA[-1][0]), d_tmpl):
            chk.broke('model and sink disagree on the directory after the untraced prefix: %s vs %s' % (statesA[-1][0], show_dir(d_tmpl)),
                      dict(base, kind='correspondence'))
            return
        # (a) trace validation: dry run of phase B
        dry = os.path.join(top, 'dry'); shutil.copytree(tmpl, dry)
        rc, done = strace_run(crash, dry, L, N, opts, startB, sizesB, trace_path=os.path.join(top, 'dry.tr'), fname=fname)
        ev, flushed = project(os.path.join(top, 'dry.tr'), dry, fname)
        real_toks = [x['tok'] for x in ev]
        model_toks = [t[:-1] for t in handle_closed_filter([t.split(':', 1)[1] for t in toksB])]
        stats['trace_steps'] += len(real_toks)
        d_final, odd2 = read_dir(dry, fname)
        if 'midnight' in odd + odd2:
            stats['skipped_midnight'] += 1; return
        aligned = rc == 0 and real_toks == model_toks
        if not aligned:
            chk.broke('trace validation: the mutation system calls of the real history are %s, the model step list is %s' % (
                ' '.join(real_toks), ' '.join(model_toks)), dict(base, kind='trace', real=real_toks, model=model_toks))
            if rc != 0 or len(real_toks) > 200:
                return
        if not same_dir(parse_model_dir(statesB[-1][0]), d_final):
            chk.broke('model and sink disagree on the final directory: %s vs %s' % (statesB[-1][0], show_dir(d_final)), dict(base, kind='correspondence'))
        for t in real_toks:
            stats['step_kinds'][t[0]] = stats['step_kinds'].get(t[0], 0) + 1
        pre_names = show_dir(d_tmpl)

        # (b) real crashes: kill before the k-th mutation call, for every k
        def crash_point(k):
            x = ev[k]
            d = os.path.join(top, 'k%d' % k); shutil.copytree(tmpl, d)
            tr = os.path.join(top, 'k%d.tr' % k)
            rc, done = strace_run(crash, d, L, N, opts, startB, sizesB, inject=['%s:signal=SIGKILL:when=%d' % (x['sc'], x['ordinal'])], trace_path=tr, fname=fname)
            evk, fl = project(tr, d, fname)
            dk, _ = read_dir(d, fname)
            # a new sink on what the crash left: two more writes
            rc2 = plain_run(crash, d, L, N, opts, 100, [7, 7], fname)
            dr, _ = read_dir(d, fname)
            shutil.rmtree(d, ignore_errors=True)
            return {'k': k, 'rc': rc, 'toks': [y['tok'] for y in evk], 'flushed': fl, 'dir': dk, 'rc2': rc2, 'after': dr}
        results = list(pool.map(crash_point, range(len(ev))))
        lines = []
        for r in results:
            lines.append(Model.h_line(L, N, opts, None, show_dir(r['dir']), [(100, 7), (101, 7)]))
        out = model.ask(lines)
        plines, pmeta = [], []
        for r in results:
            k = r['k']
            stats['crash_points'] += 1
            rep = dict(base, kind='crash', crash_before_step=k, step=real_toks[k], syscall=ev[k]['sc'], ordinal=ev[k]['ordinal'])
            toksR, statesR, out = Model.split_h(out)
            if r['rc'] == 0 or r['toks'][:k] != real_toks[:k] or len(r['toks']) > k + 1:
                chk.broke('crash injection did not stop the process before step %d (%s)' % (k, real_toks[k]), dict(rep, kind='injector', got=r['toks']))
                continue
            # when the real step list is not the model's, crash points cannot be aligned: no directory comparison,
            # and the oracle gets everything the model's retention ever removes
            if aligned:
                mdir, mgone = statesB[k]
            else:
                # grant what the model's retention has removed once the rotation of the first unflushed write is complete
                nxt = max([i for i in r['flushed'] if i >= startB], default=startB - 1) + 1
                pos = [j for j, t in enumerate(toksB) if t.split(':', 1)[1][:-1] == 'A%d' % nxt]
                mdir, mgone = None, statesB[pos[0] if pos else -1][1]
            rep.update(directory_after_crash=show_dir(r['dir']), model_directory=mdir, flushed_ids=r['flushed'])
            if aligned and not same_dir(parse_model_dir(mdir), r['dir']):
                stats['crash_dir_mismatch'] += 1
                chk.broke('directory after a kill before step %d (%s) is %s, model says %s' % (k, real_toks[k], show_dir(r['dir']), mdir),
                          dict(rep, kind='correspondence'))
            szs = dict(recsA + recsB)
            fl = [(i, szs[i]) for i in r['flushed'] if i in szs]
            pre = pre_names + (';' if pre_names else '') + 'P9001=c:' + ','.join('%d.%d' % x for x in fl)
            plines.append('P%s | %s | %s' % (pre, mgone, show_dir(r['dir']))); pmeta.append((dict(rep), 'crash'))
            # restart
            rep2 = dict(rep, kind='restart', directory_after_restart=show_dir(r['after']), model_after_restart=statesR[-1][0] if statesR else None)
            if r['rc2'] != 0:
                chk.fail('a sink started on the directory left by a kill before step %d (%s) does not run' % (k, real_toks[k]), rep2, kind='restart')
                continue
            if not statesR or not same_dir(parse_model_dir(statesR[-1][0]), r['after']):
                stats['restart_dir_mismatch'] += 1
                chk.broke('directory after restart differs from the model: %s vs %s' % (show_dir(r['after']), statesR[-1][0] if statesR else None),
                          dict(rep2, kind='correspondence'))
            plines.append('P%s | %s | %s' % (show_dir({n: v for n, v in r['dir'].items()}), statesR[-1][1] if statesR else '', show_dir(r['after'])))
            pmeta.append((rep2, 'restart'))
            stats['restarts'] += 1

        # (c) single failures of rename / create / unlink / open
        failable = [k for k, x in enumerate(ev) if re.match(r'^(R\d+|Z\d+|U\d+|V[PG]\d+|O[at])$', x['tok'])]
        jobs = []
        for n, k in enumerate(failable):
            errs = ERRNOS if chk.tier == 'thorough' else (ERRNOS[(n + cfgv['idx']) % 3],)
            for en in errs:
                jobs.append((k, en))
        def slot_of(k):
            evno = sum(1 for x in ev[:k + 1] if x['tok'] == 'X')
            t = ev[k]['tok']
            if t[0] == 'R': return '%d:r' % evno
            if t[0] == 'Z': return '%d:c' % evno
            if t[0] == 'U': return '%d:u' % evno
            if t[0] == 'O': return '%d:o' % evno
            j = k
            while j > 0 and ev[j - 1]['tok'][0] == 'V':
                j -= 1
            return '%d:v%d' % (evno, k - j)
        def failure(job):
            k, en = job
            x = ev[k]
            d = os.path.join(top, 'f%d%s' % (k, en)); shutil.copytree(tmpl, d)
            tr = os.path.join(top, 'f%d%s.tr' % (k, en))
            inj = ['%s:error=%s:when=%d' % (x['sc'], en, x['ordinal'])]
            rc, done = strace_run(crash, d, L, N, opts, startB, sizesB, inject=inj, trace_path=tr, fname=fname)
            evf, fl = project(tr, d, fname)
            res = [{'variant': 'syscall', 'rc': rc, 'toks': [(y['tok'], y['ok']) for y in evf], 'flushed': fl, 'dir': read_dir(d, fname)[0]}]
            shutil.rmtree(d, ignore_errors=True)
            if x['tok'][0] == 'R':
                # QFile::rename falls back to a block copy; make that fail as well so that QFile::rename itself fails
                cp = [y for y in evf if y['tok'].startswith('COPY') and y['sc'] == 'openat']
                if cp:
                    shutil.copytree(tmpl, d)
                    inj2 = inj + ['openat:error=%s:when=%d' % (en, cp[0]['ordinal'])]
                    rc, done = strace_run(crash, d, L, N, opts, startB, sizesB, inject=inj2, trace_path=tr, fname=fname)
                    evf, fl = project(tr, d, fname)
                    res.append({'variant': 'qfile-rename', 'rc': rc, 'toks': [(y['tok'], y['ok']) for y in evf], 'flushed': fl, 'dir': read_dir(d, fname)[0]})
                    shutil.rmtree(d, ignore_errors=True)
            return k, en, res
        fres = list(pool.map(failure, jobs))
        lines = []
        for k, en, res in fres:
            for v in res:
                rename_syscall_only = ev[k]['tok'][0] == 'R' and v['variant'] == 'syscall'
                lines.append(Model.h_line(L, N, opts, None if rename_syscall_only else slot_of(k), pre_names, recsB))
        out = model.ask(lines)
        for k, en, res in fres:
            for v in res:
                stats['failures'] += 1
                stats['failure_kinds'][ev[k]['tok'][0] + ':' + en] = stats['failure_kinds'].get(ev[k]['tok'][0] + ':' + en, 0) + 1
                toksF, statesF, out = Model.split_h(out)
                rep = dict(base, kind='failure', failing_step=k, step=real_toks[k], syscall=ev[k]['sc'], errno=en, ordinal=ev[k]['ordinal'],
                           variant=v['variant'], directory=show_dir(v['dir']), model_directory=statesF[-1][0])
                if v['rc'] != 0:
                    chk.fail('the process does not survive %s on step %d (%s)' % (en, k, real_toks[k]), rep, kind='failure-crash'); continue
                rename_syscall_only = ev[k]['tok'][0] == 'R' and v['variant'] == 'syscall'
                if not aligned:
                    # the real step list is not the model's: a fault cannot be mapped to a model slot, so there is no
                    # reference for what retention may remove in this run; no verdict (the trace mismatch is reported)
                    stats['failures_unjudged'] = stats.get('failures_unjudged', 0) + 1
                    continue
                if not rename_syscall_only:
                    mt = handle_closed_filter([t.split(':', 1)[1] for t in toksF])
                    rt = [t + ('+' if ok else '-') for t, ok in v['toks'] if not t.startswith('COPY')]
                    if mt != rt:
                        chk.broke('after %s on step %d (%s) the sink continues with %s, the model with %s' % (en, k, real_toks[k], ' '.join(rt), ' '.join(mt)),
                                  dict(rep, kind='trace'))
                if not same_dir(parse_model_dir(statesF[-1][0]), v['dir']):
                    chk.broke('directory after %s on step %d (%s): %s, model %s' % (en, k, real_toks[k], show_dir(v['dir']), statesF[-1][0]), dict(rep, kind='correspondence'))
                szs = dict(recsA + recsB)
                fl = [(i, szs[i]) for i in v['flushed'] if i in szs]
                pre = pre_names + (';' if pre_names else '') + 'P9001=c:' + ','.join('%d.%d' % x for x in fl)
                plines.append('P%s | %s | %s' % (pre, statesF[-1][1], show_dir(v['dir']))); pmeta.append((rep, 'failure'))
        # the extracted oracle on every real directory collected above
        verdicts = model.ask(plines)
        for v, (rep, what) in zip(verdicts, pmeta):
            stats['oracle_evaluations'] += 1
            if v.strip() != '1':
                stats['oracle_falsified'] += 1
                key = (what, rep.get('step', '')[:1])
                if key in stats['reported']:
                    continue
                stats['reported'].add(key)
                if what == 'crash':
                    msg = 'after a kill before step %d (%s) a flushed record is in no intact file: directory %s, flushed ids %s' % (
                        rep['crash_before_step'], rep['step'], rep['directory_after_crash'], rep['flushed_ids'])
                elif what == 'restart':
                    msg = 'a sink restarted after a kill before step %d (%s) destroyed records beyond retention: before %s, after %s' % (
                        rep['crash_before_step'], rep['step'], rep['directory_after_crash'], rep['directory_after_restart'])
                else:
                    msg = '%s on step %d (%s) destroyed flushed records: directory %s' % (rep['errno'], rep['failing_step'], rep['step'], rep['directory'])
                chk.fail(msg, dict(rep, oracle=v.strip()), kind=rep['kind'])
        stats['configs'] += 1
        if len(stats['samples']) < 4:
            stats['samples'].append({'config': {k: base[k] for k in ('L', 'N', 'options')}, 'real_steps': ' '.join(real_toks)[:300],
                                     'crash_points': len(ev), 'failures': len(fres)})
    finally:
        shutil.rmtree(top, ignore_errors=True)


def two_sink_leg(chk, crash, model, stats):
    """two sinks in ONE process and directory, same base name, different suffix and count limit: each sink's
    rotation and retention must act on its own files only (directory per sink = model, oracle on its records)"""
    thorough = chk.tier == 'thorough'
    variants = [(8, 10, 2, 0, 14), (8, 10, 2, 4, 14)] + ([(20, 0, 2, 5, 20), (8, 3, 2, 0, 16), (8, 2, 10, 4, 16)] if thorough else [])
    for L, N1, N2, opts, n in variants:
        top = tempfile.mkdtemp(prefix='c10t_', dir='/tmp')
        try:
            d = os.path.join(top, 'log')
            names = ('service.log', 'service.err')
            rep = {'kind': 'two-sinks', 'L': None, 'max_size': L, 'N1': N1, 'N2': N2, 'options': opts, 'records': n, 'names': names,
                   'how': 'h_crash <dir> %d %d %d 0 %s service.log service.err %d  (records alternate between the two sinks)' % (L, N1, opts, ','.join(['7'] * n), N2)}
            rc = plain_run(crash, d, L, N1, opts, 0, [7] * n, names[0], extra=[names[1], str(N2)])
            stats['two_sink_runs'] = stats.get('two_sink_runs', 0) + 1
            if rc != 0:
                chk.fail('two sinks in one directory: the process failed', rep, kind='two-sinks'); continue
            lines, metas = [], []
            for k, (fname, N) in enumerate(zip(names, (N1, N2))):
                recs = [(i, 7) for i in range(n) if i % 2 == k]
                real, _ = read_dir(d, fname)
                lines.append(Model.h_line(L, N, opts, None, '', recs)); metas.append((fname, N, recs, real))
            out = model.ask(lines)
            plines = []
            for fname, N, recs, real in metas:
                toks, states, out = Model.split_h(out)
                mdir, mgone = states[-1]
                if not same_dir(parse_model_dir(mdir), real):
                    chk.broke('two sinks in one directory: files of %s are %s, a sink alone (model) leaves %s' % (fname, show_dir(real), mdir),
                              dict(rep, kind='correspondence', sink=fname))
                plines.append('PP9001=c:%s | %s | %s' % (','.join('%d.%d' % r for r in recs), mgone, show_dir(real)))
            for v, (fname, N, recs, real) in zip(model.ask(plines), metas):
                stats['oracle_evaluations'] += 1
                if v.strip() != '1':
                    stats['oracle_falsified'] += 1
                    chk.fail('two sinks in one process and directory (%s with N=%d, %s with N=%d): records written to %s are gone beyond its own '
                             'retention: its files are %s' % (names[0], N1, names[1], N2, fname, show_dir(real)),
                             dict(rep, sink=fname, directory=sorted(os.listdir(d))), kind='two-sinks')
                    break
        finally:
            shutil.rmtree(top, ignore_errors=True)


def configs(chk):
    thorough = chk.tier == 'thorough'
    rng = chk.rng
    out = []
    for opts in (0, 4, 1, 5):
        for (L, N) in ((8, 3), (8, 0), (20, 2)):
            out.append({'L': L, 'N': N, 'opts': opts, 'sizesA': [7, 7], 'sizesB': [7] * 6})
    # a sink started on a directory that already holds today's rotated files 8 and 9: its next rotations cross
    # index 10, where name order and rotation order part ("...10..." < "...8..."); retention may only take the oldest
    out.append({'L': 8, 'N': 3, 'opts': 0, 'sizesA': [], 'sizesB': [7] * 5, 'preseed': [[8, False, 9008], [9, False, 9009]]})
    out.append({'L': 8, 'N': 4, 'opts': 4, 'sizesA': [], 'sizesB': [7] * 5, 'preseed': [[8, False, 9008], [9, True, 9009]]})
    # base names with characters that are special in globs and regular expressions
    out.append({'L': 8, 'N': 0, 'opts': 4, 'sizesA': [7, 7], 'sizesB': [7] * 3, 'name': 'worker[1].log'})
    out.append({'L': 8, 'N': 3, 'opts': 0, 'sizesA': [7, 7], 'sizesB': [7] * 3, 'name': 'w?x+y.log'})
    if thorough:
        out.append({'L': 20, 'N': 2, 'opts': 5, 'sizesA': [7, 7, 7], 'sizesB': [7] * 6, 'name': 'a*b(c).d.log'})
        out.append({'L': 8, 'N': 0, 'opts': 0, 'sizesA': [7, 7], 'sizesB': [7] * 4, 'name': 'worker[1].log'})
        out.append({'L': 8, 'N': 4, 'opts': 4, 'sizesA': [7], 'sizesB': [7] * 5, 'name': '[x]?.{1}.log'})
    # N <= 0 means "keep everything": nothing may ever be deleted, whatever the sign
    out.append({'L': 8, 'N': -1, 'opts': 0, 'sizesA': [], 'sizesB': [7] * 4})
    out.append({'L': 20, 'N': -5, 'opts': 4, 'sizesA': [], 'sizesB': [7] * 5})
    if thorough:
        out.append({'L': 20, 'N': 3, 'opts': 5, 'sizesA': [7], 'sizesB': [7] * 8, 'preseed': [[7, True, 9007], [8, True, 9008], [9, True, 9009]]})
        out.append({'L': 8, 'N': 2, 'opts': 1, 'sizesA': [], 'sizesB': [7] * 4, 'preseed': [[98, False, 9098], [99, False, 9099]]})
    extra = 40 if thorough else 1
    for _ in range(extra):
        L = rng.choice((8, 15, 20, 30, 64))
        out.append({'L': L, 'N': rng.choice((0, 2, 2, 3, 4, 1, -1)), 'opts': rng.choice((0, 4, 1, 5, 4, 5)),
                    'sizesA': [rng.choice((7, 8, 12, 20)) for _ in range(rng.randint(0, 4))],
                    'sizesB': [rng.choice((7, 7, 8, 13, 21, L, L + 1)) for _ in range(rng.randint(3, 8 if thorough else 6))]})
    for i, c in enumerate(out):
        c['idx'] = i
    return out


def run():
    chk = vlib.Check('C10')
    chk.trusted = ['Coq 8.16.1 kernel; vm_compute only on the closed terms src_goodb src_crash and the example; no native_compute',
                   'axioms: none (every Print Assumptions: Closed under the global context)',
                   'tools/s2c/crash.py (rotatingfilesink.cpp, filesink.cpp -> SrcCrash.v: statement order of rotate/compressFile, retention and index rules)',
                   'extraction ExtrOcamlBasic; ocaml/drv_crash.ml; harness/h_crash.cpp',
                   'strace 6.x as tracer and fault injector (SIGKILL delivered before the k-th call takes effect); Python gzip as .gz decoder',
                   'kernel file system semantics (atomic rename/unlink/open), QFile buffering: modelled']
    chk.assumptions = ['faults: process death at any mutation-call boundary, or ONE failing rename/create(.gz)/unlink/open(O_CREAT) call; '
                       'write/close errors on the .gz are outside (F8) and so are power loss and partial writes',
                       'one calendar day per history (runs that cross midnight are discarded and counted)',
                       'no other process changes the directory']
    chk.proof(vlib.proof_leg('Properties_C10', ['crash']))
    model = Model(vlib.build_model('crash'))
    crash = vlib.build_harness('crash')
    good = model.ask(['C'])
    if good != ['1']:
        chk.broke('extracted model: src_goodb src_crash = %s (the translated step order is not the data-preserving one)' % good, {'kind': 'translator-config'})
    stats = {'configs': 0, 'trace_steps': 0, 'crash_points': 0, 'restarts': 0, 'failures': 0, 'oracle_evaluations': 0, 'oracle_falsified': 0,
             'crash_dir_mismatch': 0, 'restart_dir_mismatch': 0, 'skipped_midnight': 0, 'step_kinds': {}, 'failure_kinds': {}, 'samples': [], 'reported': set()}
    cfgs = configs(chk)
    with ThreadPoolExecutor(max_workers=16) as pool:
        for c in cfgs:
            if len(chk.failing) + len(chk.broken) > 12:
                break
            run_config(chk, crash, model, c, stats, pool)
    two_sink_leg(chk, crash, model, stats)
    chk.cov.update({'evaluations': stats['crash_points'] + stats['failures'] + stats['restarts'] + stats.get('two_sink_runs', 0),
                    'distinct_nontrivial': stats['crash_points'] + stats['failures'],
                    'rule': 'one evaluation = one real process killed before a mutation call (directory vs model crash state + extracted oracle), '
                            'one restart on that directory, or one injected errno failure; every (configuration, k) / (configuration, step, errno) is distinct',
                    'configurations': stats['configs'], 'trace_steps_validated': stats['trace_steps'], 'crash_points': stats['crash_points'],
                    'restarts': stats['restarts'], 'two_sink_runs': stats.get('two_sink_runs', 0), 'file_names': sorted({c.get('name', 'app.log') for c in cfgs}), 'single_failures': stats['failures'], 'oracle_evaluations': stats['oracle_evaluations'],
                    'oracle_falsified': stats['oracle_falsified'], 'crash_dir_mismatch': stats['crash_dir_mismatch'],
                    'restart_dir_mismatch': stats['restart_dir_mismatch'], 'skipped_midnight': stats['skipped_midnight'],
                    'step_kinds_in_traces': stats['step_kinds'], 'failure_kinds': stats['failure_kinds'],
                    'option_sets': sorted({c['opts'] for c in cfgs}), 'LN_pairs': sorted({(c['L'], c['N']) for c in cfgs})})
    chk.samples = stats['samples']
    return chk.finish()


def replay(path):
    r = json.load(open(path))['replay']
    if isinstance(r, list):
        r = r[0]
    if 'L' not in r:
        print(json.dumps(r, indent=1)); return 0
    vlib.gen_src(['crash'])
    model = Model(vlib.build_model('crash')); crash = vlib.build_harness('crash')
    chk = vlib.Check('C10')
    stats = {'configs': 0, 'trace_steps': 0, 'crash_points': 0, 'restarts': 0, 'failures': 0, 'oracle_evaluations': 0, 'oracle_falsified': 0,
             'crash_dir_mismatch': 0, 'restart_dir_mismatch': 0, 'skipped_midnight': 0, 'step_kinds': {}, 'failure_kinds': {}, 'samples': [], 'reported': set()}
    with ThreadPoolExecutor(max_workers=16) as pool:
        run_config(chk, crash, model, {'L': r['L'], 'N': r['N'], 'opts': r['options'], 'sizesA': r['phaseA_sizes'], 'sizesB': r['phaseB_sizes'], 'preseed': r.get('preseed', []), 'name': r.get('file_name', 'app.log'), 'idx': 0}, stats, pool)
    print('recorded       ', {k: r[k] for k in r if k not in ('how',)})
    for what, obj in chk.failing:
        print('implementation ', what)
        print('model          ', obj.get('model_directory') or obj.get('model_after_restart'))
    for what, obj in chk.broken:
        print('disagreement   ', what)
    print('crash points', stats['crash_points'], 'failures', stats['failures'], 'oracle falsified', stats['oracle_falsified'])
    return 0
