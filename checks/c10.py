"""C10 — A crash or I/O failure during rotation does not destroy flushed records."""
import datetime, gzip as pygzip, json, os, re, shutil, subprocess, tempfile, time
from concurrent.futures import ThreadPoolExecutor
import vlib

META = {
    'id': 'C10',
    'level': 'proof',
    'technique': 'Coq proof (induction over the prefixes of the mutation-step list of any sink history, with at most one failing '
                 'rename/create/unlink/open step; step order interpreted from the statement lists translated from rotate()/'
                 'compressFile()) + strace trace validation of the step list + real SIGKILL at every mutation system call and '
                 'injected errno failures on a real RotatingFileSink, each followed by a new sink that rotates (and runs its retention) '
                 'on what was left, in UTC and in time zones whose calendar date differs from the UTC date; directories compared with '
                 'the extracted model and judged by the extracted oracle',
    'text': 'Theorems (Properties_C10.v): for every directory, configuration, record list, single fault and crash point k, every '
            'record that was in an intact file or was appended before k is in an intact plain or complete .gz file of the crash '
            'directory, or went with a whole file removed by retention; rename and create targets never exist (next index skips '
            'plain and .gz); a restart is another history on the crash directory.  The step order the theorems rely on is '
            're-translated from the source on every run; the correspondence leg kills the real process before each mutation call.',
    'note': 'Trusted: Coq 8.16.1 kernel (vm_compute only for src_goodb src_crash and the example), no axioms; tools/s2c/crash.py '
            '(regex translation of rotate/compressFile/removeOldFiles/findNextIndexForDate/send/FileSink ctor); extraction + '
            'ocaml/drv_crash.ml; harness/h_crash.cpp; strace as tracer and injector (a process dies BEFORE the k-th call takes effect); '
            'Python gzip as decoder. Modelled, not verified: the kernel file system (rename/unlink/open atomic), QFile buffering, '
            'one calendar day per run (the model has no dates: a rotated name is its index; runs happen in UTC and in zones whose date differs from the UTC date by +1/-1, '
            'where the real names must still all carry one date). Outside C10 (by its own fault set): errors of write/close on the .gz (F8: never checked before '
            'the original is removed) - those steps are non-failing in the model; power loss (no fsync); partial writes; '
            "QFile::rename's block-copy fallback interrupted by a crash (a second fault).",
    'design_ref': 'DESIGN.md section 4, C10',
    'engine': 'coq+extraction+harness',
}

TRACE = 'trace=openat,write,close,renameat2,renameat,rename,link,unlink,unlinkat,truncate,ftruncate'
LINE = re.compile(r'^(\d+)\s+(\w+)\((.*)\)\s+=\s+(-?\d+|\?)(.*)$')
NAME = re.compile(r'^app\.(\d{4}-\d\d-\d\d)\.(\d+)\.log(\.gz)?$')
_NAME_CACHE = {}


def name_re(fname):
    """recogniser of the rotated names of <base>.<suffix>: <base>.<date>.<index>.<suffix>[.gz]"""
    if fname not in _NAME_CACHE:
        base, _, suf = fname.rpartition('.')
        _NAME_CACHE[fname] = re.compile(r'^%s\.(\d{4}-\d\d-\d\d)\.(\d+)\.%s(\.gz)?$' % (re.escape(base), re.escape(suf)))
    return _NAME_CACHE[fname]
ERRNOS = ('EACCES', 'ENOSPC', 'EIO')


# ------------------------------------------------------------------------------------------ time zones
# The rotated names carry a calendar date that the sink takes from three clocks: "now" (QDate::currentDate), the
# modification time of a non-empty active file found at start-up, and the time stamp of the message.  They agree only
# if all three are read in the same calendar.  A run in UTC cannot tell local from UTC dates apart, so part of the
# configurations run with TZ set to a zone whose calendar date is one AHEAD of (east) or one BEHIND (west) the UTC date
# at this very moment: a real zone when one qualifies with twenty minutes to spare (UTC+14 Kiritimati, UTC-12 Baker
# Island), else a synthetic POSIX zone 24 hours off (glibc accepts offsets up to 24 h), which qualifies at any time.
def pick_tz(side, now=None):
    now = now or datetime.datetime.utcnow()
    m = now.hour * 60 + now.minute
    if side == 'east':
        return 'LINT-14' if 10 * 60 + 20 <= m <= 23 * 60 + 40 else '<+24>-24'
    if side == 'west':
        return '<-12>12' if 20 <= m <= 11 * 60 + 40 else '<-24>24'
    return None


def tz_offset_h(tz):
    if not tz:
        return 0
    return -int(re.search(r'(-?\d+)$', tz).group(1))


def dates_now(tz):
    """(local calendar date in the zone, UTC calendar date) right now, as the strings the sink puts into names"""
    u = datetime.datetime.utcnow()
    return (u + datetime.timedelta(hours=tz_offset_h(tz))).strftime('%Y-%m-%d'), u.strftime('%Y-%m-%d')


def run_env(tz):
    e = dict(os.environ, LC_ALL='C.UTF-8')
    if tz:
        e['TZ'] = tz
    else:
        e.pop('TZ', None)
    return e


class Findings:
    """findings of one configuration, held back until it is known that the calendar date did not change under it"""
    def __init__(self, chk):
        self.tier, self.failing, self.broken, self._chk = chk.tier, [], [], chk

    def fail(self, what, replay, kind=None):
        self.failing.append((what, replay, kind))

    def broke(self, what, replay):
        # at most two reports of one kind per configuration (a shifted name repeats at every crash point)
        kind = replay.get('kind') if isinstance(replay, dict) else None
        if sum(1 for _, r in self.broken if isinstance(r, dict) and r.get('kind') == kind) < 2:
            self.broken.append((what, replay))

    def commit(self):
        for what, replay, kind in self.failing:
            self._chk.fail(what, replay, kind=kind)
        for what, replay in self.broken:
            self._chk.broke(what, replay)


# ------------------------------------------------------------------------------------------ real side
def strace_run(crash, logdir, L, N, opts, start, sizes, inject=(), trace_path=None, fname='app.log', tz=None):
    cmd = ['strace', '-f', '-s', '48', '-o', trace_path or '/dev/null', '-e', TRACE]
    for i in inject:
        cmd += ['-e', 'inject=' + i]
    cmd += [crash, logdir, str(L), str(N), str(opts), str(start), ','.join(map(str, sizes)), fname]
    p = subprocess.run(cmd, stdout=subprocess.PIPE, stderr=subprocess.PIPE, timeout=300, env=run_env(tz))
    done = [int(x.split()[1]) for x in p.stderr.decode('utf-8', 'replace').split('\n') if x.startswith('DONE')]
    return p.returncode, done


def plain_run(crash, logdir, L, N, opts, start, sizes, fname='app.log', extra=(), tz=None):
    p = subprocess.run([crash, logdir, str(L), str(N), str(opts), str(start), ','.join(map(str, sizes)), fname] + list(extra),
                       stdout=subprocess.PIPE, stderr=subprocess.PIPE, timeout=300, env=run_env(tz))
    return p.returncode


def parse_records(b):
    """(records [(id,size)], whole: every byte belongs to a well-formed record)"""
    recs, whole = [], True
    parts = b.split(b'\n')
    if parts and parts[-1] == b'':
        parts.pop()
    elif parts:
        whole = False
        parts.pop()
    for ln in parts:
        m = re.match(rb'^r(\d{5})x*$', ln)
        if m:
            recs.append((int(m.group(1)), len(ln) + 1))
        else:
            whole = False
    return recs, whole


FOREIGN_DATE = 100000


def read_dir(logdir, fname='app.log', ignore_foreign=False, today=None):
    """real directory -> {model name: (complete, [(id,size)])}, anomalies.
    The model has one calendar day: rotated files are P<index> / G<index>.  With `today` given, a rotated file whose
    name carries ANOTHER date is kept apart as index + FOREIGN_DATE * (1 + rank of that date) (it is a different file
    from the one with the same index and today's date) and reported in the anomalies as 'date-mix ...'."""
    out, odd, dates = {}, [], set()
    others = sorted({m.group(1) for m in (name_re(fname).match(f) for f in (os.listdir(logdir) if os.path.isdir(logdir) else [])) if m} - {today}) if today else []
    for f in sorted(os.listdir(logdir)) if os.path.isdir(logdir) else []:
        b = open(os.path.join(logdir, f), 'rb').read()
        if f == fname:
            recs, whole = parse_records(b)
            out['A'] = (whole, recs)
            continue
        m = name_re(fname).match(f)
        if not m:
            odd.append('foreign file ' + f); continue
        dates.add(m.group(1))
        idx = str(int(m.group(2)) + (FOREIGN_DATE * (1 + others.index(m.group(1))) if m.group(1) in others else 0))
        if m.group(3):
            try:
                if len(b) < 18:
                    raise ValueError('shorter than header + trailer')   # gzip.decompress(b'') == b''
                recs, whole = parse_records(pygzip.decompress(b))
                out['G' + idx] = (whole, recs)
            except Exception:
                out['G' + idx] = (False, [])
        else:
            recs, whole = parse_records(b)
            out['P' + idx] = (whole, recs)
    if today is None and len(dates) > 1:
        odd.append('midnight')
    if others:
        odd.append('date-mix ' + ','.join(sorted(dates)))
    return out, odd


def show_dir(d):
    return ';'.join('%s=%s:%s' % (n, 'c' if c else 'i', ','.join('%d.%d' % r for r in recs)) for n, (c, recs) in sorted(d.items()))


def parse_model_dir(s):
    d = {}
    for e in s.strip().split(';'):
        if not e:
            continue
        n, rest = e.split('=', 1)
        d[n] = (rest[0] == 'c', [tuple(map(int, t.split('.'))) for t in rest[2:].split(',') if t])
    return d


def same_dir(model, real):
    """the model's directory against the real one; an incomplete model file may be anything not yet closed"""
    if set(model) != set(real):
        return False
    for n, (c, recs) in model.items():
        rc, rrecs = real[n]
        if c:
            if not rc or rrecs != recs:
                return False
        elif rc and rrecs != recs:
            return False
    return True


def project(trace_path, logdir, fname='app.log'):
    """strace output -> list of events {tok, sc, ordinal, ok, injected} in the model's step alphabet, plus the ids
    whose write to the active file succeeded"""
    fd, counts, ev, flushed = {}, {}, [], []
    cur_i, pending_link = None, None
    pre = logdir.rstrip('/') + '/'
    NAME = name_re(fname)
    for line in open(trace_path, errors='replace'):
        m = LINE.match(line.rstrip('\n'))
        if not m:
            continue
        sc, args, ret, tail = m.group(2), m.group(3), m.group(4), m.group(5)
        counts[sc] = counts.get(sc, 0) + 1
        ok = ret not in ('-1', '?')
        inj = 'INJECTED' in tail
        paths = [p for p in re.findall(r'"((?:[^"\\]|\\.)*)"', args)]
        def e(tok):
            ev.append({'tok': tok, 'sc': sc, 'ordinal': counts[sc], 'ok': ok, 'injected': inj})
        if sc == 'openat':
            p = paths[0] if paths else ''
            if not p.startswith(pre):
                if ok and ret.isdigit():
                    fd.pop(int(ret), None)
                continue
            base = p[len(pre):]
            if 'O_CREAT' in args:
                if base == fname:
                    e('Ot' if 'O_TRUNC' in args else 'Oa')
                    if ok: fd[int(ret)] = ('A',)
                else:
                    mm = NAME.match(base)
                    if mm and mm.group(3):
                        e('Z' + mm.group(2)); cur_i = mm.group(2)
                        if ok: fd[int(ret)] = ('G', mm.group(2))
                    elif mm:
                        e('COPY' + mm.group(2))          # QFile::rename's block-copy fallback creating the target
                        if ok: fd[int(ret)] = ('C', mm.group(2))
                    else:
                        e('CREATE:' + base)
            elif ok and ret.isdigit():
                fd.pop(int(ret), None)
        elif sc == 'write':
            try:
                n = int(args.split(',')[0])
            except ValueError:
                continue
            if n in fd:
                k = fd[n]
                if k[0] == 'A':
                    mm = re.match(r'\d+, "r(\d{5})', args)
                    e('A%d' % int(mm.group(1)) if mm else 'A?')
                    if ok and mm: flushed.append(int(mm.group(1)))
                elif k[0] == 'G':
                    if not (ev and ev[-1]['tok'] == 'W' + k[1]):
                        e('W' + k[1])
                else:
                    e('COPYW' + k[1])
        elif sc == 'close':
            try:
                n = int(args.strip())
            except ValueError:
                continue
            if n in fd:
                k = fd.pop(n)
                if k[0] == 'A': e('X')
                elif k[0] == 'G': e('K' + k[1])
                else: e('COPYK' + k[1])
        elif sc in ('renameat2', 'renameat', 'rename', 'link'):
            if len(paths) >= 2 and paths[0] == pre + fname:
                mm = NAME.match(paths[1][len(pre):]) if paths[1].startswith(pre) else None
                if mm and not mm.group(3):
                    e('R' + mm.group(2)); cur_i = mm.group(2)
                    if sc == 'link' and ok: pending_link = True
                else:
                    e('RENAME:' + paths[1])
            elif paths and paths[0].startswith(pre):
                e('RENAME:' + ','.join(paths))
        elif sc == 'truncate':
            if paths and paths[0].startswith(pre):
                e('TRUNCATE:' + paths[0][len(pre):])
        elif sc == 'ftruncate':
            try:
                n = int(args.split(',')[0])
            except ValueError:
                continue
            if n in fd:
                e('TRUNCATE:fd-of-' + ''.join(fd[n]))
        elif sc in ('unlink', 'unlinkat'):
            p = paths[0] if paths else ''
            if not p.startswith(pre):
                continue
            base = p[len(pre):]
            if base == fname:
                if pending_link:
                    pending_link = None      # second half of the link+unlink shape of a rename
                else:
                    e('UNLINK-ACTIVE')
                continue
            mm = NAME.match(base)
            if mm and not mm.group(3) and mm.group(2) == cur_i and any(x['tok'] == 'Z' + cur_i for x in ev) \
               and not any(x['tok'] == 'U' + cur_i for x in ev):
                e('U' + mm.group(2))       # compressFile() removing the original (later unlinks of it are retention)
            elif mm:
                e('V' + ('G' if mm.group(3) else 'P') + mm.group(2))
            else:
                e('UNLINK:' + base)
    if ev and ev[-1]['tok'] == 'X':
        ev.pop()          # the destructor closing the active file at exit: no directory change, no further step
    return ev, flushed


def handle_closed_filter(toks):
    """model step tokens -> what reaches the kernel: a sink whose (re)open failed has no descriptor, so its
    close and its record writes (flagged '-' by the model) are not system calls"""
    return [t for t in toks if not (t[0] in 'XA' and t.endswith('-'))]


# ------------------------------------------------------------------------------------------ model side
class Model:
    def __init__(self, exe):
        self.exe = exe

    def ask(self, lines):
        rc, out, err = vlib.run_lines(self.exe, lines, timeout=300)
        return out

    @staticmethod
    def h_line(L, N, opts, fault, d0, recs):
        return 'H %d %d %d %s | %s | %s' % (L, N, opts, fault or '-', d0, ','.join('%d.%d' % r for r in recs))

    @staticmethod
    def split_h(out):
        """consume one H answer from a list of lines: (tokens, [(dir, gone)], rest)"""
        toks = out[0].split()
        states, i = [], 1
        while i < len(out) and out[i] != 'END':
            parts = out[i].split(' | ')
            parts += [''] * (3 - len(parts))
            states.append((parts[1].strip(), parts[2].strip()))
            i += 1
        return toks, states, out[i + 1:]


# ------------------------------------------------------------------------------------------ one configuration
def run_config(chk, crash, model, cfgv, stats, pool):
    """one configuration; its findings are committed only if the calendar date (local, in the configuration's time
    zone, and UTC) was the same from the first to the last process of it"""
    tz = cfgv.get('tz')
    d0 = dates_now(tz)
    buf = Findings(chk)
    reported = set(stats['reported'])
    try:
        run_config_1(buf, crash, model, cfgv, stats, pool, tz, d0[0])
    finally:
        if dates_now(tz) != d0:
            stats['skipped_midnight'] += 1
            stats['reported'] = reported
        else:
            buf.commit()


def restart_sizes(L):
    """what the sink started after a crash writes: the second and the third record each force a size rotation
    (when L > 0 and N != 1), so that index search, compression and RETENTION of the new sink run on what the crash left"""
    return [7, max(7, L), max(7, L)]


def run_config_1(chk, crash, model, cfgv, stats, pool, tz, today):
    L, N, opts, sizesA, sizesB = cfgv['L'], cfgv['N'], cfgv['opts'], cfgv['sizesA'], cfgv['sizesB']
    preseed = cfgv.get('preseed', [])
    fname = cfgv.get('name', 'app.log')
    fbase, _, fsuf = fname.rpartition('.')
    rs_sizes = restart_sizes(L)
    base = {'L': L, 'N': N, 'options': opts, 'phaseA_sizes': sizesA, 'phaseB_sizes': sizesB, 'preseed': preseed, 'file_name': fname,
            'TZ': tz, 'local_date': today, 'utc_date': dates_now(tz)[1], 'restart_sizes': rs_sizes,
            'how': 'all processes run with the environment variable TZ as given (null = the machine\'s zone, UTC here; the other values make the local calendar '
                   'date differ from the UTC date by one day at the time of the run); '
                   'preseed = rotated files app.<today>.<index>.log[.gz] holding record r<id> put into the directory first (a directory left by '
                   'earlier runs); h_crash <dir> L N options 0 <phaseA sizes> (untraced), then h_crash <dir> L N options <first id> <phaseB sizes> under strace; '
                   'after a kill: h_crash <dir> L N options 100 <restart sizes>'}
    top = tempfile.mkdtemp(prefix='c10_', dir='/tmp')
    try:
        tmpl = os.path.join(top, 'tmpl')
        os.makedirs(tmpl)
        for idx, gz, rid in preseed:
            data = b'r%05d\n' % rid
            with open(os.path.join(tmpl, '%s.%s.%d.%s%s' % (fbase, today, idx, fsuf, '.gz' if gz else '')), 'wb') as f:
                f.write(pygzip.compress(data) if gz else data)
        d_pre, _ = read_dir(tmpl, fname, today=today)
        if sizesA:
            if plain_run(crash, tmpl, L, N, opts, 0, sizesA, fname, tz=tz) != 0:
                chk.broke('phase A run failed', dict(base, kind='harness')); return
        d_tmpl, odd = read_dir(tmpl, fname, today=today)
        recsA = [(i, s) for i, s in enumerate(sizesA)]
        recsB = [(len(sizesA) + i, s) for i, s in enumerate(sizesB)]
        startB = len(sizesA)
        # model of phase A from the empty directory, of phase B from the REAL directory phase A left
        out = model.ask([Model.h_line(L, N, opts, None, show_dir(d_pre), recsA), Model.h_line(L, N, opts, None, show_dir(d_tmpl), recsB)])
        toksA, statesA, rest = Model.split_h(out)
        toksB, statesB, _ = Model.split_h(rest)
        if sizesA and not same_dir(parse_model_dir(statesA[-1][0]), d_tmpl):
            chk.broke('model and sink disagree on the directory after the untraced prefix: %s vs %s' % (statesA[-1][0], show_dir(d_tmpl)),
                      dict(base, kind='correspondence'))
            return
        # (a) trace validation: dry run of phase B
        dry = os.path.join(top, 'dry'); shutil.copytree(tmpl, dry)
        rc, done = strace_run(crash, dry, L, N, opts, startB, sizesB, trace_path=os.path.join(top, 'dry.tr'), fname=fname, tz=tz)
        ev, flushed = project(os.path.join(top, 'dry.tr'), dry, fname)
        real_toks = [x['tok'] for x in ev]
        model_toks = [t[:-1] for t in handle_closed_filter([t.split(':', 1)[1] for t in toksB])]
        stats['trace_steps'] += len(real_toks)
        d_final, odd2 = read_dir(dry, fname, today=today)
        mix = [x for x in odd + odd2 if x.startswith('date-mix')]
        if mix:
            chk.broke('rotated files of one run carry different calendar dates (%s) although the local date was %s and the UTC date %s during '
                      'the whole run (TZ=%s): the sink mixes calendars; directory %s' % (mix[-1][9:], today, base['utc_date'], tz, sorted(os.listdir(dry))),
                      dict(base, kind='date-mix', directory=sorted(os.listdir(dry))))
        aligned = rc == 0 and real_toks == model_toks
        if not aligned:
            chk.broke('trace validation: the mutation system calls of the real history are %s, the model step list is %s' % (
                ' '.join(real_toks), ' '.join(model_toks)), dict(base, kind='trace', real=real_toks, model=model_toks))
            if rc != 0 or len(real_toks) > 200:
                return
        if not same_dir(parse_model_dir(statesB[-1][0]), d_final):
            chk.broke('model and sink disagree on the final directory: %s vs %s' % (statesB[-1][0], show_dir(d_final)), dict(base, kind='correspondence'))
        for t in real_toks:
            stats['step_kinds'][t[0]] = stats['step_kinds'].get(t[0], 0) + 1
        pre_names = show_dir(d_tmpl)

        # (a2) the extracted oracle on the COMPLETE run: everything that was in the directory before, and every record
        # this sink flushed, is in an intact file at the end or went with a whole file the model's retention removes
        szs_all = dict(recsA + recsB)
        fl_all = [(i, szs_all[i]) for i in flushed if i in szs_all]
        pre_all = pre_names + (';' if pre_names else '') + 'P9001=c:' + ','.join('%d.%d' % x for x in fl_all)
        v = model.ask(['P%s | %s | %s' % (pre_all, statesB[-1][1], show_dir(d_final))])
        stats['oracle_evaluations'] += 1
        stats['whole_run_oracle'] = stats.get('whole_run_oracle', 0) + 1
        if rc == 0 and [x.strip() for x in v] != ['1']:
            stats['oracle_falsified'] += 1
            have = {r for c, recs in d_final.values() if c for r in recs}
            gone = {tuple(map(int, t.split('.'))) for t in statesB[-1][1].split(',') if t}
            was = {r for c, recs in d_tmpl.values() if c for r in recs} | set(fl_all)
            lost = sorted(i for i, _ in was - have - gone)
            kept_older = sorted(i for i, _ in have if lost and i < max(lost))
            chk.fail('a sink started on the directory an earlier sink left (TZ=%s, local date %s, UTC date %s), %d records written without any crash or failure: '
                     'records %s are in no intact file although the retention policy (N=%d) accounts only for %s%s; before: %s; after: %s' % (
                         tz, today, base['utc_date'], len(sizesB), lost, N, sorted(i for i, _ in gone),
                         (' - while the older records %s are still kept' % kept_older) if kept_older else '', pre_names, sorted(os.listdir(dry))),
                     dict(base, kind='run', lost_ids=lost, directory_before=pre_names, directory_after=show_dir(d_final), files_after=sorted(os.listdir(dry)),
                          model_directory=statesB[-1][0], model_retired=statesB[-1][1], oracle=' '.join(v)), kind='run')

        # (b) real crashes: kill before the k-th mutation call, for every k
        def crash_point(k):
            x = ev[k]
            d = os.path.join(top, 'k%d' % k); shutil.copytree(tmpl, d)
            tr = os.path.join(top, 'k%d.tr' % k)
            rc, done = strace_run(crash, d, L, N, opts, startB, sizesB, inject=['%s:signal=SIGKILL:when=%d' % (x['sc'], x['ordinal'])], trace_path=tr, fname=fname, tz=tz)
            evk, fl = project(tr, d, fname)
            dk, _ = read_dir(d, fname, today=today)
            # a new sink on what the crash left: three more writes, the last two rotating
            rc2 = plain_run(crash, d, L, N, opts, 100, rs_sizes, fname, tz=tz)
            dr, _ = read_dir(d, fname, today=today)
            shutil.rmtree(d, ignore_errors=True)
            return {'k': k, 'rc': rc, 'toks': [y['tok'] for y in evk], 'flushed': fl, 'dir': dk, 'rc2': rc2, 'after': dr}
        results = list(pool.map(crash_point, range(len(ev))))
        lines = []
        for r in results:
            lines.append(Model.h_line(L, N, opts, None, show_dir(r['dir']), [(100 + i, z) for i, z in enumerate(rs_sizes)]))
        out = model.ask(lines)
        plines, pmeta = [], []
        for r in results:
            k = r['k']
            stats['crash_points'] += 1
            rep = dict(base, kind='crash', crash_before_step=k, step=real_toks[k], syscall=ev[k]['sc'], ordinal=ev[k]['ordinal'])
            toksR, statesR, out = Model.split_h(out)
            if r['rc'] == 0 or r['toks'][:k] != real_toks[:k] or len(r['toks']) > k + 1:
                chk.broke('crash injection did not stop the process before step %d (%s)' % (k, real_toks[k]), dict(rep, kind='injector', got=r['toks']))
                continue
            # when the real step list is not the model's, crash points cannot be aligned: no directory comparison,
            # and the oracle gets everything the model's retention ever removes
            if aligned:
                mdir, mgone = statesB[k]
            else:
                # grant what the model's retention has removed once the rotation of the first unflushed write is complete
                nxt = max([i for i in r['flushed'] if i >= startB], default=startB - 1) + 1
                pos = [j for j, t in enumerate(toksB) if t.split(':', 1)[1][:-1] == 'A%d' % nxt]
                mdir, mgone = None, statesB[pos[0] if pos else -1][1]
            rep.update(directory_after_crash=show_dir(r['dir']), model_directory=mdir, flushed_ids=r['flushed'])
            if aligned and not same_dir(parse_model_dir(mdir), r['dir']):
                stats['crash_dir_mismatch'] += 1
                chk.broke('directory after a kill before step %d (%s) is %s, model says %s' % (k, real_toks[k], show_dir(r['dir']), mdir),
                          dict(rep, kind='correspondence'))
            szs = dict(recsA + recsB)
            fl = [(i, szs[i]) for i in r['flushed'] if i in szs]
            pre = pre_names + (';' if pre_names else '') + 'P9001=c:' + ','.join('%d.%d' % x for x in fl)
            plines.append('P%s | %s | %s' % (pre, mgone, show_dir(r['dir']))); pmeta.append((dict(rep), 'crash'))
            # restart
            rep2 = dict(rep, kind='restart', directory_after_restart=show_dir(r['after']), model_after_restart=statesR[-1][0] if statesR else None)
            if r['rc2'] != 0:
                chk.fail('a sink started on the directory left by a kill before step %d (%s) does not run' % (k, real_toks[k]), rep2, kind='restart')
                continue
            if not statesR or not same_dir(parse_model_dir(statesR[-1][0]), r['after']):
                stats['restart_dir_mismatch'] += 1
                chk.broke('directory after restart differs from the model: %s vs %s' % (show_dir(r['after']), statesR[-1][0] if statesR else None),
                          dict(rep2, kind='correspondence'))
            plines.append('P%s | %s | %s' % (show_dir({n: v for n, v in r['dir'].items()}), statesR[-1][1] if statesR else '', show_dir(r['after'])))
            pmeta.append((rep2, 'restart'))
            stats['restarts'] += 1
            nrot = sum(1 for t in toksR if re.match(r'^\d+:R\d+\+$', t))
            stats['restart_rotations'] = stats.get('restart_rotations', 0) + nrot
            stats['restarts_that_rotate'] = stats.get('restarts_that_rotate', 0) + (1 if nrot else 0)
            half_gz = [n for n, (c, _) in r['dir'].items() if n[0] == 'G' and not c and 'P' + n[1:] in r['dir']]
            if half_gz:
                # the kill fell into the compression window: the complete original sits next to an unfinished .gz
                key = 'restarts_on_original_plus_unfinished_gz'
                stats[key] = stats.get(key, 0) + 1
                if nrot and N > 1:
                    stats[key + '_rotating_with_finite_N'] = stats.get(key + '_rotating_with_finite_N', 0) + 1
                    if 'P' + half_gz[0][1:] in r['after']:
                        stats[key + '_original_kept_inside_retention'] = stats.get(key + '_original_kept_inside_retention', 0) + 1

        # (c) single failures of rename / create / unlink / open
        failable = [k for k, x in enumerate(ev) if re.match(r'^(R\d+|Z\d+|U\d+|V[PG]\d+|O[at])$', x['tok'])]
        jobs = []
        for n, k in enumerate(failable):
            errs = ERRNOS if chk.tier == 'thorough' else (ERRNOS[(n + cfgv['idx']) % 3],)
            for en in errs:
                jobs.append((k, en))
        def slot_of(k):
            evno = sum(1 for x in ev[:k + 1] if x['tok'] == 'X')
            t = ev[k]['tok']
            if t[0] == 'R': return '%d:r' % evno
            if t[0] == 'Z': return '%d:c' % evno
            if t[0] == 'U': return '%d:u' % evno
            if t[0] == 'O': return '%d:o' % evno
            j = k
            while j > 0 and ev[j - 1]['tok'][0] == 'V':
                j -= 1
            return '%d:v%d' % (evno, k - j)
        def failure(job):
            k, en = job
            x = ev[k]
            d = os.path.join(top, 'f%d%s' % (k, en)); shutil.copytree(tmpl, d)
            tr = os.path.join(top, 'f%d%s.tr' % (k, en))
            inj = ['%s:error=%s:when=%d' % (x['sc'], en, x['ordinal'])]
            rc, done = strace_run(crash, d, L, N, opts, startB, sizesB, inject=inj, trace_path=tr, fname=fname, tz=tz)
            evf, fl = project(tr, d, fname)
            res = [{'variant': 'syscall', 'rc': rc, 'toks': [(y['tok'], y['ok']) for y in evf], 'flushed': fl, 'dir': read_dir(d, fname, today=today)[0]}]
            shutil.rmtree(d, ignore_errors=True)
            if x['tok'][0] == 'R':
                # QFile::rename falls back to a block copy; make that fail as well so that QFile::rename itself fails
                cp = [y for y in evf if y['tok'].startswith('COPY') and y['sc'] == 'openat']
                if cp:
                    shutil.copytree(tmpl, d)
                    inj2 = inj + ['openat:error=%s:when=%d' % (en, cp[0]['ordinal'])]
                    rc, done = strace_run(crash, d, L, N, opts, startB, sizesB, inject=inj2, trace_path=tr, fname=fname, tz=tz)
                    evf, fl = project(tr, d, fname)
                    res.append({'variant': 'qfile-rename', 'rc': rc, 'toks': [(y['tok'], y['ok']) for y in evf], 'flushed': fl, 'dir': read_dir(d, fname, today=today)[0]})
                    shutil.rmtree(d, ignore_errors=True)
            return k, en, res
        fres = list(pool.map(failure, jobs))
        lines = []
        for k, en, res in fres:
            for v in res:
                rename_syscall_only = ev[k]['tok'][0] == 'R' and v['variant'] == 'syscall'
                lines.append(Model.h_line(L, N, opts, None if rename_syscall_only else slot_of(k), pre_names, recsB))
        out = model.ask(lines)
        for k, en, res in fres:
            for v in res:
                stats['failures'] += 1
                stats['failure_kinds'][ev[k]['tok'][0] + ':' + en] = stats['failure_kinds'].get(ev[k]['tok'][0] + ':' + en, 0) + 1
                toksF, statesF, out = Model.split_h(out)
                rep = dict(base, kind='failure', failing_step=k, step=real_toks[k], syscall=ev[k]['sc'], errno=en, ordinal=ev[k]['ordinal'],
                           variant=v['variant'], directory=show_dir(v['dir']), model_directory=statesF[-1][0])
                if v['rc'] != 0:
                    chk.fail('the process does not survive %s on step %d (%s)' % (en, k, real_toks[k]), rep, kind='failure-crash'); continue
                rename_syscall_only = ev[k]['tok'][0] == 'R' and v['variant'] == 'syscall'
                if not aligned:
                    # the real step list is not the model's: a fault cannot be mapped to a model slot, so there is no
                    # reference for what retention may remove in this run; no verdict (the trace mismatch is reported)
                    stats['failures_unjudged'] = stats.get('failures_unjudged', 0) + 1
                    continue
                if not rename_syscall_only:
                    mt = handle_closed_filter([t.split(':', 1)[1] for t in toksF])
                    rt = [t + ('+' if ok else '-') for t, ok in v['toks'] if not t.startswith('COPY')]
                    if mt != rt:
                        chk.broke('after %s on step %d (%s) the sink continues with %s, the model with %s' % (en, k, real_toks[k], ' '.join(rt), ' '.join(mt)),
                                  dict(rep, kind='trace'))
                if not same_dir(parse_model_dir(statesF[-1][0]), v['dir']):
                    chk.broke('directory after %s on step %d (%s): %s, model %s' % (en, k, real_toks[k], show_dir(v['dir']), statesF[-1][0]), dict(rep, kind='correspondence'))
                szs = dict(recsA + recsB)
                fl = [(i, szs[i]) for i in v['flushed'] if i in szs]
                pre = pre_names + (';' if pre_names else '') + 'P9001=c:' + ','.join('%d.%d' % x for x in fl)
                plines.append('P%s | %s | %s' % (pre, statesF[-1][1], show_dir(v['dir']))); pmeta.append((rep, 'failure'))
        # the extracted oracle on every real directory collected above
        verdicts = model.ask(plines)
        for v, (rep, what) in zip(verdicts, pmeta):
            stats['oracle_evaluations'] += 1
            if v.strip() != '1':
                stats['oracle_falsified'] += 1
                key = (what, rep.get('step', '')[:1])
                if key in stats['reported']:
                    continue
                stats['reported'].add(key)
                if what == 'crash':
                    msg = 'after a kill before step %d (%s) a flushed record is in no intact file: directory %s, flushed ids %s' % (
                        rep['crash_before_step'], rep['step'], rep['directory_after_crash'], rep['flushed_ids'])
                elif what == 'restart':
                    msg = 'a sink restarted after a kill before step %d (%s) destroyed records beyond retention: before %s, after %s' % (
                        rep['crash_before_step'], rep['step'], rep['directory_after_crash'], rep['directory_after_restart'])
                else:
                    msg = '%s on step %d (%s) destroyed flushed records: directory %s' % (rep['errno'], rep['failing_step'], rep['step'], rep['directory'])
                chk.fail(msg, dict(rep, oracle=v.strip()), kind=rep['kind'])
        stats['configs'] += 1
        if len(stats['samples']) < 4:
            stats['samples'].append({'config': {k: base[k] for k in ('L', 'N', 'options')}, 'real_steps': ' '.join(real_toks)[:300],
                                     'crash_points': len(ev), 'failures': len(fres)})
    finally:
        shutil.rmtree(top, ignore_errors=True)


def two_sink_leg(chk, crash, model, stats):
    """two sinks in ONE process and directory, same base name, different suffix and count limit: each sink's
    rotation and retention must act on its own files only (directory per sink = model, oracle on its records)"""
    thorough = chk.tier == 'thorough'
    variants = [(8, 10, 2, 0, 14), (8, 10, 2, 4, 14)] + ([(20, 0, 2, 5, 20), (8, 3, 2, 0, 16), (8, 2, 10, 4, 16)] if thorough else [])
    for L, N1, N2, opts, n in variants:
        top = tempfile.mkdtemp(prefix='c10t_', dir='/tmp')
        try:
            d = os.path.join(top, 'log')
            names = ('service.log', 'service.err')
            rep = {'kind': 'two-sinks', 'L': None, 'max_size': L, 'N1': N1, 'N2': N2, 'options': opts, 'records': n, 'names': names,
                   'how': 'h_crash <dir> %d %d %d 0 %s service.log service.err %d  (records alternate between the two sinks)' % (L, N1, opts, ','.join(['7'] * n), N2)}
            rc = plain_run(crash, d, L, N1, opts, 0, [7] * n, names[0], extra=[names[1], str(N2)])
            stats['two_sink_runs'] = stats.get('two_sink_runs', 0) + 1
            if rc != 0:
                chk.fail('two sinks in one directory: the process failed', rep, kind='two-sinks'); continue
            lines, metas = [], []
            for k, (fname, N) in enumerate(zip(names, (N1, N2))):
                recs = [(i, 7) for i in range(n) if i % 2 == k]
                real, _ = read_dir(d, fname)
                lines.append(Model.h_line(L, N, opts, None, '', recs)); metas.append((fname, N, recs, real))
            out = model.ask(lines)
            plines = []
            for fname, N, recs, real in metas:
                toks, states, out = Model.split_h(out)
                mdir, mgone = states[-1]
                if not same_dir(parse_model_dir(mdir), real):
                    chk.broke('two sinks in one directory: files of %s are %s, a sink alone (model) leaves %s' % (fname, show_dir(real), mdir),
                              dict(rep, kind='correspondence', sink=fname))
                plines.append('PP9001=c:%s | %s | %s' % (','.join('%d.%d' % r for r in recs), mgone, show_dir(real)))
            for v, (fname, N, recs, real) in zip(model.ask(plines), metas):
                stats['oracle_evaluations'] += 1
                if v.strip() != '1':
                    stats['oracle_falsified'] += 1
                    chk.fail('two sinks in one process and directory (%s with N=%d, %s with N=%d): records written to %s are gone beyond its own '
                             'retention: its files are %s' % (names[0], N1, names[1], N2, fname, show_dir(real)),
                             dict(rep, sink=fname, directory=sorted(os.listdir(d))), kind='two-sinks')
                    break
        finally:
            shutil.rmtree(top, ignore_errors=True)


def configs(chk):
    thorough = chk.tier == 'thorough'
    rng = chk.rng
    out = []
    for opts in (0, 4, 1, 5):
        for (L, N) in ((8, 3), (8, 0), (20, 2)):
            out.append({'L': L, 'N': N, 'opts': opts, 'sizesA': [7, 7], 'sizesB': [7] * 6})
    # a sink started on a directory that already holds today's rotated files 8 and 9: its next rotations cross
    # index 10, where name order and rotation order part ("...10..." < "...8..."); retention may only take the oldest
    out.append({'L': 8, 'N': 3, 'opts': 0, 'sizesA': [], 'sizesB': [7] * 5, 'preseed': [[8, False, 9008], [9, False, 9009]]})
    out.append({'L': 8, 'N': 4, 'opts': 4, 'sizesA': [], 'sizesB': [7] * 5, 'preseed': [[8, False, 9008], [9, True, 9009]]})
    # base names with characters that are special in globs and regular expressions
    out.append({'L': 8, 'N': 0, 'opts': 4, 'sizesA': [7, 7], 'sizesB': [7] * 3, 'name': 'worker[1].log'})
    out.append({'L': 8, 'N': 3, 'opts': 0, 'sizesA': [7, 7], 'sizesB': [7] * 3, 'name': 'w?x+y.log'})
    if thorough:
        out.append({'L': 20, 'N': 2, 'opts': 5, 'sizesA': [7, 7, 7], 'sizesB': [7] * 6, 'name': 'a*b(c).d.log'})
        out.append({'L': 8, 'N': 0, 'opts': 0, 'sizesA': [7, 7], 'sizesB': [7] * 4, 'name': 'worker[1].log'})
        out.append({'L': 8, 'N': 4, 'opts': 4, 'sizesA': [7], 'sizesB': [7] * 5, 'name': '[x]?.{1}.log'})
    # compression with a finite count limit that is NOT reached: whatever a kill inside the compression window leaves
    # (the complete original next to an unfinished .gz) must survive the rotations and the retention of the next sink
    out.append({'L': 8, 'N': 10, 'opts': 4, 'sizesA': [7, 7], 'sizesB': [7] * 4})
    out.append({'L': 20, 'N': 7, 'opts': 5, 'sizesA': [7, 7], 'sizesB': [7] * 5})
    if thorough:
        out.append({'L': 8, 'N': 100, 'opts': 4, 'sizesA': [7], 'sizesB': [7] * 6})
        out.append({'L': 30, 'N': 1000, 'opts': 5, 'sizesA': [7, 12], 'sizesB': [12] * 6})
    # RotationDaily (bit 2) on: within one calendar day it must change nothing (the model has no such flag) - provided the
    # date of the message, the date of "now" and the date of the file's time stamp are taken in the same calendar
    out.append({'L': 8, 'N': 3, 'opts': 6, 'sizesA': [7, 7], 'sizesB': [7] * 4})
    out.append({'L': 20, 'N': 2, 'opts': 3, 'sizesA': [7], 'sizesB': [7] * 5})
    if thorough:
        out.append({'L': 8, 'N': 0, 'opts': 2, 'sizesA': [], 'sizesB': [7] * 4})
        out.append({'L': 8, 'N': 4, 'opts': 7, 'sizesA': [7, 7], 'sizesB': [7] * 5})
    # N <= 0 means "keep everything": nothing may ever be deleted, whatever the sign
    out.append({'L': 8, 'N': -1, 'opts': 0, 'sizesA': [], 'sizesB': [7] * 4})
    out.append({'L': 20, 'N': -5, 'opts': 4, 'sizesA': [], 'sizesB': [7] * 5})
    if thorough:
        out.append({'L': 20, 'N': 3, 'opts': 5, 'sizesA': [7], 'sizesB': [7] * 8, 'preseed': [[7, True, 9007], [8, True, 9008], [9, True, 9009]]})
        out.append({'L': 8, 'N': 2, 'opts': 1, 'sizesA': [], 'sizesB': [7] * 4, 'preseed': [[98, False, 9098], [99, False, 9099]]})
    extra = 40 if thorough else 1
    for _ in range(extra):
        L = rng.choice((8, 15, 20, 30, 64))
        out.append({'L': L, 'N': rng.choice((0, 2, 2, 3, 4, 1, -1, 9, 50)), 'opts': rng.choice((0, 4, 1, 5, 4, 5, 6, 3)),
                    'sizesA': [rng.choice((7, 8, 12, 20)) for _ in range(rng.randint(0, 4))],
                    'sizesB': [rng.choice((7, 7, 8, 13, 21, L, L + 1)) for _ in range(rng.randint(3, 8 if thorough else 6))]})
    # time zone of the processes: every second configuration runs where the local calendar date is one ahead of the UTC
    # date (east), every sixth where it is one behind (west), the others in the machine's zone
    for i, c in enumerate(out):
        c['idx'] = i
        c['tz'] = pick_tz('east' if i % 2 == 1 else 'west' if i % 6 == 2 else None)
    return out


def run():
    chk = vlib.Check('C10')
    chk.trusted = ['Coq 8.16.1 kernel; vm_compute only on the closed terms src_goodb src_crash and the example; no native_compute',
                   'axioms: none (every Print Assumptions: Closed under the global context)',
                   'tools/s2c/crash.py (rotatingfilesink.cpp, filesink.cpp -> SrcCrash.v: statement order of rotate/compressFile, retention and index rules)',
                   'extraction ExtrOcamlBasic; ocaml/drv_crash.ml; harness/h_crash.cpp',
                   'strace 6.x as tracer and fault injector (SIGKILL delivered before the k-th call takes effect); Python gzip as .gz decoder',
                   'kernel file system semantics (atomic rename/unlink/open), QFile buffering: modelled']
    chk.assumptions = ['faults: process death at any mutation-call boundary, or ONE failing rename/create(.gz)/unlink/open(O_CREAT) call; '
                       'write/close errors on the .gz are outside (F8) and so are power loss and partial writes',
                       'one calendar day per history (configurations under which the local or the UTC date changes are discarded and counted); the day itself is '
                       'arbitrary: part of the configurations run in a time zone whose calendar date is one ahead of / one behind the UTC date',
                       'RotationDaily, where set, is a no-op (one calendar day): the model ignores that flag',
                       'no other process changes the directory']
    chk.proof(vlib.proof_leg('Properties_C10', ['crash']))
    model = Model(vlib.build_model('crash'))
    crash = vlib.build_harness('crash')
    good = model.ask(['C'])
    if good != ['1']:
        chk.broke('extracted model: src_goodb src_crash = %s (the translated step order is not the data-preserving one)' % good, {'kind': 'translator-config'})
    stats = {'configs': 0, 'trace_steps': 0, 'crash_points': 0, 'restarts': 0, 'failures': 0, 'oracle_evaluations': 0, 'oracle_falsified': 0,
             'crash_dir_mismatch': 0, 'restart_dir_mismatch': 0, 'skipped_midnight': 0, 'step_kinds': {}, 'failure_kinds': {}, 'samples': [], 'reported': set()}
    cfgs = configs(chk)
    with ThreadPoolExecutor(max_workers=16) as pool:
        for c in cfgs:
            if len(chk.failing) >= 3 or len(chk.failing) + len(chk.broken) > 40:
                break
            run_config(chk, crash, model, c, stats, pool)
    two_sink_leg(chk, crash, model, stats)
    chk.cov.update({'evaluations': stats['crash_points'] + stats['failures'] + stats['restarts'] + stats.get('two_sink_runs', 0),
                    'distinct_nontrivial': stats['crash_points'] + stats['failures'],
                    'rule': 'one evaluation = one real process killed before a mutation call (directory vs model crash state + extracted oracle), '
                            'one restart on that directory, or one injected errno failure; every (configuration, k) / (configuration, step, errno) is distinct',
                    'configurations': stats['configs'], 'trace_steps_validated': stats['trace_steps'], 'crash_points': stats['crash_points'],
                    'restarts': stats['restarts'], 'restarts_that_rotate': stats.get('restarts_that_rotate', 0), 'restart_rotations': stats.get('restart_rotations', 0),
                    'restarts_on_original_plus_unfinished_gz': stats.get('restarts_on_original_plus_unfinished_gz', 0),
                    'restarts_on_original_plus_unfinished_gz_rotating_with_finite_N': stats.get('restarts_on_original_plus_unfinished_gz_rotating_with_finite_N', 0),
                    'restarts_on_original_plus_unfinished_gz_original_kept_inside_retention': stats.get('restarts_on_original_plus_unfinished_gz_original_kept_inside_retention', 0),
                    'whole_run_oracle': stats.get('whole_run_oracle', 0),
                    'time_zones': {str(z): sum(1 for c in cfgs if c.get('tz') == z) for z in sorted({c.get('tz') for c in cfgs}, key=str)},
                    'configs_local_date_differs_from_utc': sum(1 for c in cfgs if c.get('tz')),
                    'two_sink_runs': stats.get('two_sink_runs', 0), 'file_names': sorted({c.get('name', 'app.log') for c in cfgs}), 'single_failures': stats['failures'], 'oracle_evaluations': stats['oracle_evaluations'],
                    'oracle_falsified': stats['oracle_falsified'], 'crash_dir_mismatch': stats['crash_dir_mismatch'],
                    'restart_dir_mismatch': stats['restart_dir_mismatch'], 'skipped_midnight': stats['skipped_midnight'],
                    'step_kinds_in_traces': stats['step_kinds'], 'failure_kinds': stats['failure_kinds'],
                    'option_sets': sorted({c['opts'] for c in cfgs}), 'LN_pairs': sorted({(c['L'], c['N']) for c in cfgs})})
    chk.samples = stats['samples']
    return chk.finish()


def replay(path):
    r = json.load(open(path))['replay']
    if isinstance(r, list):
        r = r[0]
    if 'L' not in r:
        print(json.dumps(r, indent=1)); return 0
    vlib.gen_src(['crash'])
    model = Model(vlib.build_model('crash')); crash = vlib.build_harness('crash')
    chk = vlib.Check('C10')
    stats = {'configs': 0, 'trace_steps': 0, 'crash_points': 0, 'restarts': 0, 'failures': 0, 'oracle_evaluations': 0, 'oracle_falsified': 0,
             'crash_dir_mismatch': 0, 'restart_dir_mismatch': 0, 'skipped_midnight': 0, 'step_kinds': {}, 'failure_kinds': {}, 'samples': [], 'reported': set()}
    with ThreadPoolExecutor(max_workers=16) as pool:
        tz = r.get('TZ')
        if tz:      # the recorded zone made local date - UTC date = +1 / -1 at that time; take the zone that does so now
            tz = pick_tz('east' if tz_offset_h(tz) > 0 else 'west')
        run_config(chk, crash, model, {'L': r['L'], 'N': r['N'], 'opts': r['options'], 'sizesA': r['phaseA_sizes'], 'sizesB': r['phaseB_sizes'], 'preseed': r.get('preseed', []), 'name': r.get('file_name', 'app.log'), 'idx': 0, 'tz': tz}, stats, pool)
    print('recorded       ', {k: r[k] for k in r if k not in ('how',)})
    for what, obj in chk.failing:
        print('implementation ', what)
        print('model          ', obj.get('model_directory') or obj.get('model_after_restart'))
    for what, obj in chk.broken:
        print('disagreement   ', what)
    print('crash points', stats['crash_points'], 'failures', stats['failures'], 'oracle falsified', stats['oracle_falsified'])
    return 0
