"""C18 \u2014 Sentry events are valid Store-API payloads that carry the message faithfully."""
import datetime, json, os, re
import vlib
from checks import json_util as J

META = {
    'id': 'C18',
    'level': 'proof',
    'technique': 'Coq proof (event model on top of the C13 JSON writer/parser model: round trip, level map, fingerprint, logger rule, '
                 'attribute conservation through the key sort, ISO-8601 UTC rendering read back to the second, 128-bit id rendering '
                 'injective) + source-to-Coq translation of SentryFormatter::format + byte-exact differential run against the real '
                 'SentryFormatter under a virtual clock + extracted boolean oracle and Python json on the implementation output',
    'text': 'Theorems (Properties_C18.v) show for EVERY message, attribute list and time in years 0000-9999 that the event text parses back '
            'to the written object, carries level / message.formatted / logger / fingerprint / timestamp as specified, and holds every '
            'custom attribute exactly once (dedicated slot or extra); a number held by any numeric QVariant type inside its range is intact (the number under '
            'extra, its decimal digits - which identify it - in a routed slot, integer types).  The constants and the shape of format() are re-read from '
            'sentryformatter.cpp on every run; the extracted model is compared byte for byte with the real formatter (event id taken '
            'from the output; its format and pairwise distinctness are checked, freshness itself is QUuid\'s).',
    'note': 'Trusted: Coq 8.16.1 kernel (vm_compute for the closed configuration check and the 146097-day civil-calendar sweep), no axioms; '
            'tools/s2c/sentry.py, extraction (ExtrOcamlBasic only), ocaml/drv_sentry.ml, harness/h_sentry.cpp (virtual clock by defining '
            'gettimeofday/clock_gettime), Python json/datetime (independent oracle).  Modelled, not verified: QJsonDocument/QJsonObject, '
            'QVariant::toString, QDateTime::toUTC().toString(Qt::ISODate), QUuid::createUuid (outside: only format and distinctness observed).',
    'design_ref': 'DESIGN.md section 4, C18',
    'engine': 'coq+extraction+harness',
}

LEVEL = {0: 'debug', 1: 'warning', 2: 'error', 3: 'fatal', 4: 'info'}
ROUTES = {'appname': ('tags', None, 'app_name'), 'appversion': ('tags', None, 'app_version'),
          'os_name': ('contexts', 'os', 'name'), 'os_version': ('contexts', 'os', 'version'),
          'kernel_version': ('contexts', 'os', 'kernel_version'), 'build_abi': ('contexts', 'os', 'build'),
          'cpu_arch': ('contexts', 'device', 'arch'), 'host_name': ('contexts', 'device', 'name')}
NAMES = list(ROUTES) + ['seq_number', 'user', 'line', 'file', 'thread_id', 'Z', '\u00e9', 'x y', 'app_name', 'qt_version', 'name',
                        'appnam', 'appnamee', 'os_nam', 'host_name2', 'Appname', '', 'k\n', '\uffff', '\U0001F600k', 'extra', 'tags']
CATS = ['default', 'net', 'app.ui', '', 'qt.core', 'Default', 'default ', 'defaul', './default', 'default/', 'x/../default', ' default', 'default//']
FILES = ['/a/b.cpp', 'main.cpp', '', '../x y/z.h']
FUNCS = ['void f(int)', 'int main(int, char**)', '', 'f']
LINES = [0, 1, 42, 99999, 2147483647]
DAY = 86400000
Y9999 = 253402300799999
TIMES = [0, 999, 1000, 1001, DAY - 1, DAY, 951782400000, 951782400000 + DAY - 1, 951868800000,  # 2000-02-29, 2000-03-01
         4107542400000 - 1, 4107542400000, 4107542400000 + DAY,  # 2100-02-28 / 03-01 (no leap day)
         1709164800000, 1709251199999, 1735689599999, 1735689600000,  # 2024-02-29, 2024-12-31 / 2025-01-01
         978307199999, 978307200000, 1700000000000, 1700000000999, Y9999, Y9999 - 999, Y9999 - 1000,
         -62167219200000 + 366 * DAY]  # 0001-01-01
# process environments of the harness sub-runs: the event must depend neither on the time zone nor on the
# system locale (ar_EG / fa_IR have non-ASCII native digits; Qt uses its own CLDR data, no installed locale needed)
TZS = ['XYZ-05:30|ar_EG.UTF-8', 'PQR8|fa_IR.UTF-8', 'UTC0|C']
LONG = [8191, 8192, 8193, 20000]


def env_of(tz):
    z, loc = tz.split('|')
    return {'TZ': z, 'LC_ALL': loc, 'LANG': loc, 'LC_NUMERIC': loc, 'LC_TIME': loc}


def long_case(rng, n):
    c = gen_case(rng, {}, 'wf')
    c['msg'] = [rng.choice([0x61, 0x62, 0x20, 0xE9, 0x4E2D, 0x22]) for _ in range(n)]
    c['attrs'] = c['attrs'][:2]
    return c


def gen_case(rng, hist, stream):
    mal = stream == 'malformed'
    na = rng.choice([0, 1, 2, 3, 4, 6, 9])
    keys = [rng.choice(NAMES) if rng.random() < 0.8 else rng.choice(list(ROUTES)) for _ in range(na)]
    attrs = []
    for k in keys:
        if k in ROUTES and stream != 'routed-any':
            r = rng.random()
            if r < 0.75:
                v = ('s', J.gen_units(rng, None, 10, mal and rng.random() < 0.3))
            elif r < 0.83:
                v = (rng.choice('iId'), rng.choice(J.SMALL_INTS))
            elif r < 0.9:
                v = J.gen_number(rng, hist, J.INT_TYPED)   # int / uint / qlonglong / qulonglong at their boundaries: toString() = the digits
            else:
                v = ('b', rng.random() < 0.5)
        else:
            v = J.gen_value(rng, hist, 0, mal)
            if k in ROUTES and v[0] in 'dF':
                v = ('i', v[1])  # QVariant(double / float).toString() is outside the model (shortest 'g' form, e.g. 1e+06)
        attrs.append((J.units(k), v))
    r = rng.random()
    if r < 0.25:
        # around the fingerprint cut: 97..103 units, astral pair straddling unit 100
        n = rng.choice([97, 98, 99, 100, 101, 102, 103, 200])
        msg = [rng.choice([0x61, 0x62, 0x22, 0x5C, 0x0A, 0xE9, 0x4E2D]) for _ in range(n)]
        if rng.random() < 0.5 and n >= 101:
            p = rng.choice([98, 99, 100])
            msg[p:p + 2] = [0xD83D, 0xDE00]
        hist['msg_near_cut'] = hist.get('msg_near_cut', 0) + 1
    else:
        msg = J.gen_units(rng, hist, 40, mal)
    r = rng.random()
    ms = rng.choice(TIMES) if r < 0.3 else (rng.randrange(0, Y9999 + 1) if r < 0.6 else 1700000000000 + rng.randrange(0, 10 ** 11))
    nul = rng.random() < 0.15
    case = {'ms': ms, 'type': rng.randrange(5), 'msg': msg, 'fmt': None if rng.random() < 0.5 else J.gen_units(rng, None, 10),
            'cat': None if rng.random() < 0.03 else J.units(J.gen_ascii(rng, hist, CATS, 'category')),
            'file': None if nul or rng.random() < 0.05 else J.units(J.gen_ascii(rng, hist, FILES, 'file')),
            'fn': None if nul or rng.random() < 0.05 else J.units(J.gen_ascii(rng, hist, FUNCS, 'function')),
            'line': rng.choice(LINES), 'attrs': attrs, 'stream': stream}
    if mal and J.well_formed(case['msg']) and all(J.value_wf(v) for _, v in attrs):
        case['msg'] = case['msg'] + [0xDC00]
    return case


def opt(us):
    return '0' if us is None else J.hx(us)


def line_of(c):
    toks = [str(c['ms']), str(c['type']), J.hx(c['msg']), opt(c['fmt']), opt(c['cat']), opt(c['file']), opt(c['fn']),
            str(c['line']), str(len(c['attrs']))]
    for k, v in c['attrs']:
        toks += [J.hx(k)] + J.value_tokens(v)
    return ' '.join(toks)


def to_qstring(v):
    t = v[0]
    if t == 's':
        return J.pystr(v[1]), False
    if t in J.NUM_TOKENS:
        return str(v[1]), False
    if t == 'b':
        return ('true' if v[1] else 'false'), False
    return '', True  # list / map / null: QVariant::toString() gives "", the value is not carried


def iso_of(ms):
    secs = ms // 1000
    d = datetime.datetime(1970, 1, 1) + datetime.timedelta(seconds=secs)
    return '%04d-%02d-%02dT%02d:%02d:%02dZ' % (d.year, d.month, d.day, d.hour, d.minute, d.second)


def _r(x, n=160):
    t = repr(x)
    return t if len(t) <= n else t[:n] + '...(%d chars)' % len(t)


def python_oracle(c, out_units, obs):
    text = J.pystr(out_units)
    try:
        ev = J.loads_strict(text)
    except J.DuplicateKey as e:
        return 'invalid-json', 'duplicate key %r' % (e.args[0],)
    except ValueError as e:
        return 'invalid-json', 'python json rejects the output: %s' % e
    if not isinstance(ev, dict):
        return 'invalid-json', 'not an object'
    eid = ev.get('event_id')
    if not (isinstance(eid, str) and re.fullmatch(r'[0-9a-f]{32}', eid)):
        return 'event-id', 'event_id %r is not 32 lowercase hex digits' % (eid,)
    if ev.get('timestamp') != iso_of(c['ms']):
        return 'timestamp', 'timestamp %r, expected %r (message time %d ms)' % (ev.get('timestamp'), iso_of(c['ms']), c['ms'])
    lvl = LEVEL[c['type']]
    if ev.get('level') != lvl:
        return 'level', 'level %r, expected %r for QtMsgType %d' % (ev.get('level'), lvl, c['type'])
    text_u = c['msg']
    if not (isinstance(ev.get('message'), dict) and J.same(ev['message'].get('formatted'), J.pystr(text_u))):
        return 'message', 'message.formatted is %s (%s UTF-16 units), expected the message text %s (%d units)' % (
            _r(ev.get('message')), len(J.units(ev['message'].get('formatted'))) if isinstance(ev.get('message'), dict) and isinstance(ev['message'].get('formatted'), str) else '?', _r(J.pystr(text_u)), len(text_u))
    cat = J.pystr(c['cat'] or [])
    if cat in ('', 'default'):
        if 'logger' in ev:
            return 'logger', 'logger %r present for category %r' % (ev['logger'], cat)
    elif ev.get('logger') != cat:
        return 'logger', 'logger %r, expected %r' % (ev.get('logger'), cat)
    fp = [lvl, cat or 'default', J.pystr(text_u[:100])]
    if not J.same(ev.get('fingerprint'), fp):
        return 'fingerprint', 'fingerprint %s, expected %s' % (_r(ev.get('fingerprint'), 400), _r(fp, 400))
    if len(text_u) > 100 and 0xD800 <= text_u[99] <= 0xDBFF and J.well_formed(text_u):
        obs['fingerprint_cut_splits_surrogate_pair'] = obs.get('fingerprint_cut_splits_surrogate_pair', 0) + 1
    custom = {}
    for k, v in c['attrs']:
        custom[J.pystr(k)] = v
    extra = ev.get('extra')
    if not isinstance(extra, dict):
        return 'attribute', 'extra is not an object'
    finding = None   # the open known finding (F16) never hides another violation of the same event
    for k, v in custom.items():
        if k in ROUTES:
            a, b, name = ROUTES[k]
            slot = '.'.join(x for x in (a, b, name) if x)
            o = ev.get(a, {})
            if b is not None:
                o = o.get(b, {}) if isinstance(o, dict) else {}
            o = o if isinstance(o, dict) else {}
            want, nonscalar = to_qstring(v)
            if nonscalar:
                # a list / map / null under a routed name: "value intact" = the value itself, once, in the slot or under extra
                intact = J.value_py(v)
                in_slot = name in o and J.same(o[name], intact)
                in_extra = k in extra and J.same(extra[k], intact)
                if (in_slot and k not in extra) or (in_extra and name not in o):
                    continue
                if name in o and o[name] == '' and k not in extra:
                    if finding is None:
                        finding = ('routed_nonscalar_value',
                                   'routed attribute %r holds a %s; its slot %s holds "" (QVariant::toString) and it is absent from extra: the value is lost'
                                   % (k, VALUE_TYPE[v[0]], slot),
                                   {'attribute': k, 'value_type': VALUE_TYPE[v[0]], 'slot': slot, 'rendered': ''})
                    continue
                return 'attribute', 'routed attribute %r (a %s) is neither intact nor rendered as today: slot %s = %s, extra = %s' % (
                    k, VALUE_TYPE[v[0]], slot, _r(o.get(name, '<absent>')), _r(extra.get(k, '<absent>')))
            if name not in o:
                return 'attribute', 'routed attribute %r missing from its slot %s' % (k, slot)
            if not J.same(o[name], want):
                return 'attribute', 'routed attribute %r is %r in its slot, expected %r' % (k, o[name], want)
            if k in extra:
                return 'attribute', 'routed attribute %r appears twice (slot and extra)' % k
        else:
            if k not in extra:
                return 'attribute', 'custom attribute %r missing from extra' % k
            if not J.same(extra[k], J.value_py(v)):
                return 'attribute', 'custom attribute %r is %r under extra, expected %r' % (k, extra[k], J.value_py(v))
    return finding


VALUE_TYPE = {'a': 'list', 'o': 'map', 'n': 'null'}


def event_id_of(out_units):
    m = re.search(r'"event_id":"([^"\\]*)"', J.pystr(out_units))
    return m.group(1) if m else None


def run_cases(impl, model, cases, tz):
    lines = [line_of(c) for c in cases]
    rc, out_i, err = vlib.run_lines(impl, lines, env=env_of(tz))
    if rc != 0 or len(out_i) != len(lines):
        return None, 'implementation crashed or stopped: rc=%s stderr=%s' % (rc, err[-400:])
    mlines, res = [], []
    for l, o in zip(lines, out_i):
        t = o.split(' ')
        if len(t) != 4:
            return None, 'harness protocol error on %r -> %r' % (l, o)
        ou = J.unhx(t[3])
        eid = event_id_of(ou)
        res.append({'ms_read_back': int(t[0]), 'tid': int(t[1]), 'qtver': t[2], 'impl': t[3], 'event_id': eid})
        mlines.append(' '.join([l.split(' ', 1)[0], t[1], t[2], J.hx(J.units(eid)) if eid else '-', t[3], l.split(' ', 1)[1]]))
    rc, out_m, err = vlib.run_lines(model, mlines)
    if rc != 0 or len(out_m) != len(lines):
        return None, 'model driver failed: rc=%s stderr=%s' % (rc, err[-400:])
    for r, m in zip(res, out_m):
        mm = m.split(' ')
        r['model'] = mm[0]
        r['verdict'] = mm[1] if len(mm) > 1 else '?'
    return res, None


def judge(c, r, obs):
    if c['stream'] == 'malformed':
        return None
    if r['ms_read_back'] != c['ms']:
        return None  # virtual clock not effective: reported as broken correspondence by the caller
    po = python_oracle(c, J.unhx(r['impl']), obs)
    if po:
        if po[0] == 'routed_nonscalar_value' and r['verdict'] == '1':
            return 'oracle', 'the Python oracle reports a lost routed value but the extracted oracle prop_c18_b accepts the output'
        return po
    if r['verdict'] != '1':
        return 'oracle', 'extracted oracle prop_c18_b rejects the implementation output (the Python oracle accepted it)'
    return None


def shrink_case(c, still_fails):
    cur = dict(c)
    t = dict(cur); t['msg'] = [0x61] * len(cur['msg'])
    if still_fails(t):
        cur = t
    for field in ('attrs', 'msg'):
        def f(items, field=field):
            t = dict(cur); t[field] = list(items)
            return still_fails(t)
        cur[field] = vlib.shrink_list(cur[field], f, 150)
    for field, simple in (('file', J.units('f')), ('fn', J.units('g')), ('fmt', None), ('line', 1), ('ms', 0), ('type', 0), ('cat', J.units('c'))):
        t = dict(cur); t[field] = simple
        if still_fails(t):
            cur = t
        elif field in ('file', 'fn', 'cat') and cur[field]:
            def f(items, field=field):
                t = dict(cur); t[field] = list(items)
                return bool(items) and still_fails(t)
            cur[field] = vlib.shrink_list(cur[field], f, 80)
    # a numeric attribute value: the smallest magnitude of the same type that still fails (halving)
    for n, (k, v) in enumerate(cur['attrs']):
        if v[0] in J.NUM_TOKENS:
            z = v[1]
            for cand in (0, 1, -1, 2 ** 31 - 1, 2 ** 31, -(2 ** 31), 2 ** 32 - 1, 2 ** 32):
                if abs(cand) < abs(z) and J.NUM_TYPES[v[0]][1] <= cand <= J.NUM_TYPES[v[0]][2]:
                    t = dict(cur); t['attrs'] = cur['attrs'][:n] + [(k, (v[0], cand))] + cur['attrs'][n + 1:]
                    if still_fails(t):
                        cur = t
                        break
    return cur


def describe(c, r, tz):
    return {'time_ms': c['ms'], 'type': c['type'], 'message_length_units': len(c['msg']), 'message_units': c['msg'] if len(c['msg']) <= 300 else c['msg'][:100] + ['...'], 'message': _r(J.pystr(c['msg']), 300),
            'formatted': None if c['fmt'] is None else repr(J.pystr(c['fmt'])),
            'category': None if c['cat'] is None else J.pystr(c['cat']), 'file': None if c['file'] is None else J.pystr(c['file']),
            'function': None if c['fn'] is None else J.pystr(c['fn']), 'line': c['line'],
            'attributes': [[repr(J.pystr(k)), ' '.join(J.value_tokens(v))] for k, v in c['attrs']],
            'input_line': line_of(c), 'TZ': tz, 'environment': env_of(tz),
            'implementation_output': _r(J.pystr(J.unhx(r['impl'])), 3000) if r else None,
            'model_output': _r(J.pystr(J.unhx(r['model'])), 3000) if r else None, 'case': c}


def run():
    chk = vlib.Check('C18')
    chk.trusted = ['Coq 8.16.1 kernel; vm_compute on the closed terms sentry_cfg_goodb src_sentry_cfg and the 146097-day calendar sweep; no native_compute',
                   'axioms: none (every Print Assumptions: Closed under the global context)',
                   'tools/s2c/sentry.py translator (sentryformatter.cpp/.h -> SrcSentry.v)',
                   'extraction ExtrOcamlBasic only; ocaml/drv_sentry.ml; harness/h_sentry.cpp (virtual wall clock)',
                   'Python json / datetime as independent oracle on the implementation output',
                   'modelled, not verified: QJsonDocument/QJsonObject, QVariant::toString, QDateTime UTC rendering; QUuid::createUuid is outside (format + distinctness observed)']
    chk.assumptions = ['strings are sequences of 16-bit units (theorems) / well-formed UTF-16 (oracle streams); lone surrogates are only diffed',
                       'message times lie in years 0001..9999 (four-digit ISO years)', 'the harness runs under three (TZ, system locale) environments incl. ar_EG / fa_IR; the event must not depend on them',
                       'a list, map or null under a routed name is rendered "" by QVariant::toString and skipped in extra: reported as kind routed_nonscalar_value (open known finding F16; C18_routed_nonscalar_value_lost_refuted); C18_oracle_holds assumes routed_scalar',
                       'numeric attribute values are integers of magnitude <= 2^53 held by an int, uint, qlonglong, qulonglong, double or float (float: <= 2^24) inside the range of the type; the type is part of the model input (JsonDefs.num_value); long / short / char QVariants are not generated (QJsonValue::fromVariant of Qt 5.15 renders them as strings)',
                       'a double / float under a routed name is rendered in shortest-g form (number text): not generated beyond small values, observation only',
                       'a fingerprint cut through a surrogate pair is an observation, not a violation (the cut is in UTF-16 units)',
                       'thread id and Qt version string are read from the run and given to the model; the event id is taken from the output']
    chk.proof(vlib.proof_leg('Properties_C18', ['json', 'sentry']))
    model = vlib.build_model('sentry')
    impl = vlib.build_harness('sentry')
    thorough = chk.tier == 'thorough'
    n = 100000 if thorough else 10000
    hist, obs = {}, {}
    cases = []
    cdir = os.path.join(vlib.VERIF, 'corpus', 'C18')
    for p in sorted(os.listdir(cdir)) if os.path.isdir(cdir) else []:
        try:
            cases.append(json.load(open(os.path.join(cdir, p))))
        except Exception:
            pass
    ncorpus = len(cases)
    # very long messages (nothing may clip message.formatted): every length in thorough, all four once in quick
    for k in range(len(TZS) * len(LONG) if thorough else len(LONG)):
        cases.append(long_case(chk.rng, LONG[k % len(LONG)]))
    for i in range(n):
        r = chk.rng.random()
        cases.append(gen_case(chk.rng, hist, 'wf' if r < 0.85 else ('routed-any' if r < 0.92 else 'malformed')))
    # one harness process per time zone (the event must not depend on it)
    res = [None] * len(cases)
    tz_of = [TZS[i % len(TZS)] for i in range(len(cases))]
    import concurrent.futures
    idxs = {tz: [i for i in range(len(cases)) if tz_of[i] == tz] for tz in TZS}
    with concurrent.futures.ThreadPoolExecutor(len(TZS)) as ex:
        futs = {tz: ex.submit(run_cases, impl, model, [cases[i] for i in idxs[tz]], tz) for tz in TZS}
    for tz in TZS:
        idx = idxs[tz]
        rr, err = futs[tz].result()
        if rr is None:
            chk.broke('correspondence run failed: ' + err, {'kind': 'infrastructure', 'error': err})
            return chk.finish()
        for i, r in zip(idx, rr):
            res[i] = r
    clock_bad = [i for i in range(len(cases)) if res[i]['ms_read_back'] != cases[i]['ms']]
    if clock_bad:
        i = clock_bad[0]
        chk.broke('virtual clock ineffective: message time %d, requested %d' % (res[i]['ms_read_back'], cases[i]['ms']), {'kind': 'infrastructure', 'input_line': line_of(cases[i])})

    def kind_of(t, tz):
        rr, e = run_cases(impl, model, [t], tz)
        if rr is None:
            return None
        j = judge(t, rr[0], {})
        return j[0] if j else None

    def seq_kind(ts, tz):
        rr, e = run_cases(impl, model, ts, tz)
        if rr is None:
            return None
        j = judge(ts[-1], rr[-1], {})
        return j[0] if j else None

    diffs, bad, bad_fields = [], [], {}
    for i, (c, r) in enumerate(zip(cases, res)):
        if r['impl'] != r['model']:
            diffs.append(i)
        j = judge(c, r, obs)
        if j:
            bad.append((i, (j[0], j[1])))
            if len(j) > 2:
                bad_fields[i] = j[2]
    reported = set()
    for i, (kind, detail) in sorted(bad, key=lambda x: len(line_of(cases[x[0]]))):
        if kind in reported:
            continue
        reported.add(kind)
        tz = tz_of[i]
        before = None
        if kind == 'routed_nonscalar_value':
            # shrink to the one offending attribute on an otherwise trivial message
            c0 = cases[i]
            name = bad_fields[i]['attribute']
            keep = [(k, v) for k, v in c0['attrs'] if J.pystr(k) == name][-1:]
            t = dict(c0); t.update({'attrs': keep, 'msg': [], 'fmt': None, 'ms': 0, 'type': 0, 'line': 1,
                                    'cat': J.units('c'), 'file': J.units('f'), 'fn': J.units('g'), 'stream': 'routed-any'})
            small = t if kind_of(t, tz) == kind else shrink_case(c0, lambda t: kind_of(t, tz) == kind)
            rr, _ = run_cases(impl, model, [small], tz)
            j2 = judge(small, rr[0], {}) if rr else None
            d = describe(small, rr[0] if rr else None, tz)
            d.update({'kind': kind, 'detail': (j2 or (kind, detail))[1], 'falsified_cases': sum(1 for b in bad if b[1][0] == kind)})
            d.update(j2[2] if j2 and len(j2) > 2 else bad_fields[i])
            chk.fail('SentryFormatter output falsifies C18 (%s): %s' % (kind, d['detail']), d, kind=kind)
            continue
        if kind_of(cases[i], tz) != kind:
            # not reproducible on a fresh formatter: look for one earlier event of the same sub-run (same SentryFormatter object)
            prev = [j for j in idxs[tz] if j < i][-60:]
            for j in reversed(prev):
                if seq_kind([cases[j], cases[i]], tz) == kind:
                    before = cases[j]
                    break
        if before is not None:
            small = shrink_case(cases[i], lambda t: seq_kind([before, t], tz) == kind)
            before = shrink_case(before, lambda t: seq_kind([t, small], tz) == kind)
            rr, _ = run_cases(impl, model, [before, small], tz)
            rr = rr[1:] if rr else None
        else:
            small = shrink_case(cases[i], lambda t: kind_of(t, tz) == kind)
            rr, _ = run_cases(impl, model, [small], tz)
        k2 = judge(small, rr[0], {}) if rr else None
        d = describe(small, rr[0] if rr else None, tz)
        if before is not None:
            d['earlier_event_on_the_same_formatter'] = {'input_line': line_of(before), 'case': before,
                                                        'attributes': [[repr(J.pystr(k)), ' '.join(J.value_tokens(v))] for k, v in before['attrs']]}
        d.update({'kind': kind, 'detail': (k2 or (kind, detail))[1], 'falsified_cases': sum(1 for b in bad if b[1][0] == kind)})
        chk.fail('SentryFormatter output falsifies C18 (%s): %s' % (kind, d['detail']), d, kind=kind)
    # event ids: pairwise distinct over the whole run
    ids = [r['event_id'] for r in res if r['event_id']]
    if len(set(ids)) != len(ids):
        seen, dup = set(), None
        for x in ids:
            if x in seen:
                dup = x; break
            seen.add(x)
        chk.fail('event ids are not pairwise distinct: %s handed out twice within %d events' % (dup, len(ids)),
                 {'kind': 'event-id-repeat', 'event_id': dup, 'events': len(ids)}, kind='event-id-repeat')
    if diffs:
        i = min(diffs, key=lambda k: len(line_of(cases[k])))
        d = describe(cases[i], res[i], tz_of[i])
        d['kind'] = 'correspondence'
        chk.broke('correspondence: extracted event model and SentryFormatter differ on %d of %d events' % (len(diffs), len(cases)), d)
    wf_cases = [c for c in cases if c['stream'] != 'malformed']

    def nontrivial(c):
        return bool(c['attrs']) or len(c['msg']) > 100 or any(u < 32 or u in (34, 92) or u > 126 for u in c['msg'])
    chk.cov.update({
        'evaluations': len(cases), 'corpus_cases': ncorpus,
        'distinct_nontrivial': len({line_of(c) for c in cases if nontrivial(c)}),
        'rule': 'generated events (all five types, categories around "default" incl. path-like ones, path-like file/function strings, all six numeric QVariant types at their boundaries, messages around the 100-unit cut, routed and arbitrary attribute '
                'names with repeats, calendar boundary times 0001..9999 under three TZ settings); non-trivial = has attributes, a message '
                'longer than the cut or a character that is escaped / non-ASCII',
        'streams': {s: sum(1 for c in cases if c['stream'] == s) for s in ('wf', 'routed-any', 'malformed')},
        'byte_exact_disagreements_model_vs_impl': len(diffs),
        'oracle_evaluated_on_impl_outputs': len(wf_cases), 'oracle_falsified': len(bad),
        'oracle_falsified_by_kind': {k: sum(1 for b in bad if b[1][0] == k) for k in sorted({b[1][0] for b in bad})},
        'event_ids_seen': len(ids), 'event_ids_distinct': len(set(ids)),
        'types': {LEVEL[t]: sum(1 for c in cases if c['type'] == t) for t in range(5)},
        'category_default_or_empty': sum(1 for c in cases if J.pystr(c['cat'] or []) in ('', 'default')),
        'messages_longer_than_cut': sum(1 for c in cases if len(c['msg']) > 100),
        'messages_exactly_at_cut': sum(1 for c in cases if len(c['msg']) == 100),
        'routed_attributes': sum(1 for c in cases for k, _ in c['attrs'] if J.pystr(k) in ROUTES),
        'other_attributes': sum(1 for c in cases for k, _ in c['attrs'] if J.pystr(k) not in ROUTES),
        'duplicate_attribute_names': sum(1 for c in cases if len({tuple(k) for k, _ in c['attrs']}) < len(c['attrs'])),
        'boundary_times': sum(1 for c in cases if c['ms'] in TIMES), 'time_zone|system_locale_of_sub_runs': TZS,
        'messages_of_8191_or_more_units': sum(1 for c in cases if len(c['msg']) >= 8191),
        'path_like_strings': {f: sum(1 for c in cases if c[f] and J.path_shapes(J.pystr(c[f]))) for f in ('cat', 'file', 'fn')},
        'numeric_type_histogram': {J.NUM_TYPES[t][0]: hist.get('num_' + J.NUM_TYPES[t][0], 0) for t in J.NUM_TOKENS},
        'numeric_values_under_routed_names': sum(1 for c in cases for k, v in c['attrs'] if J.pystr(k) in ROUTES and v[0] in J.NUM_TOKENS),
        'observations': obs, 'generator_histogram': dict(sorted(hist.items())),
    })
    for i in (0, len(cases) // 3, len(cases) - 1):
        chk.samples.append({'input': line_of(cases[i])[:300], 'impl': J.pystr(J.unhx(res[i]['impl']))[:400], 'equal_to_model': res[i]['impl'] == res[i]['model']})
    return chk.finish()


def replay(path):
    r = json.load(open(path))['replay']
    if isinstance(r, list):
        r = r[0]
    c = r.get('case')
    if not c:
        print(json.dumps(r, indent=1)); return 0
    vlib.gen_src(['json', 'sentry'])
    model = vlib.build_model('sentry'); impl = vlib.build_harness('sentry')
    tz = r.get('TZ', 'UTC0|C')
    seq = ([r['earlier_event_on_the_same_formatter']['case']] if r.get('earlier_event_on_the_same_formatter') else []) + [c]
    res, err = run_cases(impl, model, seq, tz)
    if res is None:
        print(err); return 1
    print('environment    ', env_of(tz))
    for t, x in zip(seq, res):
        print('input          ', line_of(t)[:400])
        print('implementation ', _r(J.pystr(J.unhx(x['impl'])), 3000))
        print('model          ', _r(J.pystr(J.unhx(x['model'])), 3000))
        print('oracle verdict on the implementation output (1 = holds):', x['verdict'])
    print('judgement of the last event:', judge(seq[-1], res[-1], {}))
    return 0
