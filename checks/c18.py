"""C18 \u2014 Sentry events are valid Store-API payloads that carry the message faithfully."""
import datetime, json, os, random, re
import vlib
from checks import json_util as J

META = {
    'id': 'C18',
    'level': 'proof',
    'technique': 'Coq proof (event model on top of the C13 JSON writer/parser model: round trip, level map, fingerprint, logger rule, '
                 'attribute conservation through the key sort, ISO-8601 UTC rendering read back to the second, 128-bit id rendering '
                 'injective) + source-to-Coq translation of SentryFormatter::format + byte-exact differential run against the real '
                 'SentryFormatter under a virtual clock + extracted boolean oracle and Python json on the implementation output',
    'text': 'Theorems (Properties_C18.v) show for EVERY message, attribute list and time in years 0000-9999 that the event text parses back '
            'to the written object, carries level / message.formatted / logger / fingerprint / timestamp as specified, and holds every '
            'custom attribute exactly once (dedicated slot or extra); a number held by any numeric QVariant type inside its range is intact (the number under '
            'extra, its decimal digits - which identify it - in a routed slot, integer types).  The constants and the shape of format() are re-read from '
            'sentryformatter.cpp on every run; the extracted model is compared byte for byte with the real formatter (event id taken '
            'from the output; its format and pairwise distinctness over ALL events of the run - several SentryFormatter objects side by side, '
            'instance(), an object re-created mid-run - are checked, freshness itself is QUuid\'s).  Attributes also reach the message through '
            'the handlers of a real Pipeline (FunctionAttrHandler -> updateAttributes with overrides, setAttribute(s), removeAttribute, nested / scoped pipelines): '
            'the model applies the same steps (apply_ops) and theorems show that the event carries the CURRENT value of every name.  The harness also runs '
            'with non-UTF-8 locale codecs (ISO-8859-1, windows-1252, Shift_JIS): the event text must not depend on them.  The fluent front end '
            'SimplePipeline::formatToSentry(sdkName, sdkVersion) is translated too (which parameters it hands to the constructor, its default arguments) and proved to yield '
            'exactly the directly constructed object; in the run the own formatter objects of a share of the cases are obtained through it.',
    'note': 'Trusted: Coq 8.16.1 kernel (vm_compute for the closed configuration check and the 146097-day civil-calendar sweep), no axioms; '
            'tools/s2c/sentry.py, extraction (ExtrOcamlBasic only), ocaml/drv_sentry.ml, harness/h_sentry.cpp (virtual clock by defining '
            'gettimeofday/clock_gettime), Python json/datetime (independent oracle).  Modelled, not verified: QJsonDocument/QJsonObject, '
            'QVariant::toString, QDateTime::toUTC().toString(Qt::ISODate), QUuid::createUuid (outside: only format and distinctness observed).',
    'design_ref': 'DESIGN.md section 4, C18',
    'engine': 'coq+extraction+harness',
}

LEVEL = {0: 'debug', 1: 'warning', 2: 'error', 3: 'fatal', 4: 'info'}
ROUTES = {'appname': ('tags', None, 'app_name'), 'appversion': ('tags', None, 'app_version'),
          'os_name': ('contexts', 'os', 'name'), 'os_version': ('contexts', 'os', 'version'),
          'kernel_version': ('contexts', 'os', 'kernel_version'), 'build_abi': ('contexts', 'os', 'build'),
          'cpu_arch': ('contexts', 'device', 'arch'), 'host_name': ('contexts', 'device', 'name')}
NAMES = list(ROUTES) + ['seq_number', 'user', 'line', 'file', 'thread_id', 'Z', '\u00e9', 'x y', 'app_name', 'qt_version', 'name',
                        'appnam', 'appnamee', 'os_nam', 'host_name2', 'Appname', '', 'k\n', '\uffff', '\U0001F600k', 'extra', 'tags']
CATS = ['default', 'net', 'app.ui', '', 'qt.core', 'Default', 'default ', 'defaul', './default', 'default/', 'x/../default', ' default', 'default//']
FILES = ['/a/b.cpp', 'main.cpp', '', '../x y/z.h']
FUNCS = ['void f(int)', 'int main(int, char**)', '', 'f']
LINES = [0, 1, 42, 99999, 2147483647]
DAY = 86400000
Y9999 = 253402300799999
TIMES = [0, 999, 1000, 1001, DAY - 1, DAY, 951782400000, 951782400000 + DAY - 1, 951868800000,  # 2000-02-29, 2000-03-01
         4107542400000 - 1, 4107542400000, 4107542400000 + DAY,  # 2100-02-28 / 03-01 (no leap day)
         1709164800000, 1709251199999, 1735689599999, 1735689600000,  # 2024-02-29, 2024-12-31 / 2025-01-01
         978307199999, 978307200000, 1700000000000, 1700000000999, Y9999, Y9999 - 999, Y9999 - 1000,
         -62167219200000 + 366 * DAY]  # 0001-01-01
# process environments of the harness sub-runs: the event must depend neither on the time zone nor on the
# system locale (ar_EG / fa_IR have non-ASCII native digits; Qt uses its own CLDR data, no installed locale needed)
# third component: locale codec installed with QTextCodec::setCodecForLocale before anything else ('' = the default, UTF-8):
# the event text is produced from UTF-8 bytes and must not depend on the local 8-bit codec either
TZS = ['XYZ-05:30|ar_EG.UTF-8|ISO-8859-1', 'PQR8|fa_IR.UTF-8|Shift_JIS', 'UTC0|C|', 'ABC-03|C|windows-1252']
SELS = {0: 'own object A', 1: 'own object B', 2: 'SentryFormatter::instance()', 3: 'object A destroyed and re-created, then A'}
# how the own objects of a case were obtained (round 8): 0 = SentryFormatterPtr::create(args), 1 = through the fluent front end
# SimplePipeline().formatToSentry(args) (the front end must be transparent: same expected events)
VIAS = [0, 0, 0, 1, 0, 1, 0]
VIA_TEXT = {0: 'constructed directly: SentryFormatterPtr::create(<sdk arguments>)',
            1: 'obtained through the fluent front end: SimplePipeline().formatToSentry(<the same sdk arguments>).handler(<capture>) - '
               'as a pipeline step that SimplePipeline is the handler; without steps a copy of the message is processed by it'}


def obj_text(rec):
    return SELS[rec['sel']] + (' [the own objects of this case are obtained through SimplePipeline().formatToSentry(...)]' if rec.get('via') and rec['sel'] != 2 else '')
LONG = [8191, 8192, 8193, 20000]


def env_of(tz):
    z, loc = tz.split('|')[:2]
    return {'TZ': z, 'LC_ALL': loc, 'LANG': loc, 'LC_NUMERIC': loc, 'LC_TIME': loc}


def codec_of(tz):
    t = tz.split('|')
    return t[2] if len(t) > 2 and t[2] else '-'


def long_case(rng, n):
    c = gen_case(rng, {}, 'wf')
    c['msg'] = [rng.choice([0x61, 0x62, 0x20, 0xE9, 0x4E2D, 0x22]) for _ in range(n)]
    c['attrs'] = c['attrs'][:2]
    c['steps'] = [] if rng.random() < 0.5 else [['F', rng.randrange(4)]]
    return c


def gen_attr_value(rng, hist, k, stream, mal, depth=0):
    if k in ROUTES and stream != 'routed-any':
        r = rng.random()
        if r < 0.75:
            v = ('s', J.gen_units(rng, None, 10, mal and rng.random() < 0.3))
        elif r < 0.83:
            v = (rng.choice('iId'), rng.choice(J.SMALL_INTS))
        elif r < 0.9:
            v = J.gen_number(rng, hist, J.INT_TYPED)   # int / uint / qlonglong / qulonglong at their boundaries: toString() = the digits
        else:
            v = ('b', rng.random() < 0.5)
    else:
        v = J.gen_value(rng, hist, depth, mal)
    if k in ROUTES and v[0] in 'dF':
        v = ('i', v[1])  # QVariant(double / float).toString() is outside the model (shortest 'g' form, e.g. 1e+06)
    return v


def gen_steps(rng, hist, keys, stream, mal, depth=0):
    """handlers of the pipeline that processes the message: attribute handlers (U) that override names which are already on the
    message (routed names and names that go to extra alike), setAttribute(s) / removeAttribute handlers, nested (scoped) pipelines,
    and SentryFormatter objects (F) - `keys` (names set so far) grows along the way"""
    steps = []
    for _ in range(rng.choice([1, 2, 2, 3, 5]) if depth == 0 else rng.choice([1, 2, 3])):
        op = rng.choice('UUUUASRFP' if depth < 2 else 'UUUASRF')
        if op in 'US':
            ks = [rng.choice(NAMES) if rng.random() < 0.7 else rng.choice(list(ROUTES)) for _ in range(rng.choice([0, 1, 1, 2, 3]))]
            if keys and rng.random() < 0.7:
                ks.append(rng.choice(keys))  # override a name that is already on the message with another value
                hist['step_overrides_existing_name'] = hist.get('step_overrides_existing_name', 0) + 1
            steps.append([op, [[J.units(k), gen_attr_value(rng, hist, k, stream, mal, 1)] for k in ks]])
            keys += ks
        elif op == 'A':
            k = rng.choice(keys) if keys and rng.random() < 0.5 else rng.choice(NAMES)
            steps.append(['A', J.units(k), gen_attr_value(rng, hist, k, stream, mal, 1)])
            keys.append(k)
        elif op == 'R':
            steps.append(['R', J.units(rng.choice(keys) if keys and rng.random() < 0.7 else rng.choice(NAMES))])
        elif op == 'F':
            steps.append(['F', rng.randrange(4)])
        else:
            steps.append(['P', rng.random() < 0.5, gen_steps(rng, hist, keys, stream, mal, depth + 1) + [['F', rng.randrange(4)]]])
        hist['step_' + op] = hist.get('step_' + op, 0) + 1
    return steps


def gen_case(rng, hist, stream):
    mal = stream == 'malformed'
    na = rng.choice([0, 1, 2, 3, 4, 6, 9])
    keys = [rng.choice(NAMES) if rng.random() < 0.8 else rng.choice(list(ROUTES)) for _ in range(na)]
    attrs = [(J.units(k), gen_attr_value(rng, hist, k, stream, mal)) for k in keys]
    r = rng.random()
    if r < 0.25:
        # around the fingerprint cut: 97..103 units, astral pair straddling unit 100
        n = rng.choice([97, 98, 99, 100, 101, 102, 103, 200])
        msg = [rng.choice([0x61, 0x62, 0x22, 0x5C, 0x0A, 0xE9, 0x4E2D]) for _ in range(n)]
        if rng.random() < 0.5 and n >= 101:
            p = rng.choice([98, 99, 100])
            msg[p:p + 2] = [0xD83D, 0xDE00]
        hist['msg_near_cut'] = hist.get('msg_near_cut', 0) + 1
    else:
        msg = J.gen_units(rng, hist, 40, mal)
    r = rng.random()
    ms = rng.choice(TIMES) if r < 0.3 else (rng.randrange(0, Y9999 + 1) if r < 0.6 else 1700000000000 + rng.randrange(0, 10 ** 11))
    nul = rng.random() < 0.15
    case = {'ms': ms, 'type': rng.randrange(5), 'msg': msg, 'fmt': None if rng.random() < 0.5 else J.gen_units(rng, None, 10),
            'cat': None if rng.random() < 0.03 else J.units(J.gen_ascii(rng, hist, CATS, 'category')),
            'file': None if nul or rng.random() < 0.05 else J.units(J.gen_ascii(rng, hist, FILES, 'file')),
            'fn': None if nul or rng.random() < 0.05 else J.units(J.gen_ascii(rng, hist, FUNCS, 'function')),
            'line': rng.choice(LINES), 'attrs': attrs, 'stream': stream}
    # the handlers of a real pipeline: 35 % of the messages get attribute handlers / nested pipelines / several formatters,
    # half of the rest is formatted by one pipeline-installed formatter object (A, B, instance(), re-created A), the others by A.format()
    r = rng.random()
    if r < 0.35:
        steps = gen_steps(rng, hist, list(keys), stream, mal)
        if rng.random() < 0.8 or not any(st[0] == 'F' for st in flat_steps(steps)):
            steps.append(['F', rng.randrange(4)])
    elif r < 0.7:
        steps = [['F', rng.randrange(4)]]
    else:
        steps = []
    case['steps'] = steps
    case['via'] = rng.choice(VIAS)
    if mal and J.well_formed(case['msg']) and all(J.value_wf(v) for _, v in attrs):
        case['msg'] = case['msg'] + [0xDC00]
    return case


def flat_steps(steps):
    for st in steps:
        if st[0] == 'P':
            yield st
            for x in flat_steps(st[2]):
                yield x
        else:
            yield st


def step_tokens(steps):
    toks = []
    for st in steps:
        if st[0] in 'US':
            toks += [st[0], str(len(st[1]))]
            for k, v in st[1]:
                toks += [J.hx(k)] + J.value_tokens(v)
        elif st[0] == 'A':
            toks += ['A', J.hx(st[1])] + J.value_tokens(st[2])
        elif st[0] == 'R':
            toks += ['R', J.hx(st[1])]
        elif st[0] == 'F':
            toks += ['F', str(st[1])]
        elif st[0] == 'P':
            toks += ['(', '1' if st[1] else '0'] + step_tokens(st[2]) + [')']
    return toks


def records(c):
    """Python's own account of the message at each format() call of the pipeline: formatter object, attribute settings in order
    (a later one overrides), the formatted-message field, and the flat attribute steps handed to the model (apply_ops)"""
    if not c.get('steps'):
        return [{'sel': 0, 'attrs': [(k, v) for k, v in c['attrs']], 'fmt': c['fmt'], 'ops': [], 'direct': True, 'via': c.get('via', 0)}]
    recs, flat = [], []
    st = {'attrs': [(k, v) for k, v in c['attrs']], 'fmt': c['fmt']}

    def go(steps):
        for s in steps:
            t = s[0]
            if t == 'U':
                st['attrs'] = st['attrs'] + [(k, v) for k, v in s[1]]
                flat.append(['U', s[1]])
            elif t == 'S':
                st['attrs'] = [(k, v) for k, v in s[1]]
                flat.append(['S', s[1]])
            elif t == 'A':
                st['attrs'] = st['attrs'] + [(s[1], s[2])]
                flat.append(s)
            elif t == 'R':
                st['attrs'] = [(k, v) for k, v in st['attrs'] if list(k) != list(s[1])]
                flat.append(s)
            elif t == 'F':
                recs.append({'sel': s[1], 'attrs': list(st['attrs']), 'fmt': st['fmt'], 'ops': list(flat), 'direct': False, 'via': c.get('via', 0)})
                st['fmt'] = ('rec', len(recs) - 1)   # Formatter::process stores the event as the formatted message
            elif t == 'P':
                saved = (list(st['attrs']), st['fmt'])
                go(s[2])
                if s[1]:   # a scoped pipeline restores the attributes and the formatted message
                    st['attrs'], st['fmt'] = list(saved[0]), saved[1]
                    flat.append(['S', [[k, v] for k, v in saved[0]]])
    go(c['steps'])
    return recs


def opt(us):
    return '0' if us is None else J.hx(us)


def line_of(c):
    toks = (['v1'] if c.get('via') else []) + [str(c['ms']), str(c['type']), J.hx(c['msg']), opt(c['fmt']), opt(c['cat']), opt(c['file']), opt(c['fn']),
            str(c['line']), str(len(c['attrs']))]
    for k, v in c['attrs']:
        toks += [J.hx(k)] + J.value_tokens(v)
    if c.get('steps'):
        toks += ['|'] + step_tokens(c['steps'])
    return ' '.join(toks)


def to_qstring(v):
    t = v[0]
    if t == 's':
        return J.pystr(v[1]), False
    if t in J.NUM_TOKENS:
        return str(v[1]), False
    if t == 'b':
        return ('true' if v[1] else 'false'), False
    return '', True  # list / map / null: QVariant::toString() gives "", the value is not carried


def iso_of(ms):
    secs = ms // 1000
    d = datetime.datetime(1970, 1, 1) + datetime.timedelta(seconds=secs)
    return '%04d-%02d-%02dT%02d:%02d:%02dZ' % (d.year, d.month, d.day, d.hour, d.minute, d.second)


def _r(x, n=160):
    t = repr(x)
    return t if len(t) <= n else t[:n] + '...(%d chars)' % len(t)


def python_oracle(c, out_units, obs):
    text = J.pystr(out_units)
    try:
        ev = J.loads_strict(text)
    except J.DuplicateKey as e:
        return 'invalid-json', 'duplicate key %r' % (e.args[0],)
    except ValueError as e:
        return 'invalid-json', 'python json rejects the output: %s' % e
    if not isinstance(ev, dict):
        return 'invalid-json', 'not an object'
    eid = ev.get('event_id')
    if not (isinstance(eid, str) and re.fullmatch(r'[0-9a-f]{32}', eid)):
        return 'event-id', 'event_id %r is not 32 lowercase hex digits' % (eid,)
    if ev.get('timestamp') != iso_of(c['ms']):
        return 'timestamp', 'timestamp %r, expected %r (message time %d ms)' % (ev.get('timestamp'), iso_of(c['ms']), c['ms'])
    lvl = LEVEL[c['type']]
    if ev.get('level') != lvl:
        return 'level', 'level %r, expected %r for QtMsgType %d' % (ev.get('level'), lvl, c['type'])
    text_u = c['msg']
    if not (isinstance(ev.get('message'), dict) and J.same(ev['message'].get('formatted'), J.pystr(text_u))):
        return 'message', 'message.formatted is %s (%s UTF-16 units), expected the message text %s (%d units)' % (
            _r(ev.get('message')), len(J.units(ev['message'].get('formatted'))) if isinstance(ev.get('message'), dict) and isinstance(ev['message'].get('formatted'), str) else '?', _r(J.pystr(text_u)), len(text_u))
    cat = J.pystr(c['cat'] or [])
    if cat in ('', 'default'):
        if 'logger' in ev:
            return 'logger', 'logger %r present for category %r' % (ev['logger'], cat)
    elif ev.get('logger') != cat:
        return 'logger', 'logger %r, expected %r' % (ev.get('logger'), cat)
    fp = [lvl, cat or 'default', J.pystr(text_u[:100])]
    if not J.same(ev.get('fingerprint'), fp):
        return 'fingerprint', 'fingerprint %s, expected %s' % (_r(ev.get('fingerprint'), 400), _r(fp, 400))
    if len(text_u) > 100 and 0xD800 <= text_u[99] <= 0xDBFF and J.well_formed(text_u):
        obs['fingerprint_cut_splits_surrogate_pair'] = obs.get('fingerprint_cut_splits_surrogate_pair', 0) + 1
    custom = {}
    for k, v in c['attrs']:
        custom[J.pystr(k)] = v
    extra = ev.get('extra')
    if not isinstance(extra, dict):
        return 'attribute', 'extra is not an object'
    finding = None   # the open known finding (F16) never hides another violation of the same event
    for k, v in custom.items():
        if k in ROUTES:
            a, b, name = ROUTES[k]
            slot = '.'.join(x for x in (a, b, name) if x)
            o = ev.get(a, {})
            if b is not None:
                o = o.get(b, {}) if isinstance(o, dict) else {}
            o = o if isinstance(o, dict) else {}
            want, nonscalar = to_qstring(v)
            if nonscalar:
                # a list / map / null under a routed name: "value intact" = the value itself, once, in the slot or under extra
                intact = J.value_py(v)
                in_slot = name in o and J.same(o[name], intact)
                in_extra = k in extra and J.same(extra[k], intact)
                if (in_slot and k not in extra) or (in_extra and name not in o):
                    continue
                if name in o and o[name] == '' and k not in extra:
                    if finding is None:
                        finding = ('routed_nonscalar_value',
                                   'routed attribute %r holds a %s; its slot %s holds "" (QVariant::toString) and it is absent from extra: the value is lost'
                                   % (k, VALUE_TYPE[v[0]], slot),
                                   {'attribute': k, 'value_type': VALUE_TYPE[v[0]], 'slot': slot, 'rendered': ''})
                    continue
                return 'attribute', 'routed attribute %r (a %s) is neither intact nor rendered as today: slot %s = %s, extra = %s' % (
                    k, VALUE_TYPE[v[0]], slot, _r(o.get(name, '<absent>')), _r(extra.get(k, '<absent>')))
            if name not in o:
                return 'attribute', 'routed attribute %r missing from its slot %s' % (k, slot)
            if not J.same(o[name], want):
                return 'attribute', 'routed attribute %r is %r in its slot, expected %r' % (k, o[name], want)
            if k in extra:
                return 'attribute', 'routed attribute %r appears twice (slot and extra)' % k
        else:
            if k not in extra:
                return 'attribute', 'custom attribute %r missing from extra' % k
            if not J.same(extra[k], J.value_py(v)):
                return 'attribute', 'custom attribute %r is %r under extra, expected %r' % (k, extra[k], J.value_py(v))
    for k in extra:
        # C18_absent_name_not_in_extra: a name that is not (or no longer) on the message does not show up
        if k not in custom and k not in ('line', 'file', 'thread_id'):
            return 'attribute', 'extra holds %r = %s, which is not an attribute of the message at this point' % (k, _r(extra[k]))
    return finding


VALUE_TYPE = {'a': 'list', 'o': 'map', 'n': 'null'}


def event_id_of(out_units):
    m = re.search(r'"event_id":"([^"\\]*)"', J.pystr(out_units))
    return m.group(1) if m else None


def run_impl(impl, cases, tz, sdk=None):
    """one harness process for the whole list (same SentryFormatter objects throughout); per case the records it printed;
    sdk = (name units, version units): the constructor arguments of the own objects A and B (None = default arguments)"""
    lines = [line_of(c) for c in cases]
    rc, out_i, err = vlib.run_lines(impl, lines, [codec_of(tz)] + ([J.hx(sdk[0]), '~' if sdk[1] is None else J.hx(sdk[1])] if sdk else []), env=env_of(tz))
    if rc != 0 or len(out_i) != len(lines):
        return None, 'implementation crashed or stopped: rc=%s stderr=%s' % (rc, err[-400:])
    res = []
    for c, l, o in zip(cases, lines, out_i):
        t = o.split(' ')
        recs = records(c)
        if len(t) != 3 + len(recs):
            return None, 'harness protocol error (%d records expected) on %r -> %r' % (len(recs), l[:300], o[:300])
        for rec, h in zip(recs, t[3:]):
            rec['impl'] = h
            rec['event_id'] = event_id_of(J.unhx(h))
        res.append({'ms_read_back': int(t[0]), 'tid': int(t[1]), 'qtver': t[2], 'recs': recs,
                    'impl': recs[-1]['impl'] if recs else '-', 'event_id': recs[-1]['event_id'] if recs else None})
    return res, None


def model_line(c, r, rec):
    fmt = rec['fmt']
    if isinstance(fmt, tuple) and fmt[0] == 'rec':
        fmt = J.unhx(r['recs'][fmt[1]]['impl'])   # the formatted message is the event an earlier formatter of the pipeline stored
    eid = rec['event_id']
    toks = [str(c['ms']), str(r['tid']), r['qtver'], J.hx(J.units(eid)) if eid else '-', rec['impl'],
            str(c['type']), J.hx(c['msg']), opt(fmt), opt(c['cat']), opt(c['file']), opt(c['fn']), str(c['line']), str(len(c['attrs']))]
    for k, v in c['attrs']:
        toks += [J.hx(k)] + J.value_tokens(v)
    if rec['ops']:
        toks += ['|'] + step_tokens(rec['ops'])
    return ' '.join(toks)


def run_cases(impl, model, cases, tz, sdk=None):
    res, err = run_impl(impl, cases, tz, sdk)
    if res is None:
        return None, err
    mlines = [model_line(c, r, rec) for c, r in zip(cases, res) for rec in r['recs']]
    rc, out_m, err = vlib.run_lines(model, mlines)
    if rc != 0 or len(out_m) != len(mlines):
        return None, 'model driver failed: rc=%s stderr=%s' % (rc, err[-400:])
    k = 0
    for r in res:
        for rec in r['recs']:
            mm = out_m[k].split(' '); k += 1
            rec['model'] = mm[0]
            rec['verdict'] = mm[1] if len(mm) > 1 else '?'
        r['model'] = r['recs'][-1]['model'] if r['recs'] else '-'; r['verdict'] = r['recs'][-1]['verdict'] if r['recs'] else '-'
    return res, None


def differs(r):
    return any(rec['impl'] != rec['model'] for rec in r['recs'])


def judge(c, r, obs):
    """(kind, detail[, fields]) if some record of the implementation falsifies the property on this case, else None"""
    if c['stream'] == 'malformed':
        return None
    if r['ms_read_back'] != c['ms']:
        return None  # virtual clock not effective: reported as broken correspondence by the caller
    finding = None   # the open known finding (F16) never hides another violation of the same case
    for n, rec in enumerate(r['recs']):
        where = ((' [formatted by passing a copy of the message through SimplePipeline().formatToSentry().handler(<capture>)]' if rec.get('via') else '')
                 if rec.get('direct') else ' [record %d of %d of the pipeline, formatted by %s, %d attribute settings before it]' % (
            n + 1, len(r['recs']), obj_text(rec), len(rec['attrs'])))
        po = python_oracle(dict(c, attrs=rec['attrs']), J.unhx(rec['impl']), obs)
        if not po and rec.get('via') and rec['sel'] != 2 and rec['impl'] != rec.get('model', rec['impl']):
            # the front end must be transparent: formatToSentry() is SentryFormatter(), whose sdk object is the model's
            try:
                ev, mev = J.loads_strict(J.pystr(J.unhx(rec['impl']))), J.loads_strict(J.pystr(J.unhx(rec['model'])))
                if not J.same(ev.get('sdk'), mev.get('sdk')):
                    po = ('sdk', 'sdk is %s, expected %s: the object obtained through formatToSentry() with the default arguments is not SentryFormatter()'
                          % (_r(ev.get('sdk'), 300), _r(mev.get('sdk'), 300)))
            except ValueError:
                pass
        if po:
            if po[0] == 'routed_nonscalar_value':
                if rec['verdict'] == '1':
                    return 'oracle', 'the Python oracle reports a lost routed value but the extracted oracle prop_c18_b accepts the output' + where
                if finding is None:
                    finding = (po[0], po[1] + where, dict(po[2], lost_value=[k_v for k_v in rec['attrs'] if J.pystr(k_v[0]) == po[2]['attribute']][-1]))
                continue
            return po[0], po[1] + where
        if rec['verdict'] != '1':
            return 'oracle', 'extracted oracle prop_c18_b rejects the implementation output (the Python oracle accepted it)' + where
    return finding


# constructor arguments (sdkName, sdkVersion) of the own formatter objects: legal strings that need JSON escaping or are not ASCII
# (round 8) blanks at the edges and a long name (a front end that trims or clips an argument), a name without a version (one-argument
# call: version None = omitted)
SDKS = [('qtlogger', '2.1 "nightly"'), ('C:\\tools\\logger', '3'), ('my\tsdk \u00e9\u65e5', '1.0\n'), ('', ''), ('100%1 %2 %L1', '%1'),
        ('\U0001F600/\u2028', '\x01\x7f</script>'), ('sentry.native.qt', '10.4.0-beta+build.7'),
        ('  org.example.product.logging.sentry-bridge-for-qt.nightly  ', ' 2.0 '), ('only.the.name', None)]


def judge_sdk(c, r, sdk):
    """the sdk-argument leg: every record is a valid event by the Python oracle, its sdk object holds exactly the constructor
    arguments of the object that formatted it (instance(): the defaults = what the model says), and - the sdk object aside - the
    parsed event is the parsed model event.  ('correspondence', ...) = model and implementation differ, anything else falsifies C18"""
    for n, rec in enumerate(r['recs']):
        where = ' [record %d of %d, formatted by %s %s sdkName=%r sdkVersion=%r]' % (
            n + 1, len(r['recs']), SELS[rec['sel']], 'obtained through SimplePipeline().formatToSentry with' if rec.get('via') and rec['sel'] != 2 else 'constructed with',
            *(('<default>', '<default>') if rec['sel'] == 2 else (J.pystr(sdk[0]), '<omitted: default>' if sdk[1] is None else J.pystr(sdk[1]))))
        po = python_oracle(dict(c, attrs=rec['attrs']), J.unhx(rec['impl']), {})
        if po and po[0] != 'routed_nonscalar_value':
            return po[0], po[1] + where
        ev = J.loads_strict(J.pystr(J.unhx(rec['impl'])))
        try:
            mev = J.loads_strict(J.pystr(J.unhx(rec['model'])))
        except ValueError:
            return 'correspondence', 'the model event does not parse' + where
        want = mev.get('sdk') if rec['sel'] == 2 else {'name': J.pystr(sdk[0]), 'version': (mev.get('sdk') or {}).get('version') if sdk[1] is None else J.pystr(sdk[1])}
        if not J.same(ev.get('sdk'), want):
            return 'sdk', 'sdk is %s, expected %s' % (_r(ev.get('sdk'), 300), _r(want, 300)) + where
        ev2 = dict(ev); ev2['sdk'] = mev.get('sdk')
        if not J.same(ev2, mev):
            return 'correspondence', 'apart from the sdk object the event differs from the model event' + where
    return None


def shrink_steps(steps, ok):
    """smaller pipeline that still fails: drop steps, inline nested pipelines, shrink the hashes of the handlers, prefer object A"""
    steps = vlib.shrink_list(steps, ok, 60)
    i = 0
    while i < len(steps):
        st = steps[i]
        if st[0] == 'P':
            inl = steps[:i] + list(st[2]) + steps[i + 1:]
            if ok(inl):
                steps = inl
                continue
            sub = shrink_steps(list(st[2]), lambda x, i=i, st=st: ok(steps[:i] + [['P', st[1], list(x)]] + steps[i + 1:]))
            steps = steps[:i] + [['P', st[1], sub]] + steps[i + 1:]
        elif st[0] in 'US':
            l = vlib.shrink_list(list(st[1]), lambda x, i=i, st=st: ok(steps[:i] + [[st[0], list(x)]] + steps[i + 1:]), 30)
            steps = steps[:i] + [[st[0], l]] + steps[i + 1:]
        elif st[0] == 'F' and st[1] != 0:
            t = steps[:i] + [['F', 0]] + steps[i + 1:]
            if ok(t):
                steps = t
        i += 1
    return steps


def shrink_case(c, still_fails):
    cur = dict(c)
    cur.setdefault('steps', [])
    if cur.get('via'):
        t = dict(cur); t['via'] = 0   # the front end is part of the trigger only if the directly constructed objects pass
        if still_fails(t):
            cur = t
    t = dict(cur); t['msg'] = [0x61] * len(cur['msg'])
    if still_fails(t):
        cur = t
    if cur['steps']:
        def fs(items):
            t = dict(cur); t['steps'] = list(items)
            return still_fails(t)
        cur['steps'] = shrink_steps(list(cur['steps']), fs)
    for field in ('attrs', 'msg'):
        def f(items, field=field):
            t = dict(cur); t[field] = list(items)
            return still_fails(t)
        cur[field] = vlib.shrink_list(cur[field], f, 150)
    for field, simple in (('file', J.units('f')), ('fn', J.units('g')), ('fmt', None), ('line', 1), ('ms', 0), ('type', 0), ('cat', J.units('c'))):
        t = dict(cur); t[field] = simple
        if still_fails(t):
            cur = t
        elif field in ('file', 'fn', 'cat') and cur[field]:
            def f(items, field=field):
                t = dict(cur); t[field] = list(items)
                return bool(items) and still_fails(t)
            cur[field] = vlib.shrink_list(cur[field], f, 80)
    # a numeric attribute value: the smallest magnitude of the same type that still fails (halving)
    for n, (k, v) in enumerate(cur['attrs']):
        if v[0] in J.NUM_TOKENS:
            z = v[1]
            for cand in (0, 1, -1, 2 ** 31 - 1, 2 ** 31, -(2 ** 31), 2 ** 32 - 1, 2 ** 32):
                if abs(cand) < abs(z) and J.NUM_TYPES[v[0]][1] <= cand <= J.NUM_TYPES[v[0]][2]:
                    t = dict(cur); t['attrs'] = cur['attrs'][:n] + [(k, (v[0], cand))] + cur['attrs'][n + 1:]
                    if still_fails(t):
                        cur = t
                        break
    return cur


def steps_text(steps, ind=''):
    out = []
    for st in steps:
        if st[0] in 'US':
            out.append(ind + ('attribute handler (FunctionAttrHandler -> updateAttributes) returning {%s}' if st[0] == 'U' else 'handler calling setAttributes({%s})')
                       % ', '.join('%r: %s' % (J.pystr(k), ' '.join(J.value_tokens(v))) for k, v in st[1]))
        elif st[0] == 'A':
            out.append(ind + 'handler calling setAttribute(%r, %s)' % (J.pystr(st[1]), ' '.join(J.value_tokens(st[2]))))
        elif st[0] == 'R':
            out.append(ind + 'handler calling removeAttribute(%r)' % J.pystr(st[1]))
        elif st[0] == 'F':
            out.append(ind + 'SentryFormatter: %s  -> one record' % SELS[st[1]])   # how the own objects were obtained: own_formatter_objects_obtained_by
        elif st[0] == 'P':
            out.append(ind + 'nested Pipeline(scoped=%s):' % bool(st[1]))
            out += steps_text(st[2], ind + '    ')
    return out


def describe(c, r, tz):
    recs = r['recs'] if r else []
    return {'time_ms': c['ms'], 'type': c['type'], 'message_length_units': len(c['msg']), 'message_units': c['msg'] if len(c['msg']) <= 300 else c['msg'][:100] + ['...'], 'message': _r(J.pystr(c['msg']), 300),
            'formatted': None if c['fmt'] is None else repr(J.pystr(c['fmt'])),
            'category': None if c['cat'] is None else J.pystr(c['cat']), 'file': None if c['file'] is None else J.pystr(c['file']),
            'function': None if c['fn'] is None else J.pystr(c['fn']), 'line': c['line'],
            'attributes': [[repr(J.pystr(k)), ' '.join(J.value_tokens(v))] for k, v in c['attrs']],
            'pipeline_that_processes_the_message': steps_text(c.get('steps') or []) or [
                'none: a copy of the message is processed by the SimplePipeline that holds A, the captured formattedMessage() is the record' if c.get('via')
                else 'none: A.format(message) is called directly'],
            'own_formatter_objects_obtained_by': VIA_TEXT[1 if c.get('via') else 0],
            'input_line': line_of(c), 'TZ': tz, 'environment': env_of(tz), 'locale_codec_of_the_process': codec_of(tz) if codec_of(tz) != '-' else 'default (UTF-8)',
            'implementation_output': _r(J.pystr(J.unhx(r['impl'])), 3000) if r else None,
            'model_output': _r(J.pystr(J.unhx(r['model'])), 3000) if r and 'model' in r else None,
            'implementation_records': [_r(J.pystr(J.unhx(x['impl'])), 1500) for x in recs] if len(recs) > 1 else None,
            'model_records': [_r(J.pystr(J.unhx(x.get('model', '-'))), 1500) for x in recs] if len(recs) > 1 else None,
            'case': c}


def all_ids(res):
    return [rec['event_id'] for r in res for rec in r['recs'] if rec['event_id']]


def first_repeat(ids):
    seen = {}
    for n, x in enumerate(ids):
        if x in seen:
            return seen[x], n, x
        seen[x] = n
    return None


def plain_event(sel, text, via=0):
    return {'ms': 0, 'type': 0, 'msg': J.units(text), 'fmt': None, 'cat': J.units('c'), 'file': J.units('f'), 'fn': J.units('g'), 'line': 1,
            'attrs': [], 'stream': 'wf', 'steps': [['F', sel]] if sel is not None else [], 'via': via}


def id_repeat_witness(impl, cases, res, idxs, tz_of):
    """the run handed out one id twice: find a short sequence of events (one fresh process, or two) that shows it again"""
    where = [(i, n) for i, r in enumerate(res) for n, rec in enumerate(r['recs']) if rec['event_id']]
    a, b, dup = first_repeat(all_ids(res))
    (ia, na), (ib, nb) = where[a], where[b]
    sa, sb = res[ia]['recs'][na]['sel'], res[ib]['recs'][nb]['sel']
    va, vb = cases[ia].get('via', 0), cases[ib].get('via', 0)
    base = {'kind': 'event-id-repeat', 'event_id': dup, 'events': len(where),
            'first_holder': {'case_index': ia, 'record': na, 'formatter': obj_text(res[ia]['recs'][na]), 'sub_run': tz_of[ia]},
            'second_holder': {'case_index': ib, 'record': nb, 'formatter': obj_text(res[ib]['recs'][nb]), 'sub_run': tz_of[ib]}}

    def repeats(seq, tz):
        rr, _ = run_impl(impl, seq, tz)
        return rr is not None and first_repeat(all_ids(rr)) is not None
    if tz_of[ia] != tz_of[ib]:
        # two processes: the same event formatted first thing in each
        ra, _ = run_impl(impl, [plain_event(sa, 'a', va)], tz_of[ia])
        rb, _ = run_impl(impl, [plain_event(sb, 'a', vb)], tz_of[ib])
        if ra and rb and set(all_ids(ra)) & set(all_ids(rb)):
            base.update({'two_processes': True, 'sequence': [plain_event(sa, 'a', va)], 'TZ': tz_of[ia], 'second_sequence': [plain_event(sb, 'a', vb)], 'second_TZ': tz_of[ib],
                         'ids_observed': [all_ids(ra), all_ids(rb)]})
        return base
    tz = tz_of[ia]
    seq = None
    for cand in ([plain_event(sa, 'a', va), plain_event(sb, 'b', vb)], [cases[ia], cases[ib]]):
        if repeats(cand, tz):
            seq = cand
            break
    if seq is None:
        prefix = [cases[i] for i in idxs[tz] if i <= ib]
        if repeats(prefix, tz):
            seq = vlib.shrink_list(prefix, lambda x: len(x) >= 1 and repeats(x, tz), 60)
            for n in range(len(seq)):
                seq[n] = shrink_case(seq[n], lambda t, n=n: repeats(seq[:n] + [t] + seq[n + 1:], tz))
    if seq is not None:
        rr, _ = run_impl(impl, seq, tz)
        base.update({'sequence': seq, 'TZ': tz, 'input_lines': [line_of(x) for x in seq],
                     'events_of_the_sequence': [{'formatter': obj_text(rec), 'event_id': rec['event_id']} for r in (rr or []) for rec in r['recs']]})
    return base


def run():
    chk = vlib.Check('C18')
    chk.trusted = ['Coq 8.16.1 kernel; vm_compute on the closed terms sentry_cfg_goodb src_sentry_cfg and the 146097-day calendar sweep; no native_compute',
                   'axioms: none (every Print Assumptions: Closed under the global context)',
                   'tools/s2c/sentry.py translator (sentryformatter.cpp/.h, body of SimplePipeline::formatToSentry in simplepipeline.cpp and its declaration defaults -> SrcSentry.v)',
                   'extraction ExtrOcamlBasic only; ocaml/drv_sentry.ml; harness/h_sentry.cpp (virtual wall clock; builds a real Pipeline of FunctionAttrHandler / FunctionHandler / SentryFormatter handlers from the steps of a case)',
                   'Python json / datetime as independent oracle on the implementation output; Python\'s own replay of the attribute steps (records()) next to the model\'s apply_ops',
                   'modelled, not verified: QJsonDocument/QJsonObject, QVariant::toString, QDateTime UTC rendering, QVariantHash (insert / assign / remove = apply_op); QUuid::createUuid is outside (format + distinctness over all formatter objects observed)']
    chk.assumptions = ['strings are sequences of 16-bit units (theorems) / well-formed UTF-16 (oracle streams); lone surrogates are only diffed',
                       'message times lie in years 0001..9999 (four-digit ISO years)',
                       'the harness runs under four (TZ, system locale, locale codec) environments incl. ar_EG / fa_IR and the codecs ISO-8859-1, Shift_JIS, windows-1252; the event must not depend on them',
                       'a list, map or null under a routed name is rendered "" by QVariant::toString and skipped in extra: reported as kind routed_nonscalar_value (open known finding F16; C18_routed_nonscalar_value_lost_refuted); C18_oracle_holds assumes routed_scalar',
                       'numeric attribute values are integers of magnitude <= 2^53 held by an int, uint, qlonglong, qulonglong, double or float (float: <= 2^24) inside the range of the type; the type is part of the model input (JsonDefs.num_value); long / short / char QVariants are not generated (QJsonValue::fromVariant of Qt 5.15 renders them as strings)',
                       'a double / float under a routed name is rendered in shortest-g form (number text): not generated beyond small values, observation only',
                       'a fingerprint cut through a surrogate pair is an observation, not a violation (the cut is in UTF-16 units)',
                       'thread id and Qt version string are read from the run and given to the model; the event id is taken from the output',
                       'attributes reach the message by setAttribute before the pipeline and through pipeline handlers (attribute handlers = updateAttributes, setAttribute(s), removeAttribute, nested and scoped pipelines); four SentryFormatter objects serve each sub-run (two own ones, instance(), one re-created at generated points); ids must be pairwise distinct over all of them and over all sub-runs',
                       'the own objects of about 2 in 7 cases are obtained through SimplePipeline().formatToSentry(<same arguments>) instead of being constructed (via); the front end is expected to be transparent '
                       '(C18_front_end_is_the_direct_object); each process first obtains one more object through formatToSentry with OTHER arguments; sdk arguments: two-argument, one-argument and no-argument calls']
    chk.proof(vlib.proof_leg('Properties_C18', ['json', 'sentry']))
    model = vlib.build_model('sentry')
    impl = vlib.build_harness('sentry')
    thorough = chk.tier == 'thorough'
    n = 100000 if thorough else 10000
    hist, obs = {}, {}
    cases = []
    cdir = os.path.join(vlib.VERIF, 'corpus', 'C18')
    for p in sorted(os.listdir(cdir)) if os.path.isdir(cdir) else []:
        try:
            c = json.load(open(os.path.join(cdir, p)))
            c.setdefault('steps', [])
            c.setdefault('via', 0)
            cases.append(c)
        except Exception:
            pass
    ncorpus = len(cases)
    # fixed scenarios of every sub-run (they rotate over the sub-runs): two attribute handlers in one pipeline where the second
    # overrides a routed and an ordinary name of the first; a handler on the root and one on the nested (scoped / unscoped) pipeline;
    # two own formatter objects, instance() and a re-created object side by side; non-ASCII text in the message and in the values
    def kv(k, text):
        return [J.units(k), ('s', J.units(text))]
    for scoped in (False, True):
        for sa, sb in ((0, 1), (2, 0), (1, 3), (3, 2)):
            c = gen_case(chk.rng, {}, 'wf')
            c.update({'msg': J.units('Gr\u00fc\u00dfe \u65e5\u672c \U0001F600'), 'attrs': [(J.units('user'), ('s', J.units('set-by-setAttribute'))), (J.units('appname'), ('s', J.units('app0')))],
                      'steps': [['U', [kv('user', 'd\u00e9faut'), kv('request_id', 'none'), kv('appname', 'app1'), kv('host_name', 'h\u00f4te1')]],
                                ['U', [kv('user', 'Zo\u00eb'), kv('appname', '\u30a2\u30d7\u30ea')]], ['F', sa],
                                ['P', scoped, [['U', [kv('request_id', 'r-\u00e9-2'), kv('host_name', 'h\u00f4te2'), kv('os_name', 'Linux')]], ['F', sb]]],
                                ['F', sa]], 'via': len(cases) % 2})
            cases.append(c)
    nfixed = len(cases) - ncorpus
    # very long messages (nothing may clip message.formatted): every length in thorough, all four once in quick
    for k in range(len(TZS) * len(LONG) if thorough else len(LONG)):
        cases.append(long_case(chk.rng, LONG[k % len(LONG)]))
    for i in range(n):
        r = chk.rng.random()
        cases.append(gen_case(chk.rng, hist, 'wf' if r < 0.85 else ('routed-any' if r < 0.92 else 'malformed')))
    # one harness process per environment (the event must not depend on it)
    res = [None] * len(cases)
    tz_of = [TZS[i % len(TZS)] for i in range(len(cases))]
    import concurrent.futures
    idxs = {tz: [i for i in range(len(cases)) if tz_of[i] == tz] for tz in TZS}
    with concurrent.futures.ThreadPoolExecutor(len(TZS)) as ex:
        futs = {tz: ex.submit(run_cases, impl, model, [cases[i] for i in idxs[tz]], tz) for tz in TZS}
    for tz in TZS:
        idx = idxs[tz]
        rr, err = futs[tz].result()
        if rr is None:
            chk.broke('correspondence run failed: ' + err, {'kind': 'infrastructure', 'error': err})
            return chk.finish()
        for i, r in zip(idx, rr):
            res[i] = r
    clock_bad = [i for i in range(len(cases)) if res[i]['ms_read_back'] != cases[i]['ms']]
    if clock_bad:
        i = clock_bad[0]
        chk.broke('virtual clock ineffective: message time %d, requested %d' % (res[i]['ms_read_back'], cases[i]['ms']), {'kind': 'infrastructure', 'input_line': line_of(cases[i])})

    def kind_of(t, tz):
        rr, e = run_cases(impl, model, [t], tz)
        if rr is None:
            return None
        j = judge(t, rr[0], {})
        return j[0] if j else None

    def seq_kind(ts, tz):
        rr, e = run_cases(impl, model, ts, tz)
        if rr is None:
            return None
        j = judge(ts[-1], rr[-1], {})
        return j[0] if j else None

    diffs, bad, bad_fields = [], [], {}
    for i, (c, r) in enumerate(zip(cases, res)):
        if differs(r):
            diffs.append(i)
        j = judge(c, r, obs)
        if j:
            bad.append((i, (j[0], j[1])))
            if len(j) > 2:
                bad_fields[i] = j[2]
    reported = set()
    for i, (kind, detail) in sorted(bad, key=lambda x: len(line_of(cases[x[0]]))):
        if kind in reported:
            continue
        reported.add(kind)
        tz = tz_of[i]
        before = None
        if kind == 'routed_nonscalar_value':
            # shrink to the one offending attribute on an otherwise trivial message
            c0 = cases[i]
            keep = [tuple(bad_fields[i]['lost_value'])]
            t = dict(c0); t.update({'attrs': keep, 'msg': [], 'fmt': None, 'ms': 0, 'type': 0, 'line': 1, 'steps': [],
                                    'cat': J.units('c'), 'file': J.units('f'), 'fn': J.units('g'), 'stream': 'routed-any'})
            small = t if kind_of(t, tz) == kind else shrink_case(c0, lambda t: kind_of(t, tz) == kind)
            rr, _ = run_cases(impl, model, [small], tz)
            j2 = judge(small, rr[0], {}) if rr else None
            d = describe(small, rr[0] if rr else None, tz)
            d.update({'kind': kind, 'detail': (j2 or (kind, detail))[1], 'falsified_cases': sum(1 for b in bad if b[1][0] == kind)})
            f2 = dict(j2[2] if j2 and len(j2) > 2 else bad_fields[i]); f2.pop('lost_value', None)
            d.update(f2)
            chk.fail('SentryFormatter output falsifies C18 (%s): %s' % (kind, d['detail']), d, kind=kind)
            continue
        if kind_of(cases[i], tz) != kind:
            # not reproducible on fresh formatters: look for one earlier event of the same sub-run (same SentryFormatter objects)
            prev = [j for j in idxs[tz] if j < i][-60:]
            for j in reversed(prev):
                if seq_kind([cases[j], cases[i]], tz) == kind:
                    before = cases[j]
                    break
        if before is not None:
            small = shrink_case(cases[i], lambda t: seq_kind([before, t], tz) == kind)
            before = shrink_case(before, lambda t: seq_kind([t, small], tz) == kind)
            rr, _ = run_cases(impl, model, [before, small], tz)
            rr = rr[1:] if rr else None
        else:
            small = shrink_case(cases[i], lambda t: kind_of(t, tz) == kind)
            if tz != 'UTC0|C|' and kind_of(small, 'UTC0|C|') == kind:
                tz = 'UTC0|C|'   # the environment of the sub-run (time zone, locale, locale codec) is not part of the trigger
            rr, _ = run_cases(impl, model, [small], tz)
        k2 = judge(small, rr[0], {}) if rr else None
        d = describe(small, rr[0] if rr else None, tz)
        if before is not None:
            d['earlier_event_on_the_same_formatter'] = {'input_line': line_of(before), 'case': before,
                                                        'attributes': [[repr(J.pystr(k)), ' '.join(J.value_tokens(v))] for k, v in before['attrs']]}
        d.update({'kind': kind, 'detail': (k2 or (kind, detail))[1], 'falsified_cases': sum(1 for b in bad if b[1][0] == kind)})
        chk.fail('SentryFormatter output falsifies C18 (%s): %s' % (kind, d['detail']), d, kind=kind)
    # event ids: pairwise distinct over ALL events of the run - every formatter object, every record, every sub-run
    ids = all_ids(res)
    if len(set(ids)) != len(ids):
        d = id_repeat_witness(impl, cases, res, idxs, tz_of)
        seq = d.get('events_of_the_sequence')
        chk.fail('event ids are not pairwise distinct: %s handed out twice within %d events (%s and %s)%s' % (
                     d['event_id'], len(ids), d['first_holder']['formatter'], d['second_holder']['formatter'],
                     '; shown again by a fresh process formatting %d events: %s' % (len(seq), ', '.join('%s -> %s' % (e['formatter'], e['event_id']) for e in seq[:6])) if seq else ''),
                 d, kind='event-id-repeat')
    # the extracted oracle ids_ok_b on the ids of each sub-run (quadratic: the first 1500 events, which already interleave all objects)
    ids_oracle = {}
    for tz in TZS:
        sub = [rec['event_id'] or '-' for i in idxs[tz] for rec in res[i]['recs']][:1500]
        rc, o, err = vlib.run_lines(model, [' '.join(sub)], ['ids'])
        ids_oracle[tz] = o[0] if rc == 0 and o else '?'
        if ids_oracle[tz] != '1' and len(set(ids)) == len(ids) and all(re.fullmatch(r'[0-9a-f]{32}', x) for x in sub):
            chk.broke('extracted oracle ids_ok_b rejects the ids of sub-run %s although they are well-formed and distinct' % tz, {'kind': 'oracle', 'ids': sub[:50]})
    # sdk-argument leg: own formatter objects constructed with (sdkName, sdkVersion) that need escaping; the model carries the
    # default strings (SrcSentry.src_sentry_cfg), so here the sdk object is judged on the implementation side (= the arguments) and the
    # rest of the event against the model
    sdk_leg = {'argument_pairs': [list(x) for x in SDKS], 'records': 0, 'records_by_objects_obtained_through_formatToSentry': 0, 'falsified': 0, 'model_differs': 0}
    wf_idx = [i for i, c in enumerate(cases) if c['stream'] == 'wf' and len(c['msg']) < 300]
    sample = [cases[i] for i in wf_idx[:ncorpus + nfixed] + wf_idx[ncorpus + nfixed + len(LONG):][:(400 if thorough else 60)]]
    trivial = dict(gen_case(random.Random(0), {}, 'wf'), msg=[], attrs=[], fmt=None, ms=0, type=0, line=1, steps=[], cat=J.units('c'), file=J.units('f'), fn=J.units('g'), via=0)
    trivial_fluent = dict(trivial, via=1)
    sdk_reported = set()
    for k, (sn, sv) in enumerate(SDKS):
        sdk = (J.units(sn), None if sv is None else J.units(sv)); tz = TZS[k % len(TZS)]
        scs = [trivial, trivial_fluent] + sample
        rr, err = run_cases(impl, model, scs, tz, sdk)
        if rr is None:
            chk.broke('sdk-argument run failed: ' + err, {'kind': 'infrastructure', 'error': err, 'sdkName': sn, 'sdkVersion': sv})
            continue

        def sdk_kind(t, tz=tz, sdk=sdk):
            x, e = run_cases(impl, model, [t], tz, sdk)
            j = judge_sdk(t, x[0], sdk) if x else None
            return j[0] if j else None
        for c, r in zip(scs, rr):
            sdk_leg['records'] += len(r['recs'])
            sdk_leg['records_by_objects_obtained_through_formatToSentry'] += sum(1 for rec in r['recs'] if rec.get('via') and rec['sel'] != 2)
            j = judge_sdk(c, r, sdk)
            if not j:
                continue
            sdk_leg['model_differs' if j[0] == 'correspondence' else 'falsified'] += 1
            if j[0] in sdk_reported:
                continue
            sdk_reported.add(j[0])
            small = trivial if sdk_kind(trivial) == j[0] else trivial_fluent if sdk_kind(trivial_fluent) == j[0] else shrink_case(c, lambda t: sdk_kind(t) == j[0])
            x, _ = run_cases(impl, model, [small], tz, sdk)
            j2 = judge_sdk(small, x[0], sdk) if x else None
            d = describe(small, x[0] if x else None, tz)
            call = '(%s)' % json.dumps(sn) if sv is None else '(%s, %s)' % (json.dumps(sn), json.dumps(sv))
            d.update({'kind': j[0], 'detail': (j2 or j)[1], 'sdkName': sn, 'sdkVersion': sv, 'sdk_units': [sdk[0], sdk[1]],
                      'constructor': ('SimplePipeline().formatToSentry' if small.get('via') else 'SentryFormatter') + call})
            if j[0] == 'correspondence':
                chk.broke('correspondence (sdk-argument leg): ' + d['detail'], d)
            else:
                chk.fail('SentryFormatter output falsifies C18 (%s): %s' % (j[0], d['detail']), d, kind=j[0])
    if diffs:
        i = min(diffs, key=lambda k: len(line_of(cases[k])))
        d = describe(cases[i], res[i], tz_of[i])
        d['kind'] = 'correspondence'
        chk.broke('correspondence: extracted event model and SentryFormatter differ on %d of %d events' % (len(diffs), len(cases)), d)
    wf_cases = [c for c in cases if c['stream'] != 'malformed']

    def nontrivial(c):
        return bool(c['attrs']) or bool(c.get('steps')) or len(c['msg']) > 100 or any(u < 32 or u in (34, 92) or u > 126 for u in c['msg'])

    def overrides(rec, routed):
        seen = {}
        for k, v in rec['attrs']:
            seen.setdefault(J.pystr(k), []).append(' '.join(J.value_tokens(v)))
        return any(len(set(vs)) > 1 and (k in ROUTES) == routed for k, vs in seen.items())
    allrecs = [rec for r in res for rec in r['recs']]
    chk.cov.update({
        'evaluations': len(cases), 'corpus_cases': ncorpus, 'fixed_pipeline_scenarios': nfixed,
        'distinct_nontrivial': len({line_of(c) for c in cases if nontrivial(c)}),
        'rule': 'generated events (all five types, categories around "default" incl. path-like ones, path-like file/function strings, all six numeric QVariant types at their boundaries, messages around the 100-unit cut, routed and arbitrary attribute '
                'names with repeats, calendar boundary times 0001..9999 under four TZ / locale / locale-codec settings; attributes set directly and through the handlers of a real pipeline with overrides; four formatter objects); '
                'non-trivial = has attributes or pipeline steps, a message longer than the cut or a character that is escaped / non-ASCII',
        'streams': {s: sum(1 for c in cases if c['stream'] == s) for s in ('wf', 'routed-any', 'malformed')},
        'byte_exact_disagreements_model_vs_impl': len(diffs),
        'records_compared': len(allrecs), 'cases_processed_by_a_pipeline': sum(1 for c in cases if c.get('steps')),
        'cases_with_attribute_handlers': sum(1 for c in cases if any(st[0] == 'U' for st in flat_steps(c.get('steps') or []))),
        'cases_with_nested_pipeline': {'scoped': sum(1 for c in cases if any(st[0] == 'P' and st[1] for st in flat_steps(c.get('steps') or []))),
                                       'unscoped': sum(1 for c in cases if any(st[0] == 'P' and not st[1] for st in flat_steps(c.get('steps') or [])))},
        'records_where_a_name_was_overridden_with_another_value': {'routed_name': sum(1 for rec in allrecs if overrides(rec, True)),
                                                                    'name_that_goes_to_extra': sum(1 for rec in allrecs if overrides(rec, False))},
        'records_by_formatter_object': {SELS[k]: sum(1 for rec in allrecs if rec['sel'] == k and not rec.get('direct')) for k in SELS},
        'records_by_direct_format_call_on_A': sum(1 for rec in allrecs if rec.get('direct') and not rec.get('via')),
        'records_by_a_copy_of_the_message_through_the_SimplePipeline_holding_A': sum(1 for rec in allrecs if rec.get('direct') and rec.get('via')),
        'own_formatter_objects_obtained_via': {'direct_construction': sum(1 for c in cases if not c.get('via')),
                                               'SimplePipeline::formatToSentry': sum(1 for c in cases if c.get('via'))},
        'records_by_objects_obtained_through_formatToSentry': {SELS[k]: sum(1 for rec in allrecs if rec['sel'] == k and rec.get('via') and not rec.get('direct')) for k in (0, 1, 3)},
        'records_with_non_ascii_text_by_locale_codec': {codec_of(tz): sum(1 for i in idxs[tz] if any(u > 127 for u in cases[i]['msg'])) for tz in TZS},
        'oracle_evaluated_on_impl_outputs': sum(len(r['recs']) for c, r in zip(cases, res) if c['stream'] != 'malformed'), 'oracle_falsified': len(bad),
        'oracle_falsified_by_kind': {k: sum(1 for b in bad if b[1][0] == k) for k in sorted({b[1][0] for b in bad})},
        'event_ids_seen': len(ids), 'event_ids_distinct': len(set(ids)), 'extracted_ids_oracle_per_sub_run': ids_oracle,
        'types': {LEVEL[t]: sum(1 for c in cases if c['type'] == t) for t in range(5)},
        'category_default_or_empty': sum(1 for c in cases if J.pystr(c['cat'] or []) in ('', 'default')),
        'messages_longer_than_cut': sum(1 for c in cases if len(c['msg']) > 100),
        'messages_exactly_at_cut': sum(1 for c in cases if len(c['msg']) == 100),
        'routed_attributes': sum(1 for c in cases for k, _ in c['attrs'] if J.pystr(k) in ROUTES),
        'other_attributes': sum(1 for c in cases for k, _ in c['attrs'] if J.pystr(k) not in ROUTES),
        'duplicate_attribute_names': sum(1 for c in cases if len({tuple(k) for k, _ in c['attrs']}) < len(c['attrs'])),
        'boundary_times': sum(1 for c in cases if c['ms'] in TIMES), 'time_zone|system_locale|locale_codec_of_sub_runs': TZS,
        'messages_of_8191_or_more_units': sum(1 for c in cases if len(c['msg']) >= 8191),
        'path_like_strings': {f: sum(1 for c in cases if c[f] and J.path_shapes(J.pystr(c[f]))) for f in ('cat', 'file', 'fn')},
        'numeric_type_histogram': {J.NUM_TYPES[t][0]: hist.get('num_' + J.NUM_TYPES[t][0], 0) for t in J.NUM_TOKENS},
        'numeric_values_under_routed_names': sum(1 for c in cases for k, v in c['attrs'] if J.pystr(k) in ROUTES and v[0] in J.NUM_TOKENS),
        'sdk_constructor_argument_leg': sdk_leg,
        'observations': obs, 'generator_histogram': dict(sorted(hist.items())),
    })
    for i in (0, len(cases) // 3, len(cases) - 1):
        chk.samples.append({'input': line_of(cases[i])[:300], 'impl': J.pystr(J.unhx(res[i]['impl']))[:400], 'equal_to_model': not differs(res[i])})
    return chk.finish()


def replay(path):
    r = json.load(open(path))['replay']
    if isinstance(r, list):
        r = r[0]
    vlib.gen_src(['json', 'sentry'])
    model = vlib.build_model('sentry'); impl = vlib.build_harness('sentry')
    if r.get('kind') == 'event-id-repeat' and r.get('sequence'):
        seen = []
        for seq, tz in ((r['sequence'], r.get('TZ', 'UTC0|C')),) + (((r['second_sequence'], r.get('second_TZ', 'UTC0|C')),) if r.get('second_sequence') else ()):
            rr, err = run_impl(impl, seq, tz)
            if rr is None:
                print(err); return 1
            print('fresh process, environment', env_of(tz), 'locale codec', codec_of(tz))
            for t, x in zip(seq, rr):
                print('  input  ', line_of(t)[:300])
                for rec in x['recs']:
                    print('    formatted by %-45s event_id %s' % (SELS[rec['sel']], rec['event_id']))
                    seen.append(rec['event_id'])
        print('ids pairwise distinct:', len(set(seen)) == len(seen))
        return 0
    c = r.get('case')
    if not c:
        print(json.dumps(r, indent=1)); return 0
    tz = r.get('TZ', 'UTC0|C')
    seq = ([r['earlier_event_on_the_same_formatter']['case']] if r.get('earlier_event_on_the_same_formatter') else []) + [c]
    sdk = (r['sdk_units'][0], r['sdk_units'][1]) if r.get('sdk_units') else None   # second component None = one-argument call
    res, err = run_cases(impl, model, seq, tz, sdk)
    if res is None:
        print(err); return 1
    print('environment    ', env_of(tz), 'locale codec', codec_of(tz))
    if sdk:
        print('own formatter objects obtained as', r.get('constructor'))
    for t, x in zip(seq, res):
        print('input          ', line_of(t)[:400])
        print('own formatter objects:', VIA_TEXT[1 if t.get('via') else 0])
        for line in steps_text(t.get('steps') or []):
            print('   pipeline:   ', line)
        for n, rec in enumerate(x['recs']):
            print('record %d implementation ' % (n + 1), _r(J.pystr(J.unhx(rec['impl'])), 3000))
            print('record %d model          ' % (n + 1), _r(J.pystr(J.unhx(rec['model'])), 3000))
            print('record %d oracle verdict on the implementation output (1 = holds):' % (n + 1), rec['verdict'])
    print('judgement of the last event:', judge_sdk(seq[-1], res[-1], sdk) if sdk else judge(seq[-1], res[-1], {}))
    return 0
