"""C08 — Compressed rotated files are valid gzip of exactly the rotated log."""
import gzip as pygzip, hashlib, json, os, random, re, resource, shutil, struct, subprocess, tempfile, time, zlib
from concurrent.futures import ThreadPoolExecutor
import vlib

META = {
    'id': 'C08',
    'level': 'proof',
    'technique': 'Coq proof (bit-level CRC-32 table = bitwise definition, chunk independence, slice of qCompress = raw '
                 'deflate, RFC 1952 reader round trip with zlib as a hypothesised oracle) + source-to-Coq translation of '
                 'the constants and the step order of compressFile()/calculateCRC32() + differential run of the extracted '
                 'model and reader against the .gz files a real RotatingFileSink writes, decoded independently by Python',
    'text': 'Theorems (Properties_C08.v) state, for ANY byte content d: the table-driven CRC of the source equals the '
            'bitwise CRC-32; the CRC carried over any chunking equals the CRC of the whole; the bytes written between '
            'header and trailer are the raw deflate stream; the file is the RFC 1952 member of d and the extracted member '
            'reader returns d with CRC32/ISIZE of d; the original is removed last.  They are re-checked on every run '
            'against constants and step order translated from rotatingfilesink.cpp.  Deflate itself is an oracle '
            '(inflate(deflate d ++ r) = (d, r)), validated on every sampled file with Python zlib.',
    'note': 'Trusted: Coq 8.16.1 kernel (vm_compute only on closed terms: cfg_goodb src_gz, the non-vacuity example), no axioms; '
            'tools/s2c/gzip.py + crash.py (regex translation of calculateCRC32/compressFile); extraction (ExtrOcamlBasic) and '
            'ocaml/drv_gzip.ml; harness/h_gzip.cpp, h_crash.cpp; Python zlib/gzip and gzip(1) as independent decoders; strace. '
            'Modelled, not verified: zlib deflate/inflate (Section hypotheses), qCompress framing (validated on samples), '
            'QFile buffering, toLocal8Bit (UTF-8, and the non-UTF-8 locale codecs ISO-8859-1/-15, windows-1252, KOI8-R, Shift_JIS set with '
            'QTextCodec::setCodecForLocale; arbitrary bytes enter through pre-existing active files). Empty input files are outside '
            '(rotate() is only reached with size > 0; qCompress of empty data is 4 bytes and the body would be empty).',
    'design_ref': 'DESIGN.md section 4, C08',
    'engine': 'coq+extraction+harness',
}

KINDS = ('zeros', 'newlines', 'text', 'random7', 'unicode', 'nonascii')
# 8-bit locale codecs (the codec toLocal8Bit() and so the sink's write() use): Qt name -> (Python name, characters the
# records are drawn from besides ASCII).  Every pool also holds characters the codec cannot represent (written as '?').
# In all of them a non-ASCII character takes FEWER bytes in the file than in UTF-8, so any size bookkeeping that is
# not done on the bytes actually written disagrees with the file.
CODECS = {
    'ISO-8859-1': ('latin-1', [(0xa1, 0xff), (0xe0, 0xff), (0x20ac, 0x20ac), (0x4e2d, 0x4e2d)]),
    'ISO-8859-15': ('iso8859-15', [(0xa1, 0xa3), (0xc0, 0xff), (0x20ac, 0x20ac), (0x160, 0x161), (0x152, 0x153), (0x3b1, 0x3b1)]),
    'windows-1252': ('cp1252', [(0xa1, 0xff), (0x20ac, 0x20ac), (0x201c, 0x201d), (0x2013, 0x2014), (0x2122, 0x2122), (0x416, 0x416)]),
    'KOI8-R': ('koi8-r', [(0x410, 0x44f), (0x410, 0x44f), (0x401, 0x401), (0x451, 0x451), (0xe9, 0xe9)]),
    'Shift_JIS': ('shift_jis', [(0x3041, 0x3093), (0x30a1, 0x30f6), (0x65e5, 0x65e5), (0x672c, 0x672c), (0x8a9e, 0x8a9e), (0xe9, 0xe9)]),
}
WORDS = ('connection', 'timeout', 'user', 'id=', 'error', 'warning', 'started', 'stopped', 'request', '/api/v1/items', 'GET',
         'POST', '200', '404', '500', 'ms', 'thread', 'retry', 'cache', 'miss', 'hit', '0x7ffd', 'null', 'ok', ' ', ' ', ' ', ': ', '-')


def _unlimit_stack():
    try:
        resource.setrlimit(resource.RLIMIT_STACK, (resource.RLIM_INFINITY, resource.RLIM_INFINITY))
    except Exception:
        try:
            soft, hard = resource.getrlimit(resource.RLIMIT_STACK)
            resource.setrlimit(resource.RLIMIT_STACK, (hard, hard))
        except Exception:
            pass


def run_model(model, lines, timeout=900):
    p = subprocess.run([model], input=('\n'.join(lines) + '\n').encode(), stdout=subprocess.PIPE, stderr=subprocess.PIPE,
                       timeout=timeout, preexec_fn=_unlimit_stack, env=dict(os.environ, OCAMLRUNPARAM='s=8M'))
    return p.returncode, p.stdout.decode().splitlines(), p.stderr.decode()


def gen_records(kind, size, rseed, codec=None):
    """records (unicode strings) whose UTF-8 bytes plus one newline each total exactly `size` bytes"""
    rng = random.Random(rseed)
    recs, remaining = [], size
    pool = CODECS[codec][1] if kind == 'nonascii' else None
    while remaining > 0:
        if kind == 'newlines':
            r = 0
        else:
            cap = {'zeros': 5000, 'text': 120, 'random7': 3000, 'unicode': 2000, 'nonascii': 160}[kind]
            r = min(remaining - 1, rng.randint(0, cap) if rng.random() < 0.9 else rng.randint(0, 8 * cap))
        if kind == 'zeros':
            s = '\0' * r
        elif kind == 'newlines':
            s = ''
        elif kind == 'text':
            s = ''
            while len(s) < r:
                s += rng.choice(WORDS) if rng.random() < 0.8 else str(rng.randint(0, 99999))
            s = s[:r]
        elif kind == 'random7':
            s = ''.join(map(chr, rng.choices(range(128), k=r)))
        elif kind == 'nonascii':
            out, left = [], r
            while left > 0:
                if rng.random() < 0.45:
                    cp = rng.randint(0x20, 0x7e)
                else:
                    lo, hi = rng.choice(pool); cp = rng.randint(lo, hi)
                n = len(chr(cp).encode('utf-8'))
                if n > left:
                    cp, n = 0x61, 1
                out.append(chr(cp)); left -= n
            s = ''.join(out)
        else:
            out, left = [], r
            while left > 0:
                cp = rng.choice((rng.randint(0x80, 0x7ff), rng.randint(0x800, 0xd7ff), rng.randint(0xe000, 0xffff),
                                 rng.randint(0x10000, 0x10ffff), rng.randint(0, 0x7f)))
                n = len(chr(cp).encode('utf-8'))
                if n > left:
                    cp, n = 0x61, 1
                out.append(chr(cp)); left -= n
            s = ''.join(out)
        recs.append(s)
        remaining -= len(s.encode('utf-8')) + 1
    assert remaining == 0
    return recs


RAW_KINDS = ('urandom', 'crlf', 'zero', 'ff', 'badutf8', 'mixed')


def gen_raw(kind, size, rseed):
    """arbitrary bytes for a pre-existing active file (written by an earlier run or another program)"""
    rng = random.Random(rseed)
    if kind == 'urandom':
        return rng.randbytes(size)
    if kind == 'zero':
        return b'\0' * size
    if kind == 'ff':
        return b'\xff' * size
    if kind == 'crlf':
        out = bytearray()
        while len(out) < size:
            out += rng.choice(WORDS).encode() + rng.choice((b'\r\n', b'\r\n', b'\r', b'\n\r', b' \r \n', b'\r\r\n'))
        return bytes(out[:size - 1]) + b'\r' if size > 0 else b''
    if kind == 'badutf8':
        frag = (b'\xc3', b'\xe2\x82', b'\xf0\x9f\x98', b'\x80', b'\xbf\xbf', b'\xc0\xaf', b'\xed\xa0\x80', b'\xf8\x88', b'ok\n', b'\xfe\xff')
        out = bytearray()
        while len(out) < size:
            out += rng.choice(frag)
        return bytes(out[:size])
    out = bytearray()                      # mixed: runs of everything, incl. already-compressed data
    while len(out) < size:
        k = rng.randint(1, 5000)
        out += rng.choice((rng.randbytes(k), b'\0' * k, b'\xff' * k, b'line\r\n' * (k // 6 + 1), zlib.compress(rng.randbytes(k // 2 + 1))))
    return bytes(out[:size])


def content_of(recs, codec=None):
    """the bytes a FileSink writes for these records when the locale codec is `codec` (None: UTF-8); characters the
    codec cannot represent become '?' (QTextCodec's and Python's replacement alike)"""
    enc = CODECS[codec][0] if codec else 'utf-8'
    return b''.join(r.encode(enc, 'replace') + b'\n' for r in recs)


def run_case(impl, case):
    """drive the real sink; returns dict with the produced files"""
    d = tempfile.mkdtemp(prefix='c08_', dir='/tmp')
    logdir = os.path.join(d, 'log')
    lines = []
    if case['mode'] == 'leftover':
        # what a run killed inside compressFile() leaves: the complete rotated original and a half-written .gz of it;
        # a fresh compressing sink with a finite count then goes through two rotations
        os.makedirs(logdir)
        x = 'app.%s.1.log' % time.strftime('%Y-%m-%d')
        with open(os.path.join(logdir, x), 'wb') as f:
            f.write(case['raw'])
        z = pygzip.compress(case['raw'])
        with open(os.path.join(logdir, x + '.gz'), 'wb') as f:
            f.write(z[:len(z) // 2])
        case['planted'] = x
        lines += ['W ' + ('record %d ' % i).ljust(50, '.').encode().hex() for i in range(3)]
        args = [logdir, '64', str(case.get('N', 5)), '4', 'u']
    elif case['mode'] == 'blocked':
        # as 'raw', but a DIRECTORY occupies the name the first .gz would get: creating the .gz fails
        os.makedirs(os.path.join(logdir, 'app.%s.1.log.gz' % time.strftime('%Y-%m-%d')))
        with open(os.path.join(logdir, 'app.log'), 'wb') as f:
            f.write(case['raw'])
        lines += ['W 7a']
        args = [logdir, '0', str(case.get('N', 0)), '5', 'u']
    elif case['mode'] == 'raw':
        # the active file exists already, with arbitrary bytes; a sink with RotationOnStartup|Compression takes it over
        os.makedirs(logdir)
        with open(os.path.join(logdir, 'app.log'), 'wb') as f:
            f.write(case['raw'])
        lines += ['W 7a']
        args = [logdir, '0', str(case.get('N', 0)), '5', 'u']
    elif case['mode'] == 'startup':
        lines += ['w ' + r.encode('utf-8').hex() for r in case['records']]
        lines += ['R 0 %d 5' % case.get('N', 0), 'W 7a']
        args = [logdir, '0', str(case.get('N', 0)), '0', 'u']
    else:
        lines += ['W ' + r.encode('utf-8').hex() for r in case['records']]
        args = [logdir, str(case['L']), str(case.get('N', 0)), '4', 'u']
    if case.get('codec'):
        args.append(case['codec'])       # the process's 8-bit locale codec: what toLocal8Bit() and the sink's write() use
        lines.append('P')
    rc, out, err = vlib.run_lines(impl, lines, args, timeout=600, env={'LC_ALL': 'C.UTF-8'})
    res = {'dir': d, 'rc': rc, 'stderr': err[-300:], 'answers': out, 'files': {}, 'expected': {}}
    res['codec_probe'] = next((l[2:].strip() for l in out if l.startswith('P ')), None)
    if os.path.isdir(logdir):
        for f in sorted(os.listdir(logdir)):
            if os.path.isfile(os.path.join(logdir, f)):
                res['files'][f] = open(os.path.join(logdir, f), 'rb').read()
            else:
                res.setdefault('subdirs', []).append(f)
    if os.path.isdir(logdir + '.exp'):
        for f in sorted(os.listdir(logdir + '.exp')):
            if f != 'pending':
                res['expected'][f] = open(os.path.join(logdir + '.exp', f), 'rb').read()
    return res


def py_decode(blob):
    """independent decoding of a .gz: (facts dict).  Never raises."""
    f = {'len': len(blob), 'header': blob[:10].hex(), 'trailer': blob[-8:].hex() if len(blob) >= 18 else '',
         'inflated': None, 'consumed': -1, 'unused': None, 'gzip_module': None, 'gzip_cli': None, 'btype': None}
    try:
        o = zlib.decompressobj(-15)
        data = o.decompress(blob[10:]) + o.flush()
        if o.eof:
            f['inflated'] = data
            f['unused'] = o.unused_data
            f['consumed'] = len(blob) - 10 - len(o.unused_data)
    except Exception as e:
        f['inflate_error'] = repr(e)[:120]
    try:
        f['gzip_module'] = pygzip.decompress(blob)
    except Exception as e:
        f['gzip_error'] = repr(e)[:120]
    if len(blob) > 10:
        f['btype'] = (blob[10] >> 1) & 3
    return f


def gzip_cli_ok(path):
    p = subprocess.run(['gzip', '-t', path], stdout=subprocess.PIPE, stderr=subprocess.PIPE)
    return p.returncode == 0


def check_gz(name, blob, expected, facts):
    """Python-side verdict on one .gz against the bytes it must hold; list of (kind, text)"""
    bad = []
    if facts['inflated'] is None:
        bad.append(('gz-invalid', 'body after the 10-byte header is not a complete raw deflate stream (%s)' % facts.get('inflate_error', 'truncated')))
    elif facts['inflated'] != expected:
        bad.append(('gz-content', 'inflated body differs from the replaced log file (%d vs %d bytes)' % (len(facts['inflated']), len(expected))))
    elif facts['unused'] != struct.pack('<II', zlib.crc32(expected) & 0xffffffff, len(expected) & 0xffffffff):
        bad.append(('gz-trailer', 'bytes after the deflate stream are %s, expected CRC-32 then ISIZE little-endian %s' % (
            facts['unused'][:16].hex(), struct.pack('<II', zlib.crc32(expected) & 0xffffffff, len(expected) & 0xffffffff).hex())))
    if facts['gzip_module'] != expected and not bad:
        bad.append(('gz-invalid', 'Python gzip.decompress rejects the file or returns other bytes (%s)' % facts.get('gzip_error', 'content')))
    if not blob.startswith(b'\x1f\x8b\x08\x00'):
        bad.append(('gz-header', 'header bytes %s are not ID1 ID2 CM=8 FLG=0' % blob[:4].hex()))
    return bad


def make_cases(chk):
    rng = chk.rng
    thorough = chk.tier == 'thorough'
    cases = []
    bsizes = [1, 2, 3, 17, 300, 4096, 8191, 8192, 8193, 16384, 16385, 24576, 65535, 65536, 65537, 70001]
    if thorough:
        bsizes += [32768, 131072, 131073, 262144 + 5]
    for kind in KINDS[:5]:          # 'nonascii' comes with a locale codec, below
        for s in bsizes:
            if kind == 'newlines' and s > 70001:
                continue
            cases.append({'mode': 'startup', 'kind': kind, 'size': s, 'rseed': rng.randrange(1 << 30)})
        for _ in range(6 if thorough else 2):   # random sizes around the boundaries
            s = rng.choice([rng.randint(1, 64), rng.randint(8000, 8400), rng.randint(16200, 16500), rng.randint(65000, 66000)])
            cases.append({'mode': 'startup', 'kind': kind, 'size': s, 'rseed': rng.randrange(1 << 30)})
    big = [('text', 300 * 1024 + 7), ('random7', (1 << 20) + 8192 * 3 + 1)]
    if thorough:
        big += [('unicode', 3 * (1 << 20) + 11), ('random7', 4 * (1 << 20) + 8193), ('zeros', 5 * (1 << 20)), ('text', 2 * (1 << 20))]
    for kind, s in big:
        cases.append({'mode': 'startup', 'kind': kind, 'size': s, 'rseed': rng.randrange(1 << 30)})
    # size-triggered rotations with compression on: many .gz files per history, sizes near L
    for _ in range(12 if thorough else 4):
        kind = rng.choice(('text', 'random7', 'unicode', 'zeros'))
        cases.append({'mode': 'size', 'kind': kind, 'size': rng.choice((6000, 20000, 40000)), 'L': rng.choice((64, 1000, 8192, 8193, 16384)),
                      'N': 0, 'rseed': rng.randrange(1 << 30)})
    # records with non-ASCII text written through send() while the process's 8-bit locale codec is NOT UTF-8 (LC_ALL=C
    # selects UTF-8 in this Qt build, so the codec is set explicitly): the file holds toLocal8Bit() bytes, whose number
    # differs from the UTF-8 length of the text; size-triggered rotations (one sink object lives through many files)
    # and start-up rotations
    names = list(CODECS)[1:]
    rng.shuffle(names)
    names = ['ISO-8859-1'] + names       # Latin-1 (what LC_ALL=C means for most Qt 5 builds) is in every run
    for n, codec in enumerate(names if thorough else names[:3]):
        cases.append({'mode': 'size', 'kind': 'nonascii', 'codec': codec, 'size': rng.choice((3000, 9000, 20000)),
                      'L': (64, 1000, 8192, 300, 8193)[n % 5], 'N': 0, 'rseed': rng.randrange(1 << 30)})
        if thorough or n == 0:
            cases.append({'mode': 'startup', 'kind': 'nonascii', 'codec': codec, 'size': rng.choice((17, 300, 8193, 70001)), 'rseed': rng.randrange(1 << 30)})
    if thorough:
        for codec in names:
            cases.append({'mode': 'size', 'kind': 'nonascii', 'codec': codec, 'size': 40000, 'L': rng.choice((100, 2000, 16384)), 'N': 0, 'rseed': rng.randrange(1 << 30)})
    # pre-existing active files with ANY bytes, rotated and compressed at start-up
    raw = [('urandom', 65536), ('urandom', 65537), ('urandom', 8193), ('urandom', 1), ('crlf', 300), ('crlf', 70000),
           ('ff', 65536), ('zero', 100000), ('badutf8', 8192), ('mixed', 131073)]
    if thorough:
        raw = [(k, n) for k in RAW_KINDS for n in (1, 100, 8191, 8192, 8193, 65535, 65536, 65537, 100000)]
        raw += [('urandom', (1 << 20) + 1), ('mixed', 3 * (1 << 20) + 5), ('crlf', (1 << 20) + 1), ('urandom', 2 * 65536), ('urandom', 2 * 65536 + 1)]
    for kind, n in raw:
        cases.append({'mode': 'raw', 'kind': kind, 'size': n, 'rseed': rng.randrange(1 << 30)})
    # the 4 MiB line: exactly 4 MiB and one byte more (quick: judged by zlib/gzip only, the model's CRC needs ~25 s per file)
    for kind, n in (('mixed', 4 << 20), ('urandom', (4 << 20) + 1)):
        cases.append({'mode': 'raw', 'kind': kind, 'size': n, 'rseed': rng.randrange(1 << 30), 'nomodel': not thorough})
    # leftovers of a run killed while compressing: complete original + half-written .gz; the next sink must not destroy the original
    for n, N in (((200000, 5), (70000, 6), (1000, 8)) if thorough else ((200000, 5),)):
        cases.append({'mode': 'leftover', 'kind': 'mixed', 'size': n, 'N': N, 'rseed': rng.randrange(1 << 30)})
    # the .gz cannot be created (a directory has its name): the original must survive
    for kind, n in ([('urandom', 5000), ('crlf', 20000), ('mixed', 70000)] if thorough else [('urandom', 5000), ('crlf', 20000)]):
        cases.append({'mode': 'blocked', 'kind': kind, 'size': n, 'rseed': rng.randrange(1 << 30)})
    for c in cases:
        if c['mode'] in ('raw', 'blocked', 'leftover'):
            c['raw'] = gen_raw(c['kind'], c['size'], c['rseed']); c['records'] = []
        else:
            c['records'] = gen_records(c['kind'], c['size'], c['rseed'], c.get('codec'))
    return cases


def describe(c, with_records=False):
    d = {k: c[k] for k in ('mode', 'size', 'rseed', 'L', 'N', 'codec', 'shrunk_from') if k in c}
    d['content'] = c['kind']
    if with_records and c['size'] <= 4096:
        if c['mode'] in ('raw', 'blocked', 'leftover'):
            d['raw_hex'] = c['raw'].hex()
        else:
            d['records_utf8_hex'] = [r.encode('utf-8').hex() for r in c['records']]
    d['how'] = ("leftover mode: app.<today>.1.log = gen_raw(...) and the first half of gzip.compress of it as app.<today>.1.log.gz planted, then a "
                "sink with Compression, max size 64, count N writes three 51-byte records; blocked mode: as raw mode, with a directory named app.<today>.1.log.gz created first; raw mode: app.log pre-written with checks.c08.gen_raw(content, size, rseed), then a sink with RotationOnStartup|Compression writes 'z'; "
                "records = checks.c08.gen_records(content, size, rseed, codec); codec (when present) = 6th argument of h_gzip = QTextCodec::setCodecForLocale, "
                "the records are then written as toLocal8Bit() in that codec; startup mode: write them with rotation off, restart the sink with "
                "RotationOnStartup|Compression, write 'z'; size mode: Compression, max size L")
    return d


def evaluate_case(c, res, tmp_paths):
    """Python verdicts for one finished case and the model command lines for it"""
    out = {'bad': [], 'model_lines': [], 'gz': []}
    if res['rc'] != 0:
        out['bad'].append(('crash', 'harness exited with %s: %s' % (res['rc'], res['stderr'])))
        return out
    files, exp = res['files'], res['expected']
    gz = [f for f in files if f.endswith('.gz')]
    if c.get('codec'):
        probe = '\u00e9\u20ac'.encode(CODECS[c['codec']][0], 'replace').hex()
        if res.get('codec_probe') != probe:
            out['harness'] = 'locale codec %s is not in force in the harness: U+00E9 U+20AC -> %s, expected %s' % (c['codec'], res.get('codec_probe'), probe)
            return out
        if c['mode'] == 'size':
            # every rotated file of the history: the snapshot of the replaced file must be what the records written
            # since the previous rotation encode to in this codec (the whole history = concatenation, in order)
            whole = b''.join(exp[g[:-3]] for g in sorted(gz, key=lambda n: (n.split('.')[-4], int(n.split('.')[-3]))) if g[:-3] in exp)
            if not content_of(c['records'], c['codec']).startswith(whole) or (gz and not whole):
                out['bad'].append(('snapshot', 'the rotated files do not hold the records written, encoded in %s (harness/encoding problem?)' % c['codec']))
    if c['mode'] == 'blocked':
        # no .gz can be created: the rotated original must stay, with exactly the old content
        plains = [f for f in files if re.match(r'app\.\d{4}-\d\d-\d\d\.\d+\.log$', f)]
        held = [f for f in plains if files[f] == c['raw']]
        if gz:
            out['bad'].append(('blocked-gz', 'a .gz file appeared although its name is occupied by a directory: %s' % gz))
        if not held:
            out['bad'].append(('original-lost', 'creating the .gz failed (its name is a directory) and the rotated original is gone or changed: '
                               'directory has %s, the %d bytes of the old log are in no file' % (sorted(files) + res.get('subdirs', []), len(c['raw']))))
        return out
    if c['mode'] in ('startup', 'raw'):
        want = c['raw'] if c['mode'] == 'raw' else content_of(c['records'], c.get('codec'))
        if len(gz) != 1:
            out['bad'].append(('no-gz', 'expected exactly one .gz after the start-up rotation, directory has %s' % sorted(files)))
        for g in gz:
            if exp.get(g[:-3]) != want:
                out['bad'].append(('snapshot', 'the file that was rotated did not hold the records written (harness/encoding problem?)'))
    if c['mode'] == 'leftover':
        x = c['planted']
        ok_plain = files.get(x) == c['raw']
        ok_gz = x + '.gz' in files and not check_gz(x + '.gz', files[x + '.gz'], c['raw'], py_decode(files[x + '.gz']))
        if not (ok_plain or ok_gz):
            out['bad'].append(('leftover-lost', 'a rotated original next to a half-written .gz (left by a run killed while compressing) is destroyed by the '
                               'next sink: %s is %s and its .gz is %s; directory %s' % (x, 'gone' if x not in files else 'changed',
                               'absent' if x + '.gz' not in files else 'not a complete gzip of it', sorted(files))))
        if sum(1 for f in gz if f != x + '.gz') != 2:
            out['bad'].append(('no-gz', 'expected two rotations with compression after the planted files, directory has %s' % sorted(files)))
        gz = [f for f in gz if f != x + '.gz']
    for g in gz:
        plain = g[:-3]
        e = exp.get(plain)
        if e is None:
            out['bad'].append(('snapshot', 'no snapshot for ' + g)); continue
        facts = py_decode(files[g])
        bad = check_gz(g, files[g], e, facts)
        path = os.path.join(res['dir'], 'log', g)
        if not bad and not gzip_cli_ok(path):
            bad.append(('gz-invalid', 'gzip -t rejects the file'))
        if plain in files:
            bad.append(('original-kept', 'the uncompressed file is still present next to a finished .gz'))
        out['bad'] += bad
        # model: header/trailer for the expected content, and the extracted reader on the file
        pe = os.path.join(res['dir'], plain + '.expected'); open(pe, 'wb').write(e)
        pi = os.path.join(res['dir'], plain + '.inflated'); open(pi, 'wb').write(facts['inflated'] or b'')
        if not c.get('nomodel'):
            out['model_lines'].append('T @' + pe)
            out['model_lines'].append('G @%s 10 %d @%s @%s' % (path, facts['consumed'], pi, pe))
        out['gz'].append({'name': g, 'nomodel': bool(c.get('nomodel')), 'expected_len': len(e), 'facts': facts, 'blob_len': len(files[g]),
                          'header': facts['header'], 'trailer': facts['trailer'], 'py_bad': [k for k, _ in bad],
                          'sha': hashlib.sha1(e).hexdigest()})
    # unrotated plain files left over must not coexist with their .gz (checked above); active file is free
    return out


def shrink_records(impl, c, kind):
    """a smaller record list (then shorter records) on which the real sink still produces a finding of this kind"""
    def fails(recs):
        if not recs:
            return False
        cc = dict(c, records=list(recs))
        res = run_case(impl, cc)
        try:
            return any(k == kind for k, _ in evaluate_case(cc, res, None)['bad'])
        finally:
            shutil.rmtree(res['dir'], ignore_errors=True)
    if not fails(c['records']):
        return c                                     # found by the model-side oracle only: keep the case as it is
    recs = vlib.shrink_list(c['records'], fails, max_steps=80)
    for i in range(len(recs)):                      # shorten each surviving record: halve while it still fails
        for _ in range(12):
            r = recs[i]
            if len(r) <= 1:
                break
            cand = [recs[:i] + [h] + recs[i + 1:] for h in (r[:len(r) // 2], r[len(r) // 2:])]
            nxt = next((x for x in cand if fails(x)), None)
            if nxt is None:
                break
            recs = nxt
    if len(content_of(recs)) >= c['size']:
        return c
    return dict(c, records=recs, size=len(content_of(recs)), shrunk_from=c['size'])


def qcompress_leg(chk, impl, model, level):
    """Qt's framing of qCompress and the slice: model body_of(qCompress d) must be the raw deflate stream"""
    rng = chk.rng
    datas = [b'a', b'\n', b'ab', bytes(range(256)), b'\0' * 5000, os_random(rng, 70000), b'hello world\n' * 3000]
    d = tempfile.mkdtemp(prefix='c08q_', dir='/tmp')
    try:
        rc, out, err = vlib.run_lines(impl, ['Q %d %s' % (level, x.hex()) for x in datas], [os.path.join(d, 'log'), '0', '0', '0', 'u'])
        zs = [bytes.fromhex(l[2:]) for l in out if l.startswith('Q ')]
        if rc != 0 or len(zs) != len(datas):
            chk.broke('qCompress probe failed', {'kind': 'correspondence', 'rc': rc, 'stderr': err[-300:]}); return 0
        lines = []
        for i, z in enumerate(zs):
            p = os.path.join(d, 'z%d' % i); open(p, 'wb').write(z); lines.append('S @' + p)
        rc, mo, _ = run_model(model, lines)
        n = 0
        for x, z, m in zip(datas, zs, mo):
            n += 1
            body = b'' if m == '-' else bytes.fromhex(m)
            ok_frame = (z[:4] == struct.pack('>I', len(x)) and (z[4] * 256 + z[5]) % 31 == 0 and (z[4] & 15) == 8
                        and z[-4:] == struct.pack('>I', zlib.adler32(x)) and len(z) > 10)
            o = zlib.decompressobj(-15)
            try:
                back = o.decompress(body) + o.flush(); clean = o.eof and o.unused_data == b''
            except Exception:
                back, clean = None, False
            if not ok_frame:
                chk.broke('qCompress framing differs from the stated hypothesis (be32 length, 2-byte zlib header, deflate, be32 Adler-32)',
                          {'kind': 'oracle-hypothesis', 'data_hex': x[:64].hex(), 'qcompress_hex': z[:32].hex()})
            elif body != z[6:-4] or back != x or not clean:
                chk.broke('model slice of the qCompress output is not the raw deflate stream', {'kind': 'correspondence', 'data_hex': x[:64].hex()})
        return n
    finally:
        shutil.rmtree(d, ignore_errors=True)


def concurrent_leg(chk, impl, model):
    """two independent sinks on different files, each confined to its own thread, compress pre-written multi-MiB files at
    the same time (released together by a barrier): both .gz must carry the CRC/ISIZE of their own file and verify"""
    rng = chk.rng
    thorough = chk.tier == 'thorough'
    rounds, size = (6, 4 << 20) if thorough else (2, 1 << 20)
    top = tempfile.mkdtemp(prefix='c08c_', dir='/tmp')
    n = 0
    try:
        lines, datas = [], []
        for r in range(rounds):
            pair = []
            for x in 'ab':
                d = os.path.join(top, 'r%d%s' % (r, x)); os.makedirs(d)
                rseed = rng.randrange(1 << 30)
                data = gen_raw('mixed' if r % 2 else 'urandom', size + rng.randint(0, 70000), rseed)
                open(os.path.join(d, 'app.log'), 'wb').write(data)
                pair.append(d); datas.append((d, data, rseed, r))
            lines.append('C %s %s' % tuple(pair))
        rc, out, err = vlib.run_lines(impl, lines, [os.path.join(top, 'main'), '0', '0', '0', 'u'], timeout=600)
        if rc != 0 or out.count('C') != rounds:
            chk.fail('two sinks compressing concurrently: the process failed', {'kind': 'concurrent', 'rc': rc, 'stderr': err[-300:]}, kind='concurrent')
            return 0
        mlines = []
        for d, data, rseed, r in datas:
            pe = os.path.join(d, 'expected'); open(pe, 'wb').write(data)
            mlines.append('T @' + pe)
        half = (len(mlines) + 1) // 2
        with ThreadPoolExecutor(max_workers=4) as ex:
            parts = list(ex.map(lambda ls: run_model(model, ls)[1], [mlines[i::4] for i in range(4)]))
        mo = [None] * len(mlines)
        for i in range(4):
            for j, v in enumerate(parts[i]):
                mo[i + 4 * j] = v
        reported = False
        for (d, data, rseed, r), m in zip(datas, mo):
            n += 1
            gz = [f for f in os.listdir(d) if f.endswith('.gz')]
            rep = {'kind': 'concurrent', 'round': r, 'size': len(data), 'rseed': rseed, 'rounds': rounds,
                   'how': 'h_gzip command "C <dirA> <dirB>": two threads, one RotatingFileSink(RotationOnStartup|Compression) each on its own '
                          'pre-written app.log (checks.c08.gen_raw), started together; see checks.c08.concurrent_leg'}
            bad = []
            if len(gz) != 1:
                bad.append(('no-gz', 'no .gz produced: %s' % sorted(os.listdir(d))))
            else:
                blob = open(os.path.join(d, gz[0]), 'rb').read()
                facts = py_decode(blob)
                bad = check_gz(gz[0], blob, data, facts)
                if not bad and not gzip_cli_ok(os.path.join(d, gz[0])):
                    bad.append(('gz-invalid', 'gzip -t rejects the file'))
                t = (m or '').split()
                rep.update(impl_trailer=facts['trailer'], model_trailer=t[1] if len(t) == 3 else None)
                if len(t) == 3 and (facts['header'], facts['trailer']) != (t[0], t[1]) and not bad:
                    bad.append(('gz-trailer', 'trailer %s differs from the model %s' % (facts['trailer'], t[1])))
            if bad and not reported:
                reported = True
                chk.fail('two independent sinks compressing at the same time (round %d, %d bytes): %s' % (r, len(data), bad[0][1]), rep, kind='concurrent')
        return n
    finally:
        shutil.rmtree(top, ignore_errors=True)


def os_random(rng, n):
    return bytes(rng.getrandbits(8) for _ in range(n))


TRACE = 'trace=openat,write,close,renameat2,rename,link,unlink,unlinkat'


def removal_leg(chk, crash):
    """kill the process just before the FIRST unlink of a compressing rotation (retention off, so it is the
    removal of the original): the .gz on disk must already be a complete gzip of the original, which is still there"""
    n = 0
    sizes = [[9] * 3, [5000] * 5, [3000] * 30]
    if chk.tier == 'thorough':
        sizes += [[40000] * 8, [7] * 2, [100000] * 3]
    for sz in sizes:
        d = tempfile.mkdtemp(prefix='c08k_', dir='/tmp')
        try:
            L = sum(sz[:-1]) + 1
            cmd = ['strace', '-f', '-o', os.path.join(d, 'tr.txt'), '-e', TRACE, '-e', 'inject=unlink,unlinkat:signal=SIGKILL:when=1',
                   crash, os.path.join(d, 'log'), str(L), '0', '4', '0', ','.join(map(str, sz))]
            p = subprocess.run(cmd, stdout=subprocess.PIPE, stderr=subprocess.PIPE, timeout=120)
            files = {f: open(os.path.join(d, 'log', f), 'rb').read() for f in os.listdir(os.path.join(d, 'log'))}
            rep = {'kind': 'original-removed-early', 'record_sizes': sz, 'L': L, 'N': 0, 'options': 4,
                   'how': 'h_crash under strace -e inject=unlink:signal=SIGKILL:when=1', 'files': {f: len(b) for f, b in files.items()}}
            n += 1
            if p.returncode == 0:
                chk.broke('no unlink happened in a compressing rotation (the original is never removed?)', rep); continue
            plains = [f for f in files if re.match(r'app\.\d{4}-\d\d-\d\d\.\d+\.log$', f)]
            gzs = [f for f in files if f.endswith('.gz')]
            if len(plains) == 1 and gzs == [plains[0] + '.gz']:
                facts = py_decode(files[gzs[0]])
                bad = check_gz(gzs[0], files[gzs[0]], files[plains[0]], facts)
                if bad:
                    chk.fail('at the moment the original is unlinked the .gz is not yet a complete gzip of it: ' + bad[0][1], rep, kind='original-removed-early')
            elif not plains:
                # the first unlink was not the original: the original vanished earlier by other means, or was never renamed
                gz_ok = gzs and all(not check_gz(g, files[g], pygzip.decompress(files[g]) if _try(files[g]) else b'', py_decode(files[g])) for g in gzs)
                if not gz_ok:
                    chk.fail('the original is gone while the .gz is incomplete', rep, kind='original-removed-early')
            else:
                chk.broke('unexpected directory at the first unlink', rep)
        finally:
            shutil.rmtree(d, ignore_errors=True)
    return n


def _try(b):
    try:
        pygzip.decompress(b); return True
    except Exception:
        return False


def run():
    chk = vlib.Check('C08')
    chk.trusted = ['Coq 8.16.1 kernel; vm_compute on the closed terms cfg_goodb src_gz and the non-vacuity example; no native_compute',
                   'axioms: none (every Print Assumptions: Closed under the global context)',
                   'tools/s2c/gzip.py, crash.py (rotatingfilesink.cpp -> SrcGzip.v: constants, trailer order, byte order, step order)',
                   'extraction ExtrOcamlBasic, no Extract Constant; ocaml/drv_gzip.ml (inflate oracle = Python zlib result passed in)',
                   'harness/h_gzip.cpp, h_crash.cpp; Python zlib/gzip, gzip(1); strace as crash injector',
                   'zlib deflate/inflate and qCompress framing are hypotheses of the theorems, validated on every sample']
    chk.assumptions = ['inflate (deflate d ++ rest) = Some (d, rest) for zlib (checked on every sampled file with Python zlib.decompressobj(-15))',
                       'a deflate stream is never empty; the zlib header is two bytes; qCompress = be32 length ++ zlib stream (checked on samples)',
                       'file bytes are < 256 (wf_bytes); the rotated file is non-empty (rotate() is reached only with size > 0)',
                       'records written through the sink are toLocal8Bit() of the text: UTF-8 (incl. NUL, control bytes, newlines) and, in the codec sub-runs, '
                       'single/double-byte non-UTF-8 locale codecs with non-ASCII text (file bytes != UTF-8 length of the text); ARBITRARY bytes (random, CR/CRLF, 0x00/0xFF runs, '
                       'invalid UTF-8, already-compressed data) are covered by pre-existing active files rotated and compressed at start-up']
    chk.proof(vlib.proof_leg('Properties_C08', ['gzip']))
    model = vlib.build_model('gzip')
    impl = vlib.build_harness('gzip')
    crash = vlib.build_harness('crash')
    rc, mo, _ = run_model(model, ['C'])
    model_cfg = mo[0].split() if mo else ['?', '?']
    try:
        level = int(re.search(r'g_level := (\d+)', open(os.path.join(vlib.TH, 'SrcGzip.v')).read()).group(1))
    except Exception:
        level = 5
    cases = make_cases(chk)
    with ThreadPoolExecutor(max_workers=8) as ex:
        results = list(ex.map(lambda c: run_case(impl, c), cases))
    dirs = [r['dir'] for r in results]
    try:
        evals = [evaluate_case(c, r, None) for c, r in zip(cases, results)]
        # model runs, balanced into batches
        order = sorted(range(len(cases)), key=lambda i: -cases[i]['size'])
        nb = 8
        batches = [[] for _ in range(nb)]
        load = [0] * nb
        for i in order:
            b = load.index(min(load)); batches[b].append(i); load[b] += cases[i]['size'] + 2000
        def run_batch(idx):
            lines = [l for i in idx for l in evals[i]['model_lines']]
            if not lines:
                return idx, []
            rc, out, err = run_model(model, lines)
            return idx, out
        with ThreadPoolExecutor(max_workers=nb) as ex:
            outs = list(ex.map(run_batch, batches))
        model_out = {}
        for idx, out in outs:
            k = 0
            for i in idx:
                n = len(evals[i]['model_lines'])
                model_out[i] = out[k:k + n]; k += n
        n_gz = n_oracle = n_zlib_only = 0
        disagree, falsified = [], []
        for i, (c, ev) in enumerate(zip(cases, evals)):
            mo_i = model_out.get(i, [])
            for j, g in enumerate(ev['gz']):
                n_gz += 1
                if g.get('nomodel'):
                    n_zlib_only += 1      # judged by Python zlib / gzip / gzip -t only in this tier (model run in thorough)
                    continue
                t = mo_i[2 * j].split() if len(mo_i) > 2 * j else []
                o = mo_i[2 * j + 1].split() if len(mo_i) > 2 * j + 1 else []
                if len(t) != 3 or len(o) != 2:
                    chk.broke('model driver gave no answer', {'kind': 'correspondence', 'case': describe(c)}); continue
                n_oracle += 1
                g['model_header'], g['model_trailer'], g['rfc_trailer'], g['oracle'] = t[0], t[1], t[2], o
                if o[0] != '1':
                    falsified.append((i, g, 'extracted RFC 1952 reader: gunzip = %s' % o[1]))
                if (g['header'], g['trailer']) != (t[0], t[1]):
                    disagree.append((i, g))
            for k, txt in ev['bad']:
                falsified.append((i, {'name': '-', 'py_bad': [k]}, txt))
            if ev.get('harness'):
                chk.broke(ev['harness'], {'kind': 'harness', 'case': describe(c)})
        seen = set()
        for i, g, txt in sorted(falsified, key=lambda t: cases[t[0]]['size']):
            kind = (g.get('py_bad') or ['gz-invalid'])[0]
            if kind in seen:
                continue
            seen.add(kind)
            c = cases[i]
            if c['mode'] in ('size', 'startup') and c['size'] <= 70001 and kind.startswith('gz-'):
                c = shrink_records(impl, c, kind)
                if 'shrunk_from' in c:
                    txt += ' [shrunk from %d bytes to the records below]' % c['shrunk_from']
            rep = describe(c, True)
            rep.update({'kind': kind, 'file': g.get('name'), 'impl_header': g.get('header'), 'impl_trailer': g.get('trailer'),
                        'model_header': g.get('model_header'), 'model_trailer': g.get('model_trailer'),
                        'oracle': g.get('oracle'), 'falsified_files': len(falsified)})
            chk.fail('%s (%s content, %d bytes): %s' % (g.get('name'), c['kind'], c['size'], txt), rep, kind=kind)
        if disagree and not falsified:
            i, g = disagree[0]
            chk.broke('correspondence: header/trailer written by compressFile differ from the model on %d files, e.g. %s vs %s' % (
                len(disagree), g['header'] + ' ' + g['trailer'], g['model_header'] + ' ' + g['model_trailer']),
                {'kind': 'correspondence', 'case': describe(cases[i], True)})
        if model_cfg != ['1', '1']:
            chk.broke('extracted model: cfg_goodb src_gz / removed_lastb src_compress_steps = %s' % model_cfg, {'kind': 'translator-config', 'values': model_cfg})
        n_q = qcompress_leg(chk, impl, model, level)
        n_k = removal_leg(chk, crash)
        n_c = concurrent_leg(chk, impl, model)
        allg = [g for ev in evals for g in ev['gz']]
        n_locdiff = sum(1 for c in cases if c.get('codec') and content_of(c['records'], c['codec']) != content_of(c['records']))
        sizes = [g['expected_len'] for g in allg]
        chk.cov.update({
            'evaluations': n_gz + n_q + n_k + n_c + sum(1 for c in cases if c['mode'] == 'blocked'), 'concurrent_sink_files': n_c, 'gz_files_checked': n_gz, 'oracle_evaluated_on_impl_files': n_oracle, 'judged_by_zlib_only': n_zlib_only,
            'oracle_falsified': len(falsified), 'disagreements_model_vs_impl': len(disagree),
            'qcompress_framing_samples': n_q, 'kill_at_unlink_runs': n_k,
            'distinct_nontrivial': len({g['sha'] for g in allg if g['expected_len'] >= 2}),
            'rule': 'one evaluation = one .gz written by the real sink (header+trailer vs model, body inflated by Python zlib -15 vs the '
                    'replaced file, gzip.decompress, gzip -t, extracted gunzip with that inflate result) + qCompress framing samples + '
                    'kill-before-unlink runs; non-trivial = distinct content of >= 2 bytes',
            'kinds': {k: sum(1 for c in cases if c['kind'] == k) for k in KINDS + RAW_KINDS},
            'modes': {m: sum(1 for c in cases if c['mode'] == m) for m in ('startup', 'size', 'raw', 'blocked', 'leftover')},
            'locale_codecs': {k: sum(1 for c in cases if c.get('codec') == k) for k in CODECS},
            'gz_files_written_under_non_utf8_codec': sum(len(ev['gz']) for c, ev in zip(cases, evals) if c.get('codec')),
            'non_utf8_files_whose_byte_count_differs_from_utf8_length': n_locdiff,
            'size_histogram': {'>=4MiB': sum(1 for s in sizes if s >= (4 << 20)), '1': sum(1 for s in sizes if s == 1), '2-8191': sum(1 for s in sizes if 2 <= s < 8192),
                               '8192': sum(1 for s in sizes if s == 8192), '8193-65535': sum(1 for s in sizes if 8192 < s < 65536),
                               '65536': sum(1 for s in sizes if s == 65536), '65537-1MiB': sum(1 for s in sizes if 65536 < s < (1 << 20)),
                               '>=1MiB': sum(1 for s in sizes if s >= (1 << 20))},
            'boundary_hits': {'multiple_of_8192': sum(1 for s in sizes if s % 8192 == 0), 'one_past_8192k': sum(1 for s in sizes if s % 8192 == 1),
                              'one_below_8192k': sum(1 for s in sizes if s % 8192 == 8191), 'crosses_64KiB': sum(1 for s in sizes if s > 65536)},
            'first_deflate_block_type': {str(b): sum(1 for g in allg if g['facts']['btype'] == b) for b in (0, 1, 2)},
            'max_content_bytes': max(sizes) if sizes else 0, 'total_content_bytes': sum(sizes)})
        chk.samples = [{'case': describe(cases[i]), 'gz': [{k: g[k] for k in ('name', 'expected_len', 'blob_len', 'header', 'trailer', 'model_trailer', 'oracle') if k in g}
                                                         for g in evals[i]['gz'][:2]]} for i in (0, len(cases) // 2, len(cases) - 1)]
    finally:
        for d in dirs:
            shutil.rmtree(d, ignore_errors=True)
    return chk.finish()


def replay(path):
    r = json.load(open(path))['replay']
    if isinstance(r, list):
        r = r[0]
    if 'record_sizes' in r:
        print(json.dumps(r, indent=1)); print('re-run: checks.c08.removal_leg'); return 0
    c = r.get('case', r)
    if 'content' not in c or 'rseed' not in c:
        print(json.dumps(r, indent=1)); return 0
    vlib.gen_src(['gzip'])
    model = vlib.build_model('gzip'); impl = vlib.build_harness('gzip')
    kind = c['content']
    case = {'mode': c['mode'], 'kind': kind, 'size': c['size'], 'rseed': c['rseed'], 'L': c.get('L', 0), 'N': c.get('N', 0)}
    if c.get('codec'):
        case['codec'] = c['codec']
    if c['mode'] in ('raw', 'blocked', 'leftover'):
        case['raw'] = bytes.fromhex(r['raw_hex']) if r.get('raw_hex') else gen_raw(kind, c['size'], c['rseed'])
        case['records'] = []
    elif r.get('records_utf8_hex'):
        case['records'] = [bytes.fromhex(h).decode('utf-8') for h in r['records_utf8_hex']]
    else:
        # the content kind is stored under 'kind' of the case description
        case['records'] = gen_records(kind, c['size'], c['rseed'], c.get('codec'))
    res = run_case(impl, case)
    try:
        ev = evaluate_case(case, res, None)
        rc, mo, _ = run_model(model, ev['model_lines'])
        print('case           ', {k: case[k] for k in ('mode', 'kind', 'size', 'rseed', 'L', 'N', 'codec') if k in case})
        print('directory      ', {f: len(b) for f, b in res['files'].items()})
        for j, g in enumerate(ev['gz']):
            print('implementation ', g['name'], 'header', g['header'], 'trailer', g['trailer'], 'python verdicts', g['py_bad'])
            print('model          ', mo[2 * j] if len(mo) > 2 * j else None, '| oracle', mo[2 * j + 1] if len(mo) > 2 * j + 1 else None)
        print('python findings', ev['bad'])
    finally:
        shutil.rmtree(res['dir'], ignore_errors=True)
    return 0
