"""C20 — The single-header distribution is exactly the amalgamation of the sources."""
import concurrent.futures, difflib, json, os, re, shutil, subprocess, sys, tempfile
import vlib

META = {
    'id': 'C20',
    'level': 'translation_validation',
    'technique': 'per-tree translation validation: the committed qtlogger.h is compared byte for byte with the output of the '
                 'project generator (run on a scratch copy) and of a Gallina model of that generator (extracted), and the two '
                 'with each other, also on edited copies of the tree; Coq theorems about the generator model for all trees',
    'text': 'The property is an equality per state of the tree, so it is decided on every run for the current tree: (i) extracted '
            'amalgamator(src) = qtlogger.h, (ii) tools/gen_qtlogger.h.py(src) = qtlogger.h, (iii) (i) = (ii); the forall-content '
            '(Properties_C20.v) is about the generator model: every included file is emitted once, every resolved include is '
            'emitted, no character outside include directives is dropped by the expansion. Because a byte-identical header can '
            'still behave differently from the library build (once-only inclusion landing inside another feature\'s #ifdef), the '
            'header alone and the library sources are also compiled under every single feature macro and must agree; and, '
            'independently of generator and model, the header must carry the block of every library source exactly once and a '
            'translation unit including it must define every function the library objects define (nm). The behaviour clause is also '
            'checked on whole processes (harness/h_header_exit.cpp: the same program - logging set up and used by a global object before '
            'main, file sinks left unflushed at return/exit/qFatal, boundary arguments of the public constructors / configure() / sendToFile(): rotation limits '
            '-1/0/1/2, the empty path, the empty pattern, null handler pointers - built against the library as the project\'s CMake build produces it '
            '(-DQT_NO_DEBUG in the library only), header-only with default user flags (assertions live) and header-only with -DQT_NO_DEBUG / typical user flags; '
            'exit status or signal, stdout, stderr and the files left behind must be identical) and statically on the conditional compilation of the sources: '
            'every #if/#ifdef group is observed with g++ -E in the library build (-DQTLOGGER_STATIC -DQTLOGGER_LIBRARY) and in a header-only '
            'user\'s build; a group that is entered in one and skipped in the other must be on the list of known switches '
            '(KNOWN_CONDITIONALS, a reason per entry); an extracted Gallina model of conditional groups / define / include / pragma once '
            'predicts the groups g++ enters, in order, for every translation unit, and C20_branches_confined_to_known_groups proves for '
            'every tree that the decision the check evaluates implies that both builds see the same text outside the known groups. '
            'Independently of generator and model the COMPILED text is compared (checks/c20_decl.py): g++ -E of {src/qtlogger/qtlogger.h + every library .cpp} and of '
            '{qtlogger.h} under the same -D flags, own text only (line markers), cut into namespace-scope declarations, compared as multisets - a body the generator '
            'pasted into a comment shows up as declarations the header lacks (a probe program "using QtLogger::<name>;" is compiled both ways); the Gallina side of that: '
            'a comment lexer, the decidable predicate includes_outside_comments (evaluated by the extracted driver on the tree) and C20_bodies_start_in_code. '
            'And, because the library is a static archive while the header is one translation unit, every start-up function (.init_array) of every library object is '
            'disassembled (checks/c20_init.py): one that refers to anything beyond the C++ runtime bookkeeping runs in every header-only program but only in the library '
            'programs that happen to link the object; it must be on a reasoned known list, otherwise the same program is linked against the archive / all objects / '
            'header-only and the difference is shown (nm, gdb).',
    'note': 'Trusted: Coq 8.16.1 kernel, no axioms; extraction (ExtrOcamlBasic) + ocaml/drv_amalgam.ml (loads src/ into the '
            'abstract tree); python3 running tools/gen_qtlogger.h.py on a scratch copy; checks/c20.py (byte comparison, diff). '
            'The model is hand-written from the generator (regexes, os.path.join/abspath/exists, glob, sorted): its tie to the '
            'generator is leg (iii) on the real tree and on edited trees, not a proof. Outside the model: includes that resolve '
            'outside src/ (absolute paths, above the repository root), CR line ends (universal newlines), Unicode white space '
            'in directives, symbolic links, a repository path containing a component called build. Conditional-group model: tracks the '
            'QTLOGGER_* macros only (conditions mentioning anything else are opaque: their truth comes from what g++ -E did), sees '
            'directives only - that a known chain guards nothing but its define is a regex in checks/c20.py; macro EXPANSION differences '
            '(QTLOGGER_DECL_SPEC = inline, QTLOGGER_EXPORT) are outside it. The scanner/translator checks/c20_cond.py and the marker '
            'pragmas inserted into a scratch copy are trusted; their tie to g++ is the per-translation-unit comparison. Whole-process leg: '
            'differential only (library vs header-only), digits and the scratch path are canonicalised; link order application-object-'
            'first, static library after it (GNU ld initialisation order).',
    'design_ref': 'DESIGN.md section 4, C20',
    'engine': 'coq+extraction+python-generator',
}

GEN = 'tools/gen_qtlogger.h.py'


def scratch_copy(repo):
    """copy what the generator reads (src/ and the generator itself) to a fresh directory outside /repo and /verif"""
    top = tempfile.mkdtemp(prefix='c20_')
    shutil.copytree(os.path.join(repo, 'src'), os.path.join(top, 'src'), symlinks=True)
    os.makedirs(os.path.join(top, 'tools'))
    shutil.copy(os.path.join(repo, GEN), os.path.join(top, GEN))
    return top


def run_generator(top):
    """the project's generator on the scratch copy (it overwrites <top>/qtlogger.h in place)"""
    out = os.path.join(top, 'qtlogger.h')
    if os.path.exists(out):
        os.remove(out)
    rc, so, se = vlib.sh([sys.executable, os.path.join(top, GEN)], cwd=top, timeout=120)
    if rc != 0 or not os.path.exists(out):
        return None, (se or so)[-800:]
    return open(out, 'rb').read(), ''


def run_model(model, top):
    fd, tmp = tempfile.mkstemp(prefix='c20_model_', suffix='.h')
    os.close(fd)
    try:
        rc, so, se = vlib.sh([model, top, tmp], timeout=300, env={'OCAMLRUNPARAM': 's=4M'})
        if rc != 0:
            return None, {}, (se or so)[-800:]
        info = {'source': [], 'emitted': [], 'included': [], 'include_in_comment': []}
        for ln in so.splitlines():
            k, _, v = ln.partition(' ')
            if k in info:
                info[k].append(bytes.fromhex(v).decode('utf-8', 'replace'))
            elif k in ('files', 'bytes', 'starved', 'directives', 'unresolved', 'comments_ok'):
                info[k] = int(v)
        return open(tmp, 'rb').read(), info, ''
    finally:
        os.remove(tmp)


def first_hunk(expected, actual, exp_name, act_name):
    """first differing hunk (line based) + the source file whose block the line lies in"""
    if expected == actual:
        return None
    a = expected.decode('utf-8', 'replace').split('\n')
    b = actual.decode('utf-8', 'replace').split('\n')
    i = 0
    while i < min(len(a), len(b)) and a[i] == b[i]:
        i += 1
    sm = difflib.SequenceMatcher(None, a[i:i + 400], b[i:i + 400], autojunk=False)
    op = next((o for o in sm.get_opcodes() if o[0] != 'equal'), ('replace', 0, 1, 0, 1))
    _, i1, i2, j1, j2 = op
    # innermost open "// name" ... "// end name" block of the generated text at that line
    stack = []
    for ln in b[:i + j1 + 1]:
        m = re.match(r'// end (\S+)$', ln)
        if m and stack and stack[-1] == m.group(1):
            stack.pop()
        else:
            m = re.match(r'// (\S+\.(?:h|cpp))$', ln)
            if m:
                stack.append(m.group(1))
    return {'line': i + 1, 'in_block_of_source_file': stack[-1] if stack else None,
            exp_name: a[i + i1:i + max(i2, i1 + 1)][:8], act_name: b[i + j1:i + max(j2, j1 + 1)][:8],
            'sizes': {exp_name: len(expected), act_name: len(actual)}}


# ---- "header-only users get precisely the behaviour of the library build": same verdict of the compiler
#      under every single feature macro the sources test -------------------------------------------------
NOT_FEATURES = {'QTLOGGER_DECL_SPEC', 'QTLOGGER_LIBRARY', 'QTLOGGER_STATIC', 'QTLOGGER_EXPORT'}


def feature_macros(repo):
    """QTLOGGER_* macros tested by preprocessor conditionals of the sources -> {macro: [files mentioning it]}"""
    root = os.path.join(repo, 'src', 'qtlogger')
    found = {}
    for d, _, fs in os.walk(root):
        for f in fs:
            if not f.endswith(('.h', '.cpp')):
                continue
            p = os.path.join(d, f)
            txt = open(p, encoding='utf-8', errors='replace').read()
            for line in re.findall(r'^[ \t]*#[ \t]*(?:if|ifdef|ifndef|elif)\b.*$', txt, re.M):
                for m in re.findall(r'QTLOGGER_[A-Z0-9_]+', line):
                    if m not in NOT_FEATURES:
                        found.setdefault(m, set())
            for m in found:
                if m in txt and p.endswith('.cpp'):
                    found[m].add(p)
    # second pass so that a macro discovered late still gets all its files
    for d, _, fs in os.walk(root):
        for f in fs:
            if f.endswith('.cpp'):
                p = os.path.join(d, f)
                txt = open(p, encoding='utf-8', errors='replace').read()
                for m in found:
                    if m in txt:
                        found[m].add(p)
    return {m: sorted(v) for m, v in sorted(found.items())}


def qt_cflags():
    mods = ['Qt5Core'] + (['Qt5Network'] if vlib.sh('pkg-config --exists Qt5Network')[0] == 0 else [])
    return vlib.sh('pkg-config --cflags ' + ' '.join(mods))[1].split()


def syntax_check(args, obj=None, keep_inline=False):
    """compile one translation unit: syntax only, or to the object file obj"""
    mode = ['-fsyntax-only'] if obj is None else ['-c', '-O0', '-o', obj] + (['-fkeep-inline-functions'] if keep_inline else [])
    rc, so, se = vlib.sh(['g++', '-std=c++17', '-fPIC', '-w'] + mode + args, timeout=600)
    err = [l for l in se.splitlines() if 'error' in l]
    return rc == 0, (err[0] if err else se.strip().splitlines()[0] if se.strip() else '')[:300]


def defined_symbols(obj, kinds=None):
    """demangled QtLogger:: symbols an object file defines (kinds: nm type letters to keep, None = all)"""
    rc, so, se = vlib.sh(['nm', '-C', '--defined-only', obj], timeout=120)
    out = set()
    for ln in so.splitlines():
        m = re.match(r'[0-9a-f]* +(\S) (.*)$', ln)
        if m and 'QtLogger::' in m.group(2) and (kinds is None or m.group(1) in kinds):
            out.add(re.sub(r' \[clone [^\]]*\]', '', m.group(2)))
    return out


def source_files(repo):
    """every .h/.cpp of the library (not below a build or hidden directory)"""
    root = os.path.join(repo, 'src', 'qtlogger')
    out = []
    for d, dirs, fs in os.walk(root):
        dirs[:] = [x for x in dirs if x != 'build' and not x.startswith('.')]
        out += [os.path.join(d, f) for f in fs if f.endswith(('.h', '.cpp')) and not f.startswith('.')]
    return sorted(out)


def build_lists_leg(chk, repo):
    """The generator appends EVERY .cpp below src/qtlogger; the library is built from explicit lists
    (src/qtlogger/CMakeLists.txt for cmake, src/qtlogger/qtlogger.pri for qmake).  A source that is in the header
    but in no build list (or the other way round) gives header-only users other code than library users."""
    root = os.path.join(repo, 'src', 'qtlogger')
    cpps = {os.path.relpath(f, root) for f in source_files(repo) if f.endswith('.cpp')}
    res = {'cpp_files': len(cpps)}
    for name in ('CMakeLists.txt', 'qtlogger.pri'):
        path = os.path.join(root, name)
        if not os.path.exists(path):
            continue
        txt = re.sub(r'#[^\n]*', '', open(path, encoding='utf-8', errors='replace').read())
        listed = set(re.findall(r'(?<![\w./-])((?:[\w-]+/)*[\w-]+\.cpp)\b', txt))
        listed = {re.sub(r'^PWD/', '', l) for l in listed}
        missing = sorted(cpps - listed)
        extra = sorted(l for l in listed - cpps)
        res[name] = {'listed': len(listed), 'in_header_not_in_build': missing, 'in_build_not_on_disk': extra}
        if missing:
            chk.fail('the single header contains %s (the generator appends every .cpp) but %s does not build it: a program using what it '
                     'defines links header-only and not against the library' % (', '.join(missing), name),
                     {'kind': 'header-has-source-the-library-lacks', 'build_file': 'src/qtlogger/' + name, 'sources': missing},
                     kind='header-has-source-the-library-lacks')
        if extra:
            chk.broke('%s names sources that do not exist: %s' % (name, ', '.join(extra)), {'kind': 'build-list', 'build_file': name, 'sources': extra})
    chk.cov['build_lists'] = res
    return not chk.failing


def blocks_leg(chk, repo, committed):
    """oracle on the header alone (no generator, no model): every library source has its block in
    qtlogger.h exactly once: '// name' for the root sources (.cpp, qtlogger.h), '// name' ... '// end name'
    for every other header"""
    lines = committed.decode('utf-8', 'replace').split('\n')
    opens, ends = {}, {}
    for l in lines:
        m = re.match(r'// end (\S+\.(?:h|cpp))$', l)
        if m:
            ends[m.group(1)] = ends.get(m.group(1), 0) + 1
            continue
        m = re.match(r'// (\S+\.(?:h|cpp))$', l)
        if m:
            opens[m.group(1)] = opens.get(m.group(1), 0) + 1
    files = source_files(repo)
    names = {}
    for f in files:
        names.setdefault(os.path.basename(f), []).append(os.path.relpath(f, repo))
    bad = []
    for n, fl in sorted(names.items()):
        want_open = len(fl)
        want_end = 0 if (n.endswith('.cpp') or fl == ['src/qtlogger/qtlogger.h']) else len(fl)
        if opens.get(n, 0) != want_open or ends.get(n, 0) != want_end:
            bad.append({'file': fl[0] if len(fl) == 1 else fl, 'block_openers_in_header': opens.get(n, 0), 'expected': want_open,
                        'block_ends_in_header': ends.get(n, 0), 'expected_ends': want_end})
    stray = sorted(n for n in opens if n not in names)
    chk.cov['source_blocks'] = {'library_sources': len(files), 'with_exactly_one_block': len(files) - sum(len(names[os.path.basename(b['file'] if isinstance(b['file'], str) else b['file'][0])]) for b in bad),
                                'blocks_of_unknown_files': stray}
    missing = [b for b in bad if b['block_openers_in_header'] < b['expected']]
    if bad:
        b = (missing or bad)[0]
        chk.fail('qtlogger.h does not carry every library source exactly once: %s has %d block(s) in the header (expected %d)%s'
                 % (b['file'], b['block_openers_in_header'], b['expected'],
                    '; also: ' + ', '.join(str(x['file']) for x in (missing or bad)[1:8]) if len(missing or bad) > 1 else ''),
                 {'kind': 'source-missing-from-header', 'file': b['file'], 'blocks_in_header': b['block_openers_in_header'], 'expected_blocks': b['expected'],
                  'all_files_with_wrong_block_count': [x['file'] for x in bad][:20],
                  'how': "grep -c '^// %s$' /repo/qtlogger.h" % os.path.basename(b['file'] if isinstance(b['file'], str) else b['file'][0])},
                 kind='source-missing-from-header')
    if stray:
        chk.fail('qtlogger.h carries blocks of files that are not library sources: %s' % stray[:5],
                 {'kind': 'header-has-foreign-block', 'blocks': stray[:20]}, kind='header-has-foreign-block')
    return len(files)


def multi_include_leg(chk, repo):
    """the amalgamation expands every file once: a local file that the sources include more than once must be
    protected against repeated inclusion (pragma once or an include guard), otherwise the header cannot mean
    what the sources mean"""
    root = os.path.join(repo, 'src', 'qtlogger')
    allf = []
    for d, dirs, fs in os.walk(root):
        dirs[:] = [x for x in dirs if x != 'build' and not x.startswith('.')]
        allf += [os.path.join(d, f) for f in fs]
    by_base = {}
    for f in allf:
        by_base.setdefault(os.path.basename(f), []).append(f)
    incl = {}
    for f in allf:
        if not f.endswith(('.h', '.cpp', '.inc', '.hpp', '.ipp', '.tpp')):
            continue
        txt = open(f, encoding='utf-8', errors='replace').read()
        for ln, line in enumerate(txt.split('\n'), 1):
            m = re.match(r'\s*#\s*include\s+"([^"]+)"', line)
            if not m:
                continue
            inc = m.group(1)
            cands = [os.path.normpath(os.path.join(os.path.dirname(f), inc)), os.path.normpath(os.path.join(os.path.dirname(f), '..', inc)),
                     os.path.normpath(os.path.join(root, inc))]
            tgt = next((c for c in cands if os.path.isfile(c)), None)
            if tgt is None and len(by_base.get(os.path.basename(inc), [])) == 1:
                tgt = by_base[os.path.basename(inc)][0]
            if tgt:
                incl.setdefault(tgt, []).append('%s:%d' % (os.path.relpath(f, repo), ln))
    unguarded = []
    for tgt, sites in sorted(incl.items()):
        if len(sites) < 2:
            continue
        txt = open(tgt, encoding='utf-8', errors='replace').read()
        code = re.sub(r'/\*.*?\*/', '', txt, flags=re.S)
        code = '\n'.join(l for l in code.split('\n') if l.strip() and not l.strip().startswith('//'))
        guarded = bool(re.search(r'^\s*#\s*pragma\s+once\b', code, re.M)) or \
            bool(re.match(r'\s*#\s*ifndef\s+(\w+)\s*\n\s*#\s*define\s+\1\b', code)) or \
            bool(re.match(r'\s*#\s*if\s+!\s*defined\s*\(?\s*(\w+)\s*\)?\s*\n\s*#\s*define\s+\1\b', code))
        if not guarded:
            unguarded.append((os.path.relpath(tgt, repo), sites))
    chk.cov['local_files_included_more_than_once'] = sum(1 for t, s in incl.items() if len(s) > 1)
    chk.cov['of_those_without_guard'] = len(unguarded)
    for tgt, sites in unguarded[:3]:
        chk.fail('%s is included %d times by the sources (%s) and has neither #pragma once nor an include guard: the single header '
                 'expands it once only, so the later inclusions are empty in qtlogger.h' % (tgt, len(sites), ', '.join(sites[:4])),
                 {'kind': 'multiply-included-file-expanded-once', 'file': tgt, 'include_sites': sites[:10],
                  'how': "grep -c '^// %s$' /repo/qtlogger.h  (1 block, %d inclusions in the sources)" % (os.path.basename(tgt), len(sites))},
                 kind='multiply-included-file-expanded-once')
    return len(incl)


LAYOUT_PROBE = '''// does including qtlogger.h change what the user's own code means?  Same structs before and after.
#include <cstddef>
struct B1 { char c; double d; };
struct B2 { char c; int i; short s; long long l; };
struct B3 { bool b; void *p; char t[3]; };
struct B4 { short s; long double x; };
#include "qtlogger.h"
struct A1 { char c; double d; };
struct A2 { char c; int i; short s; long long l; };
struct A3 { bool b; void *p; char t[3]; };
struct A4 { short s; long double x; };
static_assert(sizeof(A1) == sizeof(B1) && alignof(A1) == alignof(B1), "struct { char; double; } is laid out differently after #include qtlogger.h");
static_assert(sizeof(A2) == sizeof(B2) && alignof(A2) == alignof(B2), "struct { char; int; short; long long; } is laid out differently after #include qtlogger.h");
static_assert(sizeof(A3) == sizeof(B3) && alignof(A3) == alignof(B3), "struct { bool; void *; char[3]; } is laid out differently after #include qtlogger.h");
static_assert(sizeof(A4) == sizeof(B4) && alignof(A4) == alignof(B4), "struct { short; long double; } is laid out differently after #include qtlogger.h");
static_assert(offsetof(A1, d) == offsetof(B1, d) && offsetof(A2, l) == offsetof(B2, l), "member offsets differ after #include qtlogger.h");
#ifdef min
#error qtlogger.h leaves a macro called min defined
#endif
#ifdef max
#error qtlogger.h leaves a macro called max defined
#endif
int main() { return 0; }
'''


def layout_leg(chk, repo):
    """a pragma (pack, ...) or macro left active at the end of the header changes the user's own declarations"""
    tu = tempfile.mkdtemp(prefix='c20_lay_')
    try:
        src = os.path.join(tu, 'probe.cpp')
        open(src, 'w').write(LAYOUT_PROBE)
        ok, err = syntax_check(['-I' + repo] + qt_cflags() + [src])
    finally:
        shutil.rmtree(tu, ignore_errors=True)
    chk.cov['user_code_layout_probe'] = 'unchanged by the include' if ok else err
    if not ok:
        chk.fail('including qtlogger.h changes the meaning of the user\'s own declarations that follow it: ' + err,
                 {'kind': 'header-changes-user-code', 'compiler_says': err,
                  'probe': 'struct P { char c; double d; } declared before and after #include "qtlogger.h": sizeof/alignof/offsetof must be equal',
                  'how': 'see LAYOUT_PROBE in checks/c20.py; g++ -std=c++17 -fsyntax-only -I/repo $(pkg-config --cflags Qt5Core) probe.cpp'},
                 kind='header-changes-user-code')
    return 1


# ---- behaviour: harnesses of other properties, library build vs header-only build, same inputs, same outputs
def hx16(s):
    if s is None:
        return '~'
    return s.encode('utf-16-be', 'surrogatepass').hex() or '-'


def pattern_line(c):
    f = [hx16(c['pat']), str(c['type']), hx16(c['msg']), hx16(c['cat']), hx16(c['file']), hx16(c['fn']), str(c['line']), str(len(c['attrs']))]
    for k, t, v in c['attrs']:
        f += [hx16(k), (t + hx16(v)) if t == 's' else (t + str(v))]
    return ' '.join(f + ['0'])


def behaviour_corpus(chk):
    rng = chk.rng
    pats = ['[%{message:*^7}]|[%{message:*^8}]|[%{type:_^9}]', '[%{message:*^6!}] [%{category:-^11}]',
            '%{if-debug}D%{endif}%{if-info}I%{endif}%{if-warning}W%{endif}%{if-critical}C%{endif}%{if-fatal}F%{endif}|%{type}|%{message}',
            '%{if-warning}warn: %{endif}%{message}', '[%{type:>8}] %{category}: %{message}', '%{message:*^12!} <%{user?}> %{line}',
            '%{shortfile}:%{line} %{function} %{message:>6}', '%{if-critical}%{file}%{endif}%{if-debug}dbg%{endif} %{message:<4!}',
            '%{type:.3} %{u?1,1}x%{message}', '%% %{message} %{if-info}i%{endif}%{if-nonsense}n%{endif}']
    cases = []
    for fn in sorted(os.listdir(os.path.join(vlib.VERIF, 'corpus', 'C12'))) if os.path.isdir(os.path.join(vlib.VERIF, 'corpus', 'C12')) else []:
        try:
            c = json.load(open(os.path.join(vlib.VERIF, 'corpus', 'C12', fn))).get('case')
            if c and not c.get('env'):
                cases.append(c)
        except Exception:
            pass
    for p in pats:
        for ty in range(5):
            cases.append({'pat': p, 'type': ty, 'msg': rng.choice(['Hello', 'a', 'ab\u00e9\U0001F600cd', '']), 'cat': rng.choice(['default', 'net.http', 'app']),
                          'file': '/a/b/c.cpp', 'fn': 'void f()', 'line': rng.randint(1, 999),
                          'attrs': [] if rng.random() < 0.5 else [['user', 's', 'admin']]})
    plines = []
    for c in cases:
        try:
            plines.append(pattern_line(c))
        except Exception:
            pass
    rules = ['net.warning=false', '*.debug=false', '*=false\n*.critical=true', 'app.*=false\napp.ui.info=true', 'net*.info=false\nnet.http=true',
             '*.fatal=false', 'default.warning=false', 'x.debug=true\n*.debug=false', 'a*b=false', 'net.http.debug=false\n*.warning=false']
    cats = ['net', 'net.http', 'app', 'app.ui', 'default', 'x', 'ab', 'a.b', '', 'network']
    clines = []
    cdir = os.path.join(vlib.VERIF, 'corpus', 'C15')
    for fn in sorted(os.listdir(cdir)) if os.path.isdir(cdir) else []:
        try:
            for c in json.load(open(os.path.join(cdir, fn))).get('cases', []):
                clines.append(hx16(c['rules']) + ' ' + ','.join(hx16(x) for x in c['categories']))
        except Exception:
            pass
    for r in rules:
        clines.append(hx16(r) + ' ' + ','.join(hx16(x) for x in cats))
    def canon_hb(o):
        k, _, rest = o.partition(' ')
        name, _, h = rest.partition(' ')
        try:
            v = bytes.fromhex(h).decode('utf-8', 'replace')
        except ValueError:
            v = h
        if k == 'T':
            v = re.sub(r'\d+', '#', re.sub(r'[0-9a-f]{32}', '<id>', v))
        return name + ' ' + v
    return {'pattern': (plines, lambda o: ' '.join((o.split(' ') + [''] * 5)[i] for i in (0, 1, 4))), 'category': (clines, lambda o: o),
            'header_behaviour': (None, canon_hb)}


USER_FLAGS = {'userflags': ['-O2', '-DQT_USE_QSTRINGBUILDER', '-DQT_NO_KEYWORDS', '-DQT_NO_CAST_TO_ASCII', '-DQT_STRICT_ITERATORS'],
              'O0': ['-O0'], 'stringbuilder': ['-O2', '-DQT_USE_QSTRINGBUILDER'],
              # what qmake CONFIG+=release / CMake outside Debug add to the USER's translation unit: Q_ASSERT compiled out of the header's code
              'nodebug': ['-O1', '-DQT_NO_DEBUG']}


def build_user_variant(name, tag):
    """header-only build of a harness with flags a user project typically sets (cached on header, harness and flags)"""
    src = os.path.join(vlib.VERIF, 'harness', 'h_%s.cpp' % name)
    exe = os.path.join(vlib.BUILD, 'h_%s.hdr.%s' % (name, tag))
    flags = USER_FLAGS[tag]
    dg = vlib._digest([src, os.path.join(vlib.REPO, 'qtlogger.h')], ' '.join(flags) + vlib.REPO)
    stamp = exe + '.digest'
    if os.path.exists(exe) and os.path.exists(stamp) and open(stamp).read() == dg:
        return exe, ''
    libs = vlib.sh('pkg-config --libs Qt5Core')[1].split()
    rc, so, se = vlib.sh(['g++', '-std=c++17', '-g', '-fPIC', '-w', '-DQTLOGGER_VERIF', '-DVERIF_HEADER_ONLY'] + flags + ['-I' + vlib.REPO] + qt_cflags()
                         + ['-rdynamic', src, '-o', exe] + libs + ['-lpthread'], timeout=600)
    if rc != 0:
        return None, ([l for l in se.splitlines() if 'error' in l] or [se.strip()[:300]])[0][:300]
    open(stamp, 'w').write(dg)
    return exe, ''


def same_name_internal_definitions():
    """identifiers defined with internal linkage (anonymous namespace / static) in two or more library objects: each
    library TU sees its own, the single amalgamated TU sees one of them (or an ambiguity) — an observation that turns
    into a finding when the behaviour of the two builds differs"""
    libdir = os.path.join(vlib.BUILD, 'lib')
    where = {}
    for d, _, fs in os.walk(libdir):
        for f in fs:
            if not f.endswith('.o') or f.startswith('moc_'):
                continue
            rc, so, se = vlib.sh(['nm', '-C', '--defined-only', os.path.join(d, f)], timeout=60)
            for ln in so.splitlines():
                m = re.match(r'[0-9a-f]* +([tdbr]) (.*)$', ln)
                if not m:
                    continue
                nm_ = m.group(2)
                plain = nm_.replace('(anonymous namespace)', 'ANON')
                if any(x in plain for x in ('lambda', 'qstring_literal', '_GLOBAL_', 'guard variable', '__static_init', '.LC', 'typeinfo', 'vtable', '__func__',
                                          '__PRETTY_FUNCTION__', ' const::', ')::')) or nm_.startswith(('.', '_Z', 'DW.')):
                    continue
                base = re.sub(r'\(.*$', '', plain).split('::')[-1].strip()
                if re.fullmatch(r'[A-Za-z_]\w*', base):
                    where.setdefault(base, {}).setdefault(os.path.join(d, f)[len(libdir) + 1:], nm_)
    return {b: w for b, w in sorted(where.items()) if len(w) > 1}


REL_HARNESSES = ('header_exit',)       # also built against the library as CMake builds it (build/libqtlogger_rel.a: -DQT_NO_DEBUG in the library only)


def rel_exe(name):
    return os.path.join(vlib.BUILD, 'h_' + name + '.rel')


def build_variants(names):
    """library and header-only builds of the named harnesses, in one make invocation (same rules as vlib.build_harness);
    for REL_HARNESSES also h_<name>.rel (application object first, build/libqtlogger_rel.a after it)"""
    tg = [os.path.join(vlib.BUILD, 'h_' + n + v) for n in names for v in ('', '.hdr') + (('.rel',) if n in REL_HARNESSES else ())]
    with vlib.Lock('harness'):
        rc, out, err = vlib.sh(['make', '-j%d' % min(8, vlib.NCPU), '-f', os.path.join(vlib.VERIF, 'harness', 'Makefile'),
                                'REPO=' + vlib.REPO, 'BUILD=' + vlib.BUILD] + tg, cwd=os.path.join(vlib.VERIF, 'harness'), timeout=900)
    if rc != 0:
        raise RuntimeError((out + err)[-2000:])
    return {n: (os.path.join(vlib.BUILD, 'h_' + n), os.path.join(vlib.BUILD, 'h_' + n + '.hdr')) for n in names}


def unhex16(h):
    try:
        return bytes.fromhex(h).decode('utf-16-be', 'replace') if h not in ('-', '~') else ''
    except ValueError:
        return h


def behaviour_leg(chk):
    """header-only users get precisely the behaviour of the library build: the same harness built both ways (and
    header-only with the flags user projects typically set) must print the same answers to the same inputs"""
    corp = behaviour_corpus(chk)
    names = [n for n in corp if os.path.exists(os.path.join(vlib.VERIF, 'harness', 'h_%s.cpp' % n))]
    try:
        exes = build_variants(names)
    except RuntimeError as e:
        chk.fail('a harness does not build header-only (or against the library): ' + str(e)[-400:],
                 {'kind': 'header-only-build-fails', 'log': str(e)[-1500:]}, kind='header-only-build-fails')
        return 0
    thorough = chk.tier == 'thorough'
    tags = ['userflags'] + (['O0', 'stringbuilder'] if thorough else [])
    flagged = [(n, t) for t in tags for n in names if thorough or n in ('pattern', 'header_behaviour')]
    with concurrent.futures.ThreadPoolExecutor(max_workers=4) as ex:
        built = list(ex.map(lambda nt: build_user_variant(*nt), flagged))
    variants = {n: [('header-only', exes[n][1])] for n in names}
    notes = {}
    for (n, t), (exe, err) in zip(flagged, built):
        if exe:
            variants[n].append(('header-only ' + ' '.join(USER_FLAGS[t]), exe))
        else:
            notes['h_%s %s' % (n, t)] = err
            chk.broke('harness h_%s does not build header-only with %s: %s' % (n, ' '.join(USER_FLAGS[t]), err), {'kind': 'behaviour-build', 'error': err})
    n_cmp, n_diff = 0, 0

    def status(rc):
        return ('exit %d' % rc) if rc >= 0 else ('signal %d' % -rc)

    def run(exe, n, lines):
        if lines is None:
            d = tempfile.mkdtemp(prefix='c20_hb_')
            try:
                rc, so, se = vlib.sh([exe, d], timeout=300)
                return so.splitlines(), se, status(rc)
            finally:
                shutil.rmtree(d, ignore_errors=True)
        rc, o, e = vlib.run_lines(exe, lines, timeout=600)
        return o, e, status(rc)
    dups = None
    for n in names:
        lines, canon = corp[n]
        o_lib, e1, st_lib = run(exes[n][0], n, lines)
        want = len(lines) if lines is not None else len(o_lib)
        for label, exe in variants[n]:
            o_hdr, e2, st_hdr = run(exe, n, lines)
            if st_lib != st_hdr and 'exit 124' not in (st_lib, st_hdr):
                # the process itself ends differently (crash / other exit status): the answers it managed to print are secondary
                n_diff += 1
                k = next((i for i, (a_, b_) in enumerate(zip(o_lib, o_hdr)) if canon(a_) != canon(b_)), min(len(o_lib), len(o_hdr)))
                chk.fail('harness h_%s ends differently in the %s build: library %s after %d answers, header-only %s after %d answers'
                         % (n, label, st_lib, len(o_lib), st_hdr, len(o_hdr)),
                         {'kind': 'header-only-behaviour-differs', 'harness': 'h_' + n, 'build': label, 'library_status': st_lib, 'header_only_status': st_hdr,
                          'first_differing_or_missing_answer': k, 'input_line': (lines[k] if lines is not None and k < len(lines) else None),
                          'stderr_library': e1[-300:], 'stderr_header_only': e2[-300:],
                          'how': 'build/h_%s vs %s on the same input' % (n, os.path.basename(exe))},
                         kind='header-only-behaviour-differs')
                continue
            if len(o_lib) != want or len(o_hdr) != want or want == 0:
                chk.broke('harness h_%s did not answer every input (library %d, %s %d of %d)' % (n, len(o_lib), label, len(o_hdr), want),
                          {'kind': 'behaviour-harness', 'harness': n, 'stderr': (e1 + e2)[-400:]})
                continue
            first = None
            for i, (a_, b_) in enumerate(zip(o_lib, o_hdr)):
                n_cmp += 1
                if canon(a_) != canon(b_):
                    n_diff += 1
                    first = first or (lines[i] if lines is not None else a_.split(' ')[1] if ' ' in a_ else '?', a_, b_)
            if not first:
                continue
            l, a_, b_ = first
            if n == 'pattern':
                fields = l.split(' ')
                human = {'pattern': unhex16(fields[0]), 'message_type_enum': fields[1], 'message': unhex16(fields[2])}
                shown = lambda o: unhex16(o.split(' ')[0])
            elif n == 'category':
                fields = l.split(' ')
                human = {'rules': unhex16(fields[0]), 'categories': [unhex16(x) for x in fields[1].split(',')]}
                shown = lambda o: o
            else:
                human = {'probe': l, 'see': 'harness/h_header_behaviour.cpp'}
                shown = lambda o: canon(o)
            chk.fail('the %s build answers differently from the library build (h_%s): input %s: library %r, header-only %r'
                     % (label, n, json.dumps(human, ensure_ascii=True), shown(a_), shown(b_)),
                     {'kind': 'header-only-behaviour-differs', 'harness': 'h_' + n, 'build': label, 'input_line': l, 'input': human,
                      'library_output': a_, 'header_only_output': b_, 'library_readable': shown(a_), 'header_only_readable': shown(b_),
                      'how': 'build/h_%s vs %s on the same input' % (n, os.path.basename(exe))},
                     kind='header-only-behaviour-differs')
    try:
        dups = same_name_internal_definitions()
    except Exception as e:
        dups = {}
    dups.pop('__ioinit', None)
    # same base name in different scopes (e.g. ::x and QtLogger::(anonymous namespace)::x) first: those compile in one TU and
    # silently change which one an unqualified use finds; identical full names come from a shared header and are harmless
    ranked = sorted(dups, key=lambda k: (len(set(dups[k].values())) < 2, k))
    dups = {k: dups[k] for k in ranked}
    chk.cov['same_name_internal_definitions'] = {k: {'objects': sorted(v), 'different_scopes': len(set(v.values())) > 1} for k, v in list(dups.items())[:20]}
    scoped = {k: v for k, v in dups.items() if len(set(v.values())) > 1}
    if n_diff and scoped:
        dups = scoped
        k0 = next(iter(dups))
        chk.fail('the library sources define the same identifier with internal linkage in several files (%s) and the header-only build behaves differently: '
                 'in the single amalgamated translation unit an unqualified use finds another definition than in its own source file, e.g. %s in %s'
                 % (', '.join(list(dups)[:6]), k0, sorted(dups[k0])),
                 {'kind': 'same-name-internal-definitions', 'identifiers': {k: v for k, v in list(dups.items())[:10]}},
                 kind='same-name-internal-definitions')
    chk.cov['behaviour_inputs_compared'] = n_cmp
    chk.cov['behaviour_differences'] = n_diff
    chk.cov['behaviour_harnesses'] = {'h_' + n: [lab for lab, _ in variants[n]] for n in names}
    if notes:
        chk.cov['behaviour_build_notes'] = notes
    return n_cmp


# ---- which text of the sources does each build see?  conditional groups under the two macro environments ---------
# Chains of conditionals that are KNOWN to take different branches in the library build (-DQTLOGGER_STATIC
# -DQTLOGGER_LIBRARY) and in a header-only user's build (neither; the generated header defines QTLOGGER_DECL_SPEC),
# keyed by file and opening directive, each with the reason why it is harmless and with what its groups may contain.
KNOWN_CONDITIONALS = [
    {'file': 'src/qtlogger/logger_global.h', 'opens': '#if defined(QTLOGGER_STATIC)',
     'body': r'#\s*define\s+QTLOGGER_EXPORT(\s+Q_DECL_(EXPORT|IMPORT))?$',
     'reason': 'import/export decoration only: selects the expansion of QTLOGGER_EXPORT (empty in the static library, Q_DECL_IMPORT = default '
               'visibility for a header-only user); no statement depends on it'},
    {'file': 'src/qtlogger/logger_global.h', 'opens': '#if !defined(QTLOGGER_DECL_SPEC)',
     'body': r'#\s*define\s+QTLOGGER_DECL_SPEC$',
     'reason': 'the amalgamation mechanism itself: the generated header defines QTLOGGER_DECL_SPEC as inline before the first source, the '
               'library leaves it empty (out-of-line definitions in the .cpp files)'},
]
LIB_ENV = ['QTLOGGER_STATIC', 'QTLOGGER_LIBRARY']          # src/qtlogger/CMakeLists.txt: PUBLIC QTLOGGER_STATIC, PRIVATE QTLOGGER_LIBRARY
LIB_USER_ENV = ['QTLOGGER_STATIC']                         # a program that links the static library
HDR_ENV = []                                               # a program that includes the single header (it defines QTLOGGER_DECL_SPEC itself)


def conditional_leg(chk, repo):
    from checks import c20_cond as cc
    thorough = chk.tier == 'thorough'
    top = scratch_copy(repo)
    cov = {}
    try:
        root = os.path.join(top, 'src', 'qtlogger')
        files = sorted(os.path.join(d, f) for d, dirs, fs in os.walk(root) for f in fs if f.endswith(cc.EXTS))
        fid = {p: i for i, p in enumerate(files)}
        rel = lambda p: os.path.relpath(p, top)
        table, next_id, scans = {}, [1], {}
        for p in files:
            txt = open(p, encoding='utf-8', errors='replace').read()
            scans[p] = cc.scan(txt)
            open(p, 'w', encoding='utf-8').write(cc.instrument(txt, fid[p], next_id, table, rel(p)))
        # ids per file, in order of the conditional directives
        ids_of = {p: [] for p in files}
        for gid in sorted(table):
            ids_of[os.path.join(top, table[gid]['file'])].append(gid)
        # the known chains -> K (every directive of the chain), with the check of what the chain may contain
        K, known_report = set(), []
        for kc in KNOWN_CONDITIONALS:
            p = os.path.join(top, kc['file'])
            found = False
            if p in scans:
                ds, k, depth, chain = scans[p], 0, 0, None
                raw = open(os.path.join(repo, kc['file']), encoding='utf-8', errors='replace').read().split('\n')
                for d in ds:
                    gid = None
                    if d['kind'] in cc.COND_KINDS:
                        gid = ids_of[p][k]
                        k += 1
                    if chain is None:
                        if d['kind'] in ('if', 'ifdef', 'ifndef') and d['text'].replace('# ', '#') == kc['opens']:
                            chain, depth, found = {'ids': [gid], 'first': d['first'], 'foreign': []}, 0, True
                        continue
                    if d['kind'] in ('if', 'ifdef', 'ifndef'):
                        depth += 1
                    elif d['kind'] == 'endif':
                        if depth == 0:
                            body = [l.strip() for l in raw[chain['first']:d['last'] + 1]]
                            for l in body:
                                code = re.sub(r'//.*$', '', l).strip()
                                if code and not re.match(r'#\s*(if|ifdef|ifndef|elif|else|endif)\b', code) and not re.match(kc['body'], code):
                                    chain['foreign'].append(l)
                            K.update(chain['ids'])
                            known_report.append({'file': kc['file'], 'opens': kc['opens'], 'groups': chain['ids'], 'reason': kc['reason'],
                                                 'contains_only_what_is_allowed': not chain['foreign']})
                            if chain['foreign']:
                                chk.broke('the known conditional %s of %s now guards other text than the definition it is known for: %r'
                                          % (kc['opens'], kc['file'], chain['foreign'][:3]),
                                          {'kind': 'known-conditional-guards-other-text', 'file': kc['file'], 'opens': kc['opens'], 'lines': chain['foreign'][:10]})
                            chain = None
                            continue
                        depth -= 1
                    elif depth == 0 and gid is not None:
                        chain['ids'].append(gid)
            if not found:
                known_report.append({'file': kc['file'], 'opens': kc['opens'], 'groups': [], 'note': 'not present in this tree'})
        cov['known_conditionals'] = known_report
        # ---- the instrumented single header (project generator on the instrumented copy)
        gen, gerr = run_generator(top)
        if gen is None:
            chk.broke('the project generator failed on the instrumented copy of the tree: ' + gerr, {'kind': 'generator-crash', 'stderr': gerr})
            return 0
        hdr_text = gen.decode('utf-8', 'replace')
        hdr_lines = hdr_text.split('\n')
        hdr_scan = cc.scan(hdr_text)
        hdr_ids, fresh = [], [10 ** 6]
        for d in hdr_scan:
            if d['kind'] in cc.COND_KINDS:
                nxt = hdr_lines[d['last'] + 1] if d['last'] + 1 < len(hdr_lines) else ''
                if nxt.startswith(cc.MARK):
                    hdr_ids.append(int(nxt[len(cc.MARK):]))
                else:
                    fresh[0] += 1
                    hdr_ids.append(fresh[0])
        open(os.path.join(top, 'user_hdr.cpp'), 'w').write('#include "qtlogger.h"\n')
        # ---- model program
        macros = cc.Macros()
        for n in LIB_ENV + ['QTLOGGER_DECL_SPEC', 'QTLOGGER_EXPORT']:
            macros.of(n)
        incdirs = [os.path.join(top, 'src'), root]

        def resolver(p):
            def r(inc):
                for b in [os.path.dirname(p)] + incdirs:
                    c = os.path.normpath(os.path.join(b, inc))
                    if c in fid:
                        return fid[c]
                return None
            return r
        proto = ['K ' + ' '.join(str(k) for k in sorted(K))]
        for p in files:
            ml = cc.model_lines(scans[p], ids_of[p], macros, resolver(p))
            proto += ['F %d' % len(ml)] + ml
        hdr_file = len(files)
        ml = cc.model_lines(hdr_scan, hdr_ids, macros, lambda inc: None)
        proto += ['F %d' % len(ml)] + ml
        # ---- configurations (feature macros, same on both sides) and translation units
        feats = feature_macros(repo)
        have_net = vlib.sh('pkg-config --exists Qt5Network')[0] == 0
        combined = [m for m in ('QTLOGGER_SYSLOG', 'QTLOGGER_DEBUG', 'QTLOGGER_NO_THREAD', 'QTLOGGER_VERIF') if m in feats or m == 'QTLOGGER_VERIF']
        combined += ['QTLOGGER_NETWORK'] if (have_net and 'QTLOGGER_NETWORK' in feats) else []
        configs = [[], combined]
        if thorough:
            configs += [[m] for m in feats if [m] not in configs]
        cf = qt_cflags()
        cpps = [p for p in files if p.endswith('.cpp') and '/build/' not in p]
        umbrella = os.path.join(root, 'qtlogger.h')
        tus = [('lib', p, LIB_ENV) for p in cpps] + ([('lib-user', umbrella, LIB_USER_ENV)] if umbrella in fid else [])

        def preprocess(path, defs, hdr):
            inc = ['-I' + top] if hdr else ['-I' + os.path.join(top, 'src'), '-I' + root]
            cmd = ['g++', '-std=c++17', '-fPIC', '-w', '-E', '-x', 'c++'] + ['-D' + d for d in defs] + inc + cf + [path]
            rc, so, se = vlib.sh(['bash', '-c', "set -o pipefail; %s | { grep '^#pragma c20' || true; }" % ' '.join("'%s'" % c for c in cmd)], timeout=600)
            return rc, so, se
        jobs = []
        for ci, F in enumerate(configs):
            for kind, p, env in tus:
                jobs.append((ci, kind, p, env + F, False))
            jobs.append((ci, 'hdr', os.path.join(top, 'user_hdr.cpp'), HDR_ENV + F, True))
        with concurrent.futures.ThreadPoolExecutor(max_workers=min(8, vlib.NCPU)) as ex:
            outs = list(ex.map(lambda j: preprocess(j[2], j[3], j[4]), jobs))
        real = {}
        failed_cfg = {}
        for (ci, kind, p, env, hdr), (rc, so, se) in zip(jobs, outs):
            if rc != 0:
                failed_cfg.setdefault(ci, []).append('%s: %s' % (rel(p), ([l for l in se.splitlines() if 'error' in l] or [se.strip()[:200]])[0][:200]))
            real[(ci, kind, p)] = cc.markers_of(so)
        # ---- model runs: same order of groups entered as g++ -E, for every translation unit and configuration
        reqs, meta = [], []

        def envnums(names):
            return ','.join(str(macros.of(n)) for n in names) or '-'
        opaque_ids = set()
        for l in proto:
            opaque_ids.update(int(x) for x in re.findall(r'\bo(\d+):', l))
        for ci, F in enumerate(configs):
            if ci in failed_cfg:
                continue
            for kind, p, env in tus:
                groups, _ = real[(ci, kind, p)]
                oq = ','.join(str(g) for g in sorted(set(groups) & opaque_ids)) or '-'
                reqs.append('R %d %s %s' % (fid[p], envnums(env + F), oq))
                meta.append(('R', ci, kind, p))
                if kind == 'lib':
                    reqs.append('Q %d %s %s %s' % (fid[p], envnums(env + F), envnums(['QTLOGGER_DECL_SPEC'] + F), oq))
                    meta.append(('Q', ci, kind, p))
            groups, _ = real[(ci, 'hdr', os.path.join(top, 'user_hdr.cpp'))]
            oq = ','.join(str(g) for g in sorted(set(groups) & opaque_ids)) or '-'
            reqs.append('R %d %s %s' % (hdr_file, envnums(HDR_ENV + F), oq))
            meta.append(('R', ci, 'hdr', None))
            reqs.append('Q %d %s %s %s' % (hdr_file, envnums(LIB_ENV + F), envnums(HDR_ENV + F), oq))
            meta.append(('Q', ci, 'hdr', None))
        model = vlib.build_model('amalgam')
        rc, mo, me = vlib.run_lines(model, proto + ['M'] + reqs, args=['cond'], timeout=600)
        if rc != 0 or len(mo) != len(reqs) + 1:
            chk.broke('the extracted model of conditional groups failed: ' + me[-300:], {'kind': 'cond-model-crash', 'stderr': me[-800:], 'answers': len(mo), 'requests': len(reqs)})
            return 0
        mentioned = [macros.name(int(x)) for x in mo[0].split()[1:]]
        cov['macros_mentioned_outside_known_groups'] = sorted(set(mentioned))

        def where(gid):
            t = table.get(gid)
            return '%s:%d: %s' % (t['file'], t['line'], t['text']) if t else 'group %d' % gid
        n_model, n_mism, not_confined = 0, 0, []
        for (what, ci, kind, p), ans in zip(meta, mo[1:]):
            f = ans.split()
            if what == 'R':
                n_model += 1
                got = [int(x) for x in f[3:]]
                want = real[(ci, kind, p if p else os.path.join(top, 'user_hdr.cpp'))][0]
                if f[1] == '1' and not any(not r.get('contains_only_what_is_allowed', True) for r in known_report):
                    pass        # [bad]: reported through Q below
                if got != want:
                    n_mism += 1
                    if n_mism <= 2:
                        k = next((i for i, (a_, b_) in enumerate(zip(got, want)) if a_ != b_), min(len(got), len(want)))
                        chk.broke('correspondence: the model of conditional groups and g++ -E disagree on %s (%s build, -D %s): at position %d the '
                                  'model enters %s, the preprocessor %s' % (rel(p) if p else 'the generated single header', kind, ' '.join(configs[ci]) or '(no feature macro)', k,
                                                                           where(got[k]) if k < len(got) else 'nothing more', where(want[k]) if k < len(want) else 'nothing more'),
                                  {'kind': 'cond-model-vs-preprocessor', 'translation_unit': rel(p) if p else 'qtlogger.h (generated)', 'build': kind,
                                   'feature_macros': configs[ci], 'position': k, 'model': [where(g) for g in got[k:k + 3]], 'preprocessor': [where(g) for g in want[k:k + 3]]})
                if f[2] == '1':
                    chk.broke('the model of conditional groups ran out of include depth on %s' % (rel(p) if p else 'the generated header'), {'kind': 'cond-model-depth'})
            elif f[1] != '1':
                not_confined.append((ci, kind, p))
        # ---- the oracle on what g++ -E really did: every group outside the known ones is entered in the header-only build
        #      exactly when it is entered in the library build (per translation unit that reaches its file)
        file_of = {gid: fid[os.path.join(top, t['file'])] for gid, t in table.items()}
        diverging = {}
        for ci, F in enumerate(configs):
            if ci in failed_cfg:
                continue
            hg = set(real[(ci, 'hdr', os.path.join(top, 'user_hdr.cpp'))][0])
            hf = set(real[(ci, 'hdr', os.path.join(top, 'user_hdr.cpp'))][1])
            for kind, p, env in tus:
                g, fl = real[(ci, kind, p)]
                g, fl = set(g), set(fl)
                for gid in table:
                    if file_of[gid] in fl and file_of[gid] in hf and ((gid in g) != (gid in hg)):
                        diverging.setdefault(gid, {'library_enters': gid in g, 'header_only_enters': gid in hg, 'seen_in': rel(p), 'feature_macros': F})
        outside = sorted(g for g in diverging if g not in K)
        cov['conditional_groups'] = {'groups': len(table), 'files': len(files), 'translation_units': len(tus) + 1, 'configurations': [' '.join(F) or '(none)' for F in configs],
                                     'configurations_not_preprocessable_here': {(' '.join(configs[ci]) or '(none)'): v[:2] for ci, v in failed_cfg.items()},
                                     'model_runs_compared_with_gxx_E': n_model, 'model_vs_preprocessor_mismatches': n_mism,
                                     'opaque_conditions': len(opaque_ids), 'confined_decisions': sum(1 for m_ in meta if m_[0] == 'Q'), 'not_confined': len(not_confined),
                                     'groups_taking_different_branches': {where(g): {k_: v_ for k_, v_ in diverging[g].items() if k_ != 'seen_in'} for g in sorted(diverging)[:12]},
                                     'of_those_outside_the_known_list': len(outside)}
        differing = set(LIB_ENV + ['QTLOGGER_DECL_SPEC'])
        suspects = [gid for gid, t in sorted(table.items()) if gid not in K and t['kind'] != 'else' and differing & set(re.findall(r'QTLOGGER_\w+', t['text']))]
        if outside:
            g0 = outside[0]
            chk.broke('a conditional of the sources takes different branches in the library build (-D%s) and in a header-only user\'s build (neither defined) and is '
                      'not one of the known switches: %s - the library build %s this group, the single header %s it (translation unit %s%s)%s'
                      % (' -D'.join(LIB_ENV), where(g0), 'enters' if diverging[g0]['library_enters'] else 'skips', 'enters' if diverging[g0]['header_only_enters'] else 'skips',
                         diverging[g0]['seen_in'], (', with -D' + ' -D'.join(diverging[g0]['feature_macros'])) if diverging[g0]['feature_macros'] else '',
                         ('; also: ' + '; '.join(where(g) for g in outside[1:4])) if len(outside) > 1 else ''),
                      {'kind': 'conditional-takes-different-branch', 'groups': [dict(diverging[g], where=where(g)) for g in outside[:10]],
                       'known_list': [k_['file'] + ': ' + k_['opens'] for k_ in KNOWN_CONDITIONALS],
                       'how': "g++ -E -DQTLOGGER_STATIC -DQTLOGGER_LIBRARY -Isrc -Isrc/qtlogger <file>   vs   g++ -E -I. on '#include \"qtlogger.h\"'"})
        elif not_confined or suspects:
            ci, kind, p = (not_confined or [(0, '', None)])[0]
            chk.broke('the divergence of the two builds is no longer confined to the known conditionals (C20_branches_confined_to_known_groups does not apply): %s'
                      % ('; '.join(where(g) for g in suspects[:4]) if suspects else 'a known chain contains other directives (%s)' % (rel(p) if p else 'generated header')),
                      {'kind': 'conditional-not-confined', 'conditions_mentioning_a_differing_macro': [where(g) for g in suspects[:10]],
                       'translation_units': [rel(p_) if p_ else 'qtlogger.h (generated)' for _, _, p_ in not_confined[:6]]})
        if n_model and not chk.samples:
            pass
        return n_model
    finally:
        shutil.rmtree(top, ignore_errors=True)
        chk.cov.update(cov)


# ---- whole-process behaviour: the same PROGRAM (harness/h_header_exit.cpp) built against the library and header-only;
#      compared after the process ended: exit status / signal, stdout, stderr, the files it left ------------------------
N_TEMPLATES = 8          # kTemplates in harness/h_header_exit.cpp
EARLY_OPS = ('fs', 'rs', 'cfg', 'stf', 'log', 'clog', 'flush', 'own', 'ownr', 'edge', 'pat', 'pipe', 'restore')
# boundary ARGUMENTS of the public constructors / configure() / sendToFile(): maxFileCount <= 0 is documented as "keep every rotated
# file", maxFileSize <= 0 as "no limit", the empty path as "no file" (template -1), pattern 3 is the empty pattern
MAX_SIZES = (-1, 0, 1, 30, 60, 200, 100000)
MAX_COUNTS = (-1, 0, 1, 2, 3)


def prog_text(p):
    return ','.join(p['early']) + '/' + ','.join(p['main']) + '/' + p['end']


def prog_of_text(s):
    e, m, end = (s.split('/') + ['', '', ''])[:3]
    return {'early': [x for x in e.split(',') if x], 'main': [x for x in m.split(',') if x], 'end': end or 'ret:0'}


def op_kinds(ops):
    return ','.join(o.split(':')[0] for o in ops)


def random_op(rng, early):
    k = rng.choice(['fs', 'fs', 'rs', 'rs', 'cfg', 'cfg', 'stf', 'log', 'log', 'log', 'clog', 'flush', 'own', 'ownr', 'edge', 'pat', 'pipe', 'pipe', 'restore']
                   + ([] if early else ['app', 'app']))
    t = rng.randrange(N_TEMPLATES) if rng.random() >= 0.07 else -1
    if k == 'fs':
        return 'fs:%d:%d:%d' % (t, rng.choice([0, 1, 1, 2, 3, 5]), rng.choice([0, 0, 1, 2]))
    if k == 'rs':
        return 'rs:%d:%d:%d:%d:%d' % (t, rng.choice(MAX_SIZES), rng.choice(MAX_COUNTS), rng.choice([0, 1, 3, 8]), rng.choice([0, 0, 1, 2]))
    if k == 'cfg':
        big = rng.random() < 0.5
        return 'cfg:%d:%d:%d:%d' % (t, rng.choice([0, 0, 0, -1]) if big else rng.choice([1, 80, 200, 100000]), rng.choice(MAX_COUNTS),
                                    rng.choice([0, 0, 0, 1]) if big else rng.choice([0, 0, 1, 2]))
    if k == 'ownr':
        return 'ownr:%d:%d:%d:%d:%d' % (t, rng.choice(MAX_SIZES), rng.choice(MAX_COUNTS), rng.choice([0, 0, 1, 2]), rng.choice([0, 1, 3, 6]))
    if k == 'edge':
        return 'edge:%d:%d:%d' % (rng.randrange(4), t, rng.choice([0, 1, 3]))
    if k == 'stf':
        return 'stf:%d' % t
    if k in ('log', 'clog'):
        return '%s:%d' % (k, rng.choice([1, 2, 3, 3, 5, 9]))
    if k == 'own':
        return 'own:%d:%d' % (t, rng.choice([0, 1, 3]))
    if k == 'pat':
        return 'pat:%d' % rng.randrange(4)
    if k == 'pipe':
        return 'pipe:%d:%d:%d' % (rng.randrange(4), t, rng.choice([1, 4, 7, 12]))
    return k


def exit_programs(chk, n_random):
    """fixed programs (the idioms of the README: one-line configure, fluent sendToFile, a sink set up by a global object)
    followed by random ones"""
    base = ['/app,cfg:0:0:0:0,log:3/ret:0',              # configure(file), a few lines, return from main, no flush
            '/cfg:0:0:0:0,log:2/exit:0',                 # ... std::exit, no application object
            '/app,stf:0,log:3/ret:0', '/stf:1,log:1,clog:2/exit:3',
            '/app,cfg:0:80:3:0,log:9/ret:0',             # rotating file
            'fs:1:1:1//ret:0',                           # file sink created and used before main()
            'fs:0:2:0//ret:0', 'rs:2:60:2:3:0//ret:0',   # ... not flushed, kept until static destruction
            'cfg:0:0:0:0/app,log:3/ret:0',               # logging configured by a global object, used from main
            'cfg:0:0:0:0,log:2/app,log:1/ret:0',         # ... and used by that global object itself
            'stf:3/log:2/exit:1', 'stf:0,log:2/app,log:1/ret:0',
            'fs:7:1:0//ret:0', 'rs:7:60:2:2:0/fs:7:1:2/ret:0', 'cfg:7:0:0:0,log:1/log:1/exit:0',   # a log file that cannot be opened
            'pipe:0:0:7,pipe:1:4:7/pipe:2:0:7,pipe:3:4:7/ret:0',      # filters and formatters used before main()
            'own:0:2/own:4:1/ret:0', 'pat:0,pat:1/pat:2/ret:7',
            '/stf:0,log:2/fatal', '/app,cfg:0:0:0:0,log:1/fatal', '/stf:0,log:3/qexit:2', 'stf:0,log:1,eexit:4//ret:0',
            '/stf:0,log:1,restore,log:1/ret:0', '/app,cfg:5:0:0:0,log:1,flush,log:1/ret:0',
            # boundary arguments: negative / zero / one for the rotation limits, the empty path, the empty pattern, null handler pointers
            'rs:0:0:-1:2:0//ret:0', '/rs:0:1:-1:3:1,rs:1:-1:0:2:2/ret:0', '/rs:0:30:1:4:1,rs:4:30:2:4:0/ret:0',
            '/app,cfg:0:80:-1:0,log:9/ret:0', '/cfg:0:1:1:0,log:5/exit:0', '/cfg:0:-1:2:1,log:3/ret:0', '/cfg:-1:0:0:0,log:2/ret:0', 'cfg:-1:80:-1:1/log:1/exit:0',
            '/ownr:0:1:-1:0:4,ownr:0:-1:-1:1:2,ownr:-1:1:1:0:1/ret:0', '/edge:0:0:3,edge:1:0:2/ret:0', 'edge:2:0:3,pat:3/edge:3:1:2/ret:0',
            '/fs:-1:1:0,rs:-1:1:1:1:0/ret:0', '/stf:-1,log:2/ret:0', 'own:-1:2//ret:0']
    progs = []
    cdir = os.path.join(vlib.VERIF, 'corpus', 'C20')
    for fn in sorted(os.listdir(cdir)) if os.path.isdir(cdir) else []:
        try:
            for e in json.load(open(os.path.join(cdir, fn))).get('programs', []):
                progs.append(prog_of_text(e['program']))
        except Exception:
            pass
    progs += [prog_of_text(b) for b in base if prog_of_text(b) not in progs]
    rng = chk.rng
    for _ in range(n_random):
        early = [random_op(rng, True) for _ in range(rng.choice([0, 0, 1, 1, 2, 3]))]
        # messages sent to a CONSOLE sink before main() are one specific class (the configure() pipeline writes to std::cerr):
        # keep most programs clear of it so that it does not mask everything else
        if any(o.startswith('cfg') for o in early) and rng.random() < 0.8:
            early = [o for o in early if not o.startswith(('log', 'clog'))]
        main = [random_op(rng, False) for _ in range(rng.choice([0, 1, 2, 2, 3, 4]))]
        end = rng.choice(['ret:0', 'ret:0', 'ret:0', 'ret:5', 'exit:0', 'exit:0', 'exit:2', 'fatal', 'qexit:1'])
        if rng.random() < 0.05 and early:
            early.append('eexit:%d' % rng.choice([0, 6]))
        progs.append({'early': early, 'main': main, 'end': end})
    return progs


def _no_core():
    try:
        import resource
        resource.setrlimit(resource.RLIMIT_CORE, (0, 0))
    except Exception:
        pass


def canon_text(b):
    s = b.decode('utf-8', 'replace') if isinstance(b, bytes) else b
    return re.sub(r'\d+', '#', s)


def run_program(exe, prog, timeout=180):
    """one process; the observation a user can make after it ended"""
    d = tempfile.mkdtemp(prefix='c20_x_')
    try:
        env = dict(os.environ, C20_DIR=os.path.join(d, 'w'), C20_PROG=prog_text(prog), LC_ALL='C')
        status = None
        for attempt in range(2):
            shutil.rmtree(os.path.join(d, 'w'), ignore_errors=True)
            try:
                p = subprocess.run([exe], env=env, stdin=subprocess.DEVNULL, stdout=subprocess.PIPE, stderr=subprocess.PIPE,
                                   timeout=timeout * (attempt + 1), preexec_fn=_no_core)
                rc, so, se = p.returncode, p.stdout, p.stderr
                status = ('exit %d' % rc) if rc >= 0 else ('signal %d' % -rc)
                break
            except subprocess.TimeoutExpired as ex:
                so, se, status = ex.stdout or b'', ex.stderr or b'', 'still running after %d s' % (timeout * (attempt + 1))
        files = []
        w = os.path.join(d, 'w')
        for dp, _, fs in os.walk(w):
            for f in fs:
                full = os.path.join(dp, f)
                files.append((os.path.relpath(full, w), open(full, 'rb').read().decode('utf-8', 'replace').replace(w, '<dir>')))
        files.sort()
        so, se = (x.decode('utf-8', 'replace').replace(w, '<dir>') for x in (so, se))      # the sinks' error messages name the file
        return {'status': status, 'stdout': canon_text(so), 'stderr': canon_text(se),
                'files': [[canon_text(n), canon_text(c)] for n, c in files]}
    finally:
        shutil.rmtree(d, ignore_errors=True)


def obs_diff(a, b):
    """aspects in which two observations differ"""
    return [k for k in ('status', 'stdout', 'stderr', 'files') if a[k] != b[k]]


def simplify_ops(prog, differs):
    """after the list shrink: smaller parameters (plain file name, one message, no rotation), clog -> log, plain return"""
    cur = prog

    def attempt(cand):
        nonlocal cur
        if cand != cur and differs(cand):
            cur = cand
            return True
        return False
    # (field index, smaller value) per op kind; every candidate is built from the CURRENT op
    smaller = {'log': [(1, '1')], 'clog': [(0, 'log'), (1, '1')], 'stf': [(1, '0')], 'own': [(1, '0'), (2, '0'), (2, '1')],
               'cfg': [(1, '0'), (4, '0'), (2, '0'), (3, '0')], 'fs': [(1, '0'), (2, '0'), (2, '1'), (3, '2'), (3, '1')],
               'rs': [(1, '0'), (2, '0'), (3, '0'), (4, '0'), (4, '1'), (5, '2'), (5, '1')], 'pat': [(1, '0')],
               'pipe': [(2, '0'), (3, '1'), (3, '4')], 'ownr': [(1, '0'), (4, '0'), (2, '0'), (3, '0'), (5, '0'), (5, '1')], 'edge': [(2, '0'), (3, '0'), (3, '1')]}
    for ph in ('early', 'main'):
        for i in range(len(cur[ph])):
            for idx, val in smaller.get(cur[ph][i].split(':')[0], []):
                f = cur[ph][i].split(':')
                mode_field = (f[0] == 'fs' and idx == 3) or (f[0] == 'rs' and idx == 5)
                if idx >= len(f) or f[idx] == val or (idx > 0 and not mode_field and int(f[idx]) < int(val)) or (mode_field and f[idx] == '2'):
                    continue
                f[idx] = val
                c = dict(cur)
                c[ph] = cur[ph][:i] + [':'.join(f)] + cur[ph][i + 1:]
                attempt(c)
    if cur['end'] != 'ret:0' and not attempt(dict(cur, end='ret:0')) and cur['end'] != 'exit:0':
        attempt(dict(cur, end='exit:0'))
    return cur


def shrink_program(prog, differs):
    cur = dict(prog)
    for _ in range(2):
        for ph in ('early', 'main'):
            cur[ph] = vlib.shrink_list(cur[ph], lambda ops: differs(dict(cur, **{ph: ops})), max_steps=40)
        cur = simplify_ops(cur, differs)
    return cur


def describe_obs(o):
    return {'status': o['status'], 'stdout': o['stdout'][-600:], 'stderr': o['stderr'][-600:],
            'files': [{'name': n, 'lines': c.count('\n'), 'content': c[-500:]} for n, c in o['files'][:8]]}


def process_leg(chk):
    """header-only users get precisely the behaviour of the library build - as whole processes: programs that set logging up
    from a global object's constructor (before main), that leave main / call exit without flushing, that die in qFatal"""
    try:
        exes = build_variants(['header_exit'])['header_exit']
    except RuntimeError as e:
        chk.fail('the whole-process harness does not build header-only (or against the library): ' + str(e)[-400:],
                 {'kind': 'header-only-build-fails', 'log': str(e)[-1500:]}, kind='header-only-build-fails')
        return 0
    thorough = chk.tier == 'thorough'
    # THREE builds of every program at least: the library as the project's CMake build produces it (QT_NO_DEBUG in the library's
    # translation units only - Qt5::Core adds it for every configuration but Debug), header-only with default user flags (no
    # QT_NO_DEBUG: the assertions of the header's code are live) and header-only with -DQT_NO_DEBUG.  The library WITHOUT
    # QT_NO_DEBUG (a CMake Debug configuration, exes[0]) only qualifies a difference (field same_as_library_without_QT_NO_DEBUG).
    lib_debug = exes[0]
    exes = (rel_exe('header_exit'), exes[1])
    variants = [('header-only', exes[1])]
    for t in ['nodebug', 'userflags'] + (['O0'] if thorough else []):
        exe, err = build_user_variant('header_exit', t)
        if exe:
            variants.append(('header-only ' + ' '.join(USER_FLAGS[t]), exe))
        else:
            chk.broke('harness h_header_exit does not build header-only with %s: %s' % (' '.join(USER_FLAGS[t]), err), {'kind': 'behaviour-build', 'error': err})
    progs = exit_programs(chk, 150 if thorough else 24)
    jobs = [(pi, vi) for pi in range(len(progs)) for vi in range(-1, len(variants))]

    def one(j):
        pi, vi = j
        return run_program(exes[0] if vi < 0 else variants[vi][1], progs[pi])
    with concurrent.futures.ThreadPoolExecutor(max_workers=min(8, vlib.NCPU)) as ex:
        res = dict(zip(jobs, ex.map(one, jobs)))
    hist = {'programs': len(progs), 'with_early_phase': sum(1 for p in progs if p['early']), 'endings': {}, 'op_kinds': {},
            'library_statuses': {}, 'programs_leaving_nonempty_files': 0, 'early_phase_creating_file_sinks': 0}
    for pi, p in enumerate(progs):
        hist['endings'][p['end'].split(':')[0]] = hist['endings'].get(p['end'].split(':')[0], 0) + 1
        for o in p['early'] + p['main']:
            hist['op_kinds'][o.split(':')[0]] = hist['op_kinds'].get(o.split(':')[0], 0) + 1
        st = res[(pi, -1)]['status']
        hist['library_statuses'][st] = hist['library_statuses'].get(st, 0) + 1
        hist['programs_leaving_nonempty_files'] += 1 if any(c for _, c in res[(pi, -1)]['files']) else 0
        hist['early_phase_creating_file_sinks'] += 1 if any(o.startswith(('fs', 'rs', 'cfg', 'stf', 'own', 'pipe')) for o in p['early']) else 0
    n_diff, reported = 0, {}
    for pi, p in enumerate(progs):
        for vi, (label, exe) in enumerate(variants):
            a, b = res[(pi, -1)], res[(pi, vi)]
            if not obs_diff(a, b):
                continue
            n_diff += 1
            if len(reported) >= 4 or (vi > 0 and obs_diff(a, res[(pi, 0)])):
                continue            # the plain header-only build already differs on this program
            small = shrink_program(p, lambda q: bool(obs_diff(run_program(exes[0], q), run_program(exe, q))))
            oa, ob = run_program(exes[0], small), run_program(exe, small)
            if not obs_diff(oa, ob):      # not reproducible: report the original program, as found
                small, oa, ob = p, a, b
            od = run_program(lib_debug, small)
            cls = (op_kinds(small['early']), op_kinds(small['main']), small['end'].split(':')[0], oa['status'], ob['status'], ','.join(obs_diff(oa, ob)))
            if cls in reported:
                continue
            reported[cls] = True
            rep = {'kind': 'header-only-process-behaviour-differs', 'program': prog_text(small), 'build': label,
                   'early_op_kinds': cls[0], 'main_op_kinds': cls[1], 'ending': cls[2], 'library_status': cls[3], 'header_only_status': cls[4],
                   'differs_in': cls[5], 'library': describe_obs(oa), 'header_only': describe_obs(ob), 'found_as': prog_text(p),
                   'library_build': 'libqtlogger as CMake builds it (-DQT_NO_DEBUG in the library only), application object first on the link line',
                   # the library of a CMake Debug configuration (no QT_NO_DEBUG anywhere): tells a QT_NO_DEBUG-dependent difference apart
                   'library_without_QT_NO_DEBUG': {'status': od['status'], 'differs_from_this_header_only_build_in': obs_diff(od, ob)},
                   'header_only_builds_that_differ': [l for vj, (l, _) in enumerate(variants) if obs_diff(a, res[(pi, vj)])],
                   'how': "C20_DIR=$(mktemp -d) C20_PROG='%s' build/h_header_exit.rel   vs   build/%s   (program syntax: harness/h_header_exit.cpp)"
                          % (prog_text(small), os.path.basename(exe))}
            chk.fail('the %s build of the program %r behaves differently from the library build of the same program (%s): library: %s, %s; header-only: %s, %s'
                     % (label, prog_text(small), cls[5], oa['status'], ['%s: %d lines' % (n, c.count('\n')) for n, c in oa['files'][:4]],
                        ob['status'], ['%s: %d lines' % (n, c.count('\n')) for n, c in ob['files'][:4]]),
                     rep, kind='header-only-process-behaviour-differs')
    hist['program_runs_compared'] = len(progs) * len(variants)
    hist['distinct_programs'] = len({prog_text(p) for p in progs})
    hist['differences'] = n_diff
    hist['builds'] = ['library as CMake builds it (QT_NO_DEBUG in the library only)'] + [l for l, _ in variants]
    bnd = {'max_count': {}, 'max_size': {}, 'empty_path_ops': 0, 'empty_pattern_ops': 0, 'null_pointer_ops': 0}
    for p in progs:
        for o in p['early'] + p['main']:
            f = o.split(':')
            if f[0] in ('rs', 'cfg', 'ownr'):
                bnd['max_size'][f[2]] = bnd['max_size'].get(f[2], 0) + 1
                bnd['max_count'][f[3]] = bnd['max_count'].get(f[3], 0) + 1
            if f[0] in ('fs', 'rs', 'cfg', 'stf', 'own', 'ownr') and f[1] == '-1':
                bnd['empty_path_ops'] += 1
            if f[0] == 'edge':
                bnd['empty_path_ops'] += 1 if f[1] in ('1', '3') or f[2] == '-1' else 0
                bnd['empty_pattern_ops'] += 1 if f[1] in ('2', '3') else 0
                bnd['null_pointer_ops'] += 1 if f[1] in ('0', '1', '3') else 0
            if o == 'pat:3':
                bnd['empty_pattern_ops'] += 1
    hist['boundary_arguments'] = bnd
    chk.cov['whole_process_programs'] = hist
    chk.samples.append({'whole_process_program': prog_text(progs[0]), 'library': describe_obs(res[(0, -1)]), 'header_only_equal': not obs_diff(res[(0, -1)], res[(0, 0)])})
    return len(progs) * len(variants)


def two_tu_leg(chk, repo):
    """a header-only library must be usable from more than one translation unit of a program: two TUs that each
    include qtlogger.h are linked into one program and run"""
    d = tempfile.mkdtemp(prefix='c20_2tu_')
    try:
        open(os.path.join(d, 'a.cpp'), 'w').write('#include "qtlogger.h"\nint f() { QtLogger::Logger *l = QtLogger::Logger::instance(); l->flush(); return l ? 1 : 0; }\n')
        open(os.path.join(d, 'b.cpp'), 'w').write('#include "qtlogger.h"\nint f();\nint main() { QtLogger::Logger *l = QtLogger::Logger::instance(); return (l && f() == 1) ? 0 : 1; }\n')
        cf = qt_cflags()
        with concurrent.futures.ThreadPoolExecutor(max_workers=2) as ex:
            rs = list(ex.map(lambda n: syntax_check(['-I' + repo] + cf + [os.path.join(d, n + '.cpp')], os.path.join(d, n + '.o')), ['a', 'b']))
        if not all(ok for ok, _ in rs):
            chk.cov['two_translation_units'] = 'does not compile: ' + next(e for ok, e in rs if not ok)
            chk.broke('the two-translation-unit probe does not compile: ' + chk.cov['two_translation_units'], {'kind': 'two-tu-compile'})
            return 1
        libs = vlib.sh('pkg-config --libs Qt5Core')[1].split()
        rc, so, se = vlib.sh(['g++', '-o', os.path.join(d, 'prog'), os.path.join(d, 'a.o'), os.path.join(d, 'b.o')] + libs + ['-lpthread'], timeout=300)
        if rc != 0:
            multi = re.findall(r"multiple definition of [`'](.+?)'", se)
            syms = []
            for m in multi:
                dm = vlib.sh(['c++filt', m])[1].strip() or m
                if dm not in syms:
                    syms.append(dm)
            first = syms[0] if syms else (se.strip().splitlines() or ['link failed'])[0][:300]
            chk.cov['two_translation_units'] = 'link fails: ' + first
            chk.fail('a program with two translation units that both include qtlogger.h does not link: multiple definition of %s%s'
                     % (first, (' (and %d more: %s)' % (len(syms) - 1, ', '.join(syms[1:4]))) if len(syms) > 1 else ''),
                     {'kind': 'header-not-usable-from-two-translation-units', 'symbol': first, 'all_multiply_defined': syms[:20],
                      'how': 'a.cpp: #include "qtlogger.h" / int f(){...};  b.cpp: #include "qtlogger.h" / int f(); int main(){...};  g++ -c a.cpp b.cpp; g++ a.o b.o -lQt5Core'},
                     kind='header-not-usable-from-two-translation-units')
            return 1
        rc, so, se = vlib.sh([os.path.join(d, 'prog')], timeout=60)
        chk.cov['two_translation_units'] = 'links and runs' if rc == 0 else 'links, exit status %s' % rc
        if rc != 0:
            chk.broke('the two-translation-unit program links but exits with %s' % rc, {'kind': 'two-tu-run', 'rc': rc, 'stderr': se[-300:]})
        return 1
    finally:
        shutil.rmtree(d, ignore_errors=True)


def configuration_leg(chk, repo, all_sources):
    """for the configuration without feature macros and for every single feature macro: the single header
    alone and the library sources must both compile or both fail (a feature whose system headers are not
    installed fails on both sides)"""
    macros = feature_macros(repo)
    cf = qt_cflags()
    tu = tempfile.mkdtemp(prefix='c20_cfg_')
    open(os.path.join(tu, 'user.cpp'), 'w').write('#include "qtlogger.h"\nint main() { return 0; }\n')
    all_cpp = sorted(os.path.join(d, f) for d, _, fs in os.walk(os.path.join(repo, 'src', 'qtlogger')) for f in fs if f.endswith('.cpp'))
    jobs = []
    objs = {}          # (configuration, side) -> object files; thorough tier: symbols are compared as well
    n_obj = [0]

    def objfile():
        n_obj[0] += 1
        return os.path.join(tu, 'o%d.o' % n_obj[0])
    # the configuration the harnesses build (library objects exist in build/lib): header object for the symbol comparison
    DEFAULT = 'QTLOGGER_VERIF+QTLOGGER_SYSLOG'
    ho = objfile()
    jobs.append((DEFAULT, 'header', None, ['-DQTLOGGER_VERIF', '-DQTLOGGER_SYSLOG', '-I' + repo] + cf + [os.path.join(tu, 'user.cpp')], ho, True))
    objs[(DEFAULT, 'header')] = [ho]
    for m in [None] + list(macros):
        D = ['-D' + m] if m else []
        ho = objfile() if all_sources else None
        if ho:
            objs[(m or '(none)', 'header')] = [ho]
        jobs.append((m, 'header', None, D + ['-I' + repo] + cf + [os.path.join(tu, 'user.cpp')], ho, True))
        files = all_cpp if (all_sources or m is None) else macros[m]
        if m is None and not all_sources:
            files = []          # quick tier: the harness builds already compile the plain library
        for f in files:
            lo = objfile() if all_sources else None
            if lo:
                objs.setdefault((m or '(none)', 'library'), []).append((lo, f))
            jobs.append((m, 'library', f, D + ['-DQTLOGGER_STATIC', '-I' + os.path.join(repo, 'src'), '-I' + os.path.join(repo, 'src', 'qtlogger')] + cf + [f], lo, False))
    sym = {}
    try:
        with concurrent.futures.ThreadPoolExecutor(max_workers=min(12 if all_sources else 8, vlib.NCPU)) as ex:
            outs = list(ex.map(lambda j: syntax_check(j[3], j[4], j[5]), jobs))
        # ---- symbols: what the library objects define (functions, T/t) must be defined by the header TU as well
        ok_of = {(j[0] or '(none)', j[1], j[2]): o[0] for j, o in zip(jobs, outs)}
        try:
            vlib.build_harness('header')     # makes sure build/libqtlogger.a and build/lib/*.o are current
            libdir = os.path.join(vlib.BUILD, 'lib')
            default_objs = [(os.path.join(d, f), os.path.join(d, f)[len(libdir) + 1:-2] + '.cpp') for d, _, fs in os.walk(libdir) for f in fs
                            if f.endswith('.o') and not f.startswith('moc_')]
        except RuntimeError as e:
            default_objs = []
            chk.broke('the library does not build: ' + str(e)[-300:], {'kind': 'library-build'})
        objs[(DEFAULT, 'library')] = default_objs
        for (cfgname, side), lst in list(objs.items()):
            if side != 'library':
                continue
            hobj = objs.get((cfgname, 'header'), [None])[0]
            if not hobj or not os.path.exists(hobj):
                continue
            hs = defined_symbols(hobj)
            # every function/object the header TU defines must be weak/COMDAT or local, never a strong global
            # definition (two translation units including the header would collide at link time)
            strong = sorted(defined_symbols(hobj, 'TDBRGSC'))
            if strong and 'strong' not in sym:
                sym['strong'] = strong[:20]
                chk.fail('qtlogger.h defines %s as a strong (non-inline) global symbol%s: a second translation unit including the header cannot be linked'
                         % (strong[0], (' (and %d more)' % (len(strong) - 1)) if len(strong) > 1 else ''),
                         {'kind': 'header-not-usable-from-two-translation-units', 'symbol': strong[0], 'all_strong_symbols': strong[:20], 'configuration': cfgname,
                          'how': 'g++ -c -fkeep-inline-functions user.cpp (#include "qtlogger.h"); nm -C --defined-only user.o | grep " T .*QtLogger::"'},
                         kind='header-not-usable-from-two-translation-units')
            miss = []
            nlib = 0
            for lo, f in lst:
                if not os.path.exists(lo):
                    continue
                ls = defined_symbols(lo, 'Tt')
                nlib += len(ls)
                miss += [(os.path.relpath(f, repo) if os.path.isabs(f) else 'src/qtlogger/' + f, x) for x in sorted(ls - hs)]
            sym[cfgname] = {'strong_global_definitions_in_header_tu': len(strong), 'library_function_symbols': nlib, 'defined_by_header_tu': nlib - len(miss), 'header_symbols': len(hs)}
            if miss:
                f0, s0 = miss[0]
                chk.fail('with %s the header defines fewer functions than the library build: %s (from %s) is defined by the library objects but not by a '
                         'translation unit that includes qtlogger.h (%d symbols missing, from %s)'
                         % (cfgname, s0, f0, len(miss), sorted({f for f, _ in miss})[:8]),
                         {'kind': 'source-missing-from-header', 'configuration': cfgname, 'symbol': s0, 'file': f0, 'missing_symbols': len(miss),
                          'files_with_missing_symbols': sorted({f for f, _ in miss})[:20], 'more_symbols': [x for _, x in miss[1:6]],
                          'how': 'g++ -c -fkeep-inline-functions -D<macros> user.cpp (#include "qtlogger.h"); nm -C --defined-only; compare with nm of the library objects'},
                         kind='source-missing-from-header')
    finally:
        shutil.rmtree(tu, ignore_errors=True)
    chk.cov['symbol_comparison'] = sym
    table = {}
    for (m, side, f, _, _, _), (ok, err) in zip(jobs, outs):
        if m == DEFAULT:
            if not ok:
                chk.broke('the header does not compile in the configuration of the harnesses: ' + err, {'kind': 'header-default-configuration', 'error': err})
            continue
        e = table.setdefault(m or '(none)', {'header': None, 'library': True, 'library_files': 0, 'errors': []})
        if side == 'header':
            e['header'] = ok
            if not ok:
                e['errors'].append('qtlogger.h: ' + err)
        else:
            e['library_files'] += 1
            if not ok:
                e['library'] = False
                e['errors'].append(os.path.relpath(f, repo) + ': ' + err)
    agree = 0
    for m, e in table.items():
        if e['library_files'] == 0:
            e['library'] = None
        if e['header'] is False and e['library'] is not False:
            chk.fail('with -D%s the single header qtlogger.h does not compile although the library sources do: %s' % (m, e['errors'][0]),
                     {'kind': 'header-only-configuration-does-not-compile', 'macro': m, 'header_compiles': False,
                      'library_sources_compile': e['library'], 'library_files_checked': e['library_files'], 'first_error': e['errors'][0],
                      'how': 'echo \'#include "qtlogger.h"\' | g++ -std=c++17 -fsyntax-only -D%s -I/repo $(pkg-config --cflags Qt5Core) -x c++ -' % m},
                     kind='header-only-configuration-does-not-compile')
        elif e['header'] is True and e['library'] is False:
            chk.fail('with -D%s the library sources do not compile although the single header does: %s' % (m, e['errors'][0]),
                     {'kind': 'library-configuration-does-not-compile', 'macro': m, 'header_compiles': True, 'library_sources_compile': False,
                      'first_error': e['errors'][0]}, kind='library-configuration-does-not-compile')
        else:
            agree += 1
    chk.cov['configurations_compiled'] = {m: {'header': e['header'], 'library': e['library'], 'library_files': e['library_files'],
                                              'note': (e['errors'][0][:160] if e['errors'] else '')} for m, e in table.items()}
    chk.cov['configurations_agreeing'] = agree
    return len(table)


# ---- the compiled text of the header vs the compiled text of the sources (checks/c20_decl.py) and start-up code whose
#      execution depends on the link (checks/c20_init.py) ------------------------------------------------------------
def declarations_leg(chk, repo):
    from checks import c20_decl
    feats = feature_macros(repo)
    have_net = vlib.sh('pkg-config --exists Qt5Network')[0] == 0
    combined = [m for m in ('QTLOGGER_SYSLOG', 'QTLOGGER_DEBUG', 'QTLOGGER_NO_THREAD', 'QTLOGGER_VERIF') if m in feats or m == 'QTLOGGER_VERIF']
    combined += ['QTLOGGER_NETWORK'] if (have_net and 'QTLOGGER_NETWORK' in feats) else []
    configs = [[], combined] + [[m] for m in feats if [m] != combined]
    return c20_decl.declarations_leg(chk, repo, configs, qt_cflags())


def initialisers_leg(chk, repo):
    from checks import c20_init
    return c20_init.initialisers_leg(chk, repo, qt_cflags())


# ---- edited copies of the tree: more "programs" for the model <-> generator correspondence -----------
def edit_tree(top, rng, n):
    """apply a few random edits below <top>/src/qtlogger; returns a description"""
    root = os.path.join(top, 'src', 'qtlogger')
    files = sorted(os.path.relpath(os.path.join(d, f), root) for d, _, fs in os.walk(root) for f in fs if f.endswith(('.h', '.cpp')))
    dirs = sorted({os.path.dirname(f) for f in files})
    heads = [f for f in files if f.endswith('.h')]
    desc = []

    def insert(rel, text, where=None):
        p = os.path.join(root, rel)
        lines = open(p, encoding='utf-8').read().split('\n')
        k = rng.randint(0, len(lines)) if where is None else where
        lines[k:k] = text.split('\n')
        open(p, 'w', encoding='utf-8').write('\n'.join(lines))
        desc.append('%s:%d: +%r' % (rel, k + 1, text[:70]))

    for e in range(n):
        kind = rng.choice(['newhdr', 'dup', 'odd', 'blank', 'newcpp', 'delinc', 'pragma', 'marker'])
        tgt = rng.choice(files)
        if kind == 'newhdr':
            d = rng.choice(dirs)
            name = 'extra_%d_%d.h' % (e, rng.randint(0, 99))
            open(os.path.join(root, d, name), 'w').write('// Copyright (C) nobody\n// SPDX-License-Identifier: MIT\n\n#pragma once\n\n'
                                                         '#include "logger_global.h"\n#include "%s"\n\nint extra_%d();\n' % (os.path.basename(rng.choice(heads)), e))
            spell = rng.choice([name, os.path.join(d, name) if d else name, '../' + name, './' + name, (d + '//' + name) if d else name])
            insert(tgt, '#include "%s"' % spell)
            desc.append('new %s' % os.path.join(d, name))
        elif kind == 'dup':
            h = rng.choice(heads)
            insert(tgt, '#include "%s"' % rng.choice([os.path.basename(h), h, '../' + os.path.basename(h)]))
        elif kind == 'odd':
            insert(tgt, rng.choice(['#  include "logger.h"', '#\tinclude "sink.h"', '#include "nonexistent_%d.h"' % e, '#include "sinks"',
                                    '#include  "logger.h"', '#include "', '#include ""', '#\ninclude "handler.h"', 'x = "#include"; // "q"',
                                    '#include "../../../../x.h"', '#include "formatters/../sink.h"', '# include <QString>',
                                    '#include "a\nb.h"', '#include "qtlogger.h"',
                                    '/* #include "logger.h" */', '// see #include "sink.h"', '/*\n * #include "handler.h"\n */', 'const char *inc = "#include \\"filter.h\\"";']))
        elif kind == 'blank':
            insert(tgt, '\n' * rng.randint(1, 5))
        elif kind == 'newcpp':
            d = rng.choice(dirs + ['build', '.hidden', 'sinks/build', 'zz'])
            os.makedirs(os.path.join(root, d), exist_ok=True)
            name = rng.choice(['aaa_%d.cpp', 'zzz_%d.cpp', '.dot_%d.cpp', 'Upper_%d.cpp']) % e
            open(os.path.join(root, d, name), 'w').write('// SPDX-License-Identifier: MIT\n#include "logger.h"\n#include "%s"\nint f_%d() { return %d; }\n'
                                                         % (os.path.basename(rng.choice(heads)), e, e))
            desc.append('new %s' % os.path.join(d, name))
        elif kind == 'delinc':
            p = os.path.join(root, tgt)
            lines = open(p, encoding='utf-8').read().split('\n')
            idx = [i for i, l in enumerate(lines) if l.startswith('#include "')]
            if idx:
                i = rng.choice(idx)
                desc.append('%s:%d: -%r' % (tgt, i + 1, lines[i]))
                del lines[i]
                open(p, 'w', encoding='utf-8').write('\n'.join(lines))
        elif kind == 'pragma':
            insert(tgt, rng.choice(['#pragma once', 'int x; #pragma once // twice #pragma once', '#pragma  once', '#pragma onc', '#pragma #pragma once']))
        elif kind == 'marker':
            insert(tgt, rng.choice(['int y; // SPDX-tail', '/// Copyright in a doc comment', '// Copyrigh', '//  SPDX with two blanks', 'const char *s = "// SPDX";']))
    return desc


def validate_tree(model, top):
    g, gerr = run_generator(top)
    m, info, merr = run_model(model, top)
    return g, m, info, gerr or merr


def run():
    chk = vlib.Check('C20', level='translation_validation')
    chk.trusted = ['Coq 8.16.1 kernel; no axioms (every Print Assumptions: Closed under the global context)',
                   'extraction ExtrOcamlBasic, no Extract Constant; ocaml/drv_amalgam.ml (directory walk, bytes <-> N)',
                   'python3 and the project generator tools/gen_qtlogger.h.py run on a scratch copy',
                   'checks/c20.py: byte comparison and diff',
                   'the Gallina model is tied to the generator by running both (leg iii), not by proof',
                   'checks/c20_cond.py (directive scanner, marker instrumentation of a scratch copy, condition translator) and g++ -E as the reference '
                   'for which conditional groups a build enters; harness/h_header_exit.cpp + GNU ld initialisation order for the whole-process leg']
    chk.assumptions = ['the distribution header is /repo/qtlogger.h, the sources are the working-tree files below /repo/src',
                       'no include resolves outside src/ (absolute path or above the repository root), no CR characters, no symbolic links',
                       'the repository path contains no component called build (the generator would then skip every .cpp)']
    repo = vlib.REPO
    chk.proof(vlib.proof_leg('Properties_C20', []))
    model = vlib.build_model('amalgam')
    thorough = chk.tier == 'thorough'
    committed = open(os.path.join(repo, 'qtlogger.h'), 'rb').read()
    samples, checked, programs, dis_mg = [], 0, 0, 0
    top = scratch_copy(repo)
    try:
        gen, mod, info, err = validate_tree(model, top)
        programs += 1
        if gen is None:
            chk.broke('the project generator failed on a scratch copy of the tree: ' + err, {'kind': 'generator-crash', 'stderr': err})
        if mod is None:
            chk.broke('the extracted generator model failed on the tree: ' + err, {'kind': 'model-crash', 'stderr': err})
        # (ii) generator output vs committed header — the property itself
        if gen is not None:
            checked += 1
            h = first_hunk(committed, gen, 'committed_qtlogger_h', 'generated_from_src')
            if h:
                chk.fail('qtlogger.h is not what tools/gen_qtlogger.h.py produces from the current sources: first difference at line %d (block of %s): header has %r, generator gives %r'
                         % (h['line'], h['in_block_of_source_file'], h['committed_qtlogger_h'][:2], h['generated_from_src'][:2]),
                         dict(h, kind='header-differs-from-generator-output', by='project generator on a scratch copy',
                              how='cp -r /repo/{src,tools} <tmp>; python3 <tmp>/tools/gen_qtlogger.h.py; cmp <tmp>/qtlogger.h /repo/qtlogger.h'),
                         kind='header-differs-from-generator-output')
        # (i) model output vs committed header
        if mod is not None:
            checked += 1
            h = first_hunk(committed, mod, 'committed_qtlogger_h', 'model_from_src')
            if h and gen is not None and gen != committed:
                pass   # already reported through (ii); (iii) below says whether the model agrees with the generator
            elif h and gen is None:
                chk.fail('qtlogger.h is not what the generator model produces from the current sources (the generator itself did not run): line %d' % h['line'],
                         dict(h, kind='header-differs-from-generator-output', by='extracted generator model'), kind='header-differs-from-generator-output')
        # (iii) model vs generator
        if gen is not None and mod is not None:
            checked += 1
            h = first_hunk(gen, mod, 'generator', 'model')
            if h:
                dis_mg += 1
                chk.broke('correspondence: the generator model and tools/gen_qtlogger.h.py disagree on the current tree at line %d (block of %s): generator %r, model %r'
                          % (h['line'], h['in_block_of_source_file'], h['generator'][:2], h['model'][:2]), dict(h, kind='model-vs-generator', tree='current'))
        # per-tree side conditions of the theorems, evaluated by the model on this tree
        roots_included = sorted(set(info.get('source', [])) & set(info.get('included', []))) if mod is not None else []
        emitted = info.get('emitted', [])
        dup_emitted = sorted({p for p in emitted if emitted.count(p) > 1})
        if dup_emitted:
            chk.broke('a file body is emitted twice on the current tree: %s (a root source is included by another file: %s)' % (dup_emitted, roots_included),
                      {'kind': 'emitted-twice', 'files': dup_emitted, 'roots_included': roots_included})
        chk.cov['hypothesis_of_C20_included_once'] = {'no_root_source_in_include_set': not roots_included, 'emitted_bodies_distinct': not dup_emitted,
                                                      'directives_met': info.get('directives'), 'kept_verbatim_unresolved': info.get('unresolved'),
                                                      'fuel_ran_out': bool(info.get('starved'))}
        # hypothesis of C20_bodies_start_in_code / C20_file_expansion_is_comment_neutral, decided by the extracted model on this tree
        if mod is not None:
            chk.cov['hypothesis_of_C20_bodies_start_in_code'] = {'includes_outside_comments': bool(info.get('comments_ok')),
                                                                 'files_breaking_it': info.get('include_in_comment', [])[:10]}
            if not info.get('comments_ok'):
                bad = info.get('include_in_comment', [])
                chk.broke('includes_outside_comments is false of the current tree (the hypothesis of C20_bodies_start_in_code): %s an include directive (as the '
                          'generator\'s regex sees it) inside a comment or literal, or ends inside a block comment - the generator pastes the named file INTO the comment '
                          'and its once-only rule drops the real directive' % ((', '.join(bad[:4]) + ' has') if bad else 'a generated block name would open a comment, or a file has'),
                          {'kind': 'include-directive-inside-comment', 'files': bad[:20],
                           'how': 'build/m_amalgam /repo /tmp/out.h | grep -E "comments_ok|include_in_comment"   (paths hex encoded); AmalgamCommentDefs.includes_outside_comments'})
        if info.get('starved'):
            chk.broke('the extracted model reports that its nesting fuel ran out although C20_fuel_sufficient excludes it', {'kind': 'model-starved'})
        samples.append({'tree': 'current /repo working tree', 'files_loaded': info.get('files'), 'root_sources': len(info.get('source', [])),
                        'files_emitted': len(emitted), 'included_set': len(info.get('included', [])), 'header_bytes': len(committed),
                        'generator_equals_header': gen == committed, 'model_equals_header': mod == committed, 'model_equals_generator': gen == mod,
                        'first_emitted': emitted[:4]})
    finally:
        shutil.rmtree(top, ignore_errors=True)
    # edited trees: model <-> generator only
    n_edit = 60 if thorough else 10
    edit_kinds = 0
    for k in range(n_edit):
        top = scratch_copy(repo)
        try:
            desc = edit_tree(top, chk.rng, chk.rng.randint(1, 6))
            gen, mod, info, err = validate_tree(model, top)
            programs += 1
            if gen is None or mod is None:
                chk.broke('generator or model failed on an edited tree: ' + err, {'kind': 'crash-on-edited-tree', 'edits': desc, 'stderr': err})
                continue
            checked += 1
            edit_kinds += len(desc)
            h = first_hunk(gen, mod, 'generator', 'model')
            if h:
                dis_mg += 1
            if h and dis_mg <= 2:
                chk.broke('correspondence: the generator model and tools/gen_qtlogger.h.py disagree on an edited tree (%s) at line %d: generator %r, model %r'
                          % ('; '.join(desc)[:300], h['line'], h['generator'][:2], h['model'][:2]), dict(h, kind='model-vs-generator', tree='edited', edits=desc))
            if k < 3:
                samples.append({'tree': 'edited copy', 'edits': desc, 'generated_bytes': len(gen), 'differs_from_committed': gen != committed,
                                'model_equals_generator': gen == mod, 'files_emitted': len(info.get('emitted', []))})
        finally:
            shutil.rmtree(top, ignore_errors=True)
    checked += 1 if blocks_leg(chk, repo, committed) else 0
    checked += 1 if build_lists_leg(chk, repo) else 0
    checked += 1 if multi_include_leg(chk, repo) else 0
    checked += layout_leg(chk, repo)
    # the two expensive legs run side by side (8 compiler processes + make -j8)
    with concurrent.futures.ThreadPoolExecutor(max_workers=7) as ex2:
        f_t = ex2.submit(two_tu_leg, chk, repo)
        f_c = ex2.submit(configuration_leg, chk, repo, thorough)
        try:        # one make invocation for every harness of the two behaviour legs (they report a failing build themselves)
            build_variants([n for n in ('pattern', 'category', 'header_behaviour', 'header_exit') if os.path.exists(os.path.join(vlib.VERIF, 'harness', 'h_%s.cpp' % n))])
        except RuntimeError:
            pass
        f_b = ex2.submit(behaviour_leg, chk)
        f_p = ex2.submit(process_leg, chk)
        f_k = ex2.submit(conditional_leg, chk, repo)
        f_d = ex2.submit(declarations_leg, chk, repo)
        f_i = ex2.submit(initialisers_leg, chk, repo)
        checked += f_b.result() + f_t.result() + f_p.result() + f_k.result() + f_d.result() + f_i.result()
        n_cfg = f_c.result()
    checked += n_cfg
    if thorough:
        # the committed header at least compiles and links a trivial program
        try:
            exe = vlib.build_harness('header', 'hdr')
            d = tempfile.mkdtemp(prefix='c20_h_')
            rc, so, se = vlib.sh([exe, os.path.join(d, 'x.log')], timeout=60)
            ok = rc == 0 and open(os.path.join(d, 'x.log')).read().strip().endswith('hello')
            shutil.rmtree(d, ignore_errors=True)
            chk.cov['header_only_program'] = 'built and ran' if ok else 'ran with rc=%s' % rc
            if not ok:
                chk.broke('a trivial program built from qtlogger.h alone does not run', {'kind': 'header-program', 'rc': rc, 'stderr': se[-400:]})
        except RuntimeError as e:
            chk.fail('qtlogger.h does not compile/link as a single header', {'kind': 'header-does-not-compile', 'log': str(e)[-1500:]}, kind='header-does-not-compile')
    chk.cov.update({'programs': programs, 'disagreements_checked': checked, 'model_vs_generator_disagreements': dis_mg,
                    'evaluations': programs + chk.cov.get('whole_process_programs', {}).get('program_runs_compared', 0)
                                   + chk.cov.get('conditional_groups', {}).get('model_runs_compared_with_gxx_E', 0),
                    'distinct_nontrivial': programs + chk.cov.get('whole_process_programs', {}).get('distinct_programs', 0)
                                           + chk.cov.get('conditional_groups', {}).get('model_runs_compared_with_gxx_E', 0),
                    'evaluations_are': 'source trees (byte comparisons) + whole-process program runs compared with the library build + translation units x '
                                       'configurations on which the conditional-group model was compared with g++ -E',
                    'rule': 'program = one state of the source tree: the current working tree (three byte comparisons: generator/header, '
                            'model/header, model/generator) plus copies with 1-6 random edits (new headers/sources incl. build and hidden '
                            'directories, duplicate/odd/unresolvable/multi-line include directives, pragma and licence markers, blank runs, '
                            'deleted includes) for the model/generator comparison; every edited tree differs from the others; in addition the '
                            'header alone and the library sources are compiled (-fsyntax-only) without and with every single feature macro the '
                            'sources test and must agree (quick: library files that mention the macro; thorough: all library files); '
                            'whole-process programs: early phase (global constructor) / main phase / ending over the ops of harness/h_header_exit.cpp, '
                            'fixed idioms first (incl. boundary arguments: maxFileCount -1/0/1/2, maxFileSize -1/0/1, empty path, empty pattern, null '
                            'pointers), then random; every program runs as the library build with QT_NO_DEBUG in the library only (reference), header-only '
                            'without and with QT_NO_DEBUG, header-only with typical user flags; conditional groups: every translation unit of the library (each .cpp, the umbrella header as a '
                            'library user sees it) and the generated header, without feature macros and with the combinable ones (thorough: each single one)',
                    'edits_applied': edit_kinds, 'exhaustive': False})
    chk.samples = samples + chk.samples
    return chk.finish()


def replay(path):
    r = json.load(open(path))
    print(json.dumps(r['replay'], indent=1)[:3000])
    model = vlib.build_model('amalgam')
    top = scratch_copy(vlib.REPO)
    try:
        gen, mod, info, err = validate_tree(model, top)
    finally:
        shutil.rmtree(top, ignore_errors=True)
    committed = open(os.path.join(vlib.REPO, 'qtlogger.h'), 'rb').read()
    print('now: generator == header:', gen == committed, '| model == header:', mod == committed, '| model == generator:', gen == mod)
    rr = r['replay'] if isinstance(r['replay'], dict) else {}
    if rr.get('kind') == 'header-only-process-behaviour-differs' and rr.get('program'):
        exes = build_variants(['header_exit'])['header_exit']
        exes = (rel_exe('header_exit'), exes[1], exes[0])
        hdr = exes[1]
        for t, fl in USER_FLAGS.items():
            if rr.get('build', '').endswith(' '.join(fl)):
                hdr = build_user_variant('header_exit', t)[0] or hdr
        prog = prog_of_text(rr['program'])
        a, b = run_program(exes[0], prog), run_program(hdr, prog)
        print('program', rr['program'], '(syntax: harness/h_header_exit.cpp)')
        print('library build (as CMake builds it: -DQT_NO_DEBUG in the library only):', json.dumps(describe_obs(a), indent=1))
        print('header-only build (%s):' % (rr.get('build') or 'header-only'), json.dumps(describe_obs(b), indent=1))
        print('differs in:', obs_diff(a, b) or 'nothing (not reproduced)')
        print('library build without QT_NO_DEBUG (CMake Debug configuration) differs from that header-only build in:', obs_diff(run_program(exes[2], prog), b) or 'nothing')
        return 0
    if isinstance(r['replay'], list) and any(isinstance(x, dict) and str(x.get('kind', '')).startswith(('conditional-', 'cond-', 'known-conditional')) for x in r['replay']):
        chk = vlib.Check('C20', level='translation_validation')
        conditional_leg(chk, vlib.REPO)
        print('now:', json.dumps(chk.cov.get('conditional_groups', {}), indent=1)[:2500])
        for w, _ in chk.broken:
            print('STILL:', w)
        return 0
    if rr.get('macro'):
        m = rr['macro']
        tu = tempfile.mkdtemp(prefix='c20_cfg_')
        open(os.path.join(tu, 'user.cpp'), 'w').write('#include "qtlogger.h"\nint main() { return 0; }\n')
        D = [] if m == '(none)' else ['-D' + m]
        print('header alone with', D, '->', syntax_check(D + ['-I' + vlib.REPO] + qt_cflags() + [os.path.join(tu, 'user.cpp')]))
        for f in feature_macros(vlib.REPO).get(m, []):
            print('library', os.path.relpath(f, vlib.REPO), '->', syntax_check(D + ['-DQTLOGGER_STATIC', '-I' + os.path.join(vlib.REPO, 'src'),
                  '-I' + os.path.join(vlib.REPO, 'src', 'qtlogger')] + qt_cflags() + [f]))
        shutil.rmtree(tu, ignore_errors=True)
    for a, b, x, y in ((committed, gen, 'committed_qtlogger_h', 'generated_from_src'), (gen, mod, 'generator', 'model')):
        if a is not None and b is not None and a != b:
            print(json.dumps(first_hunk(a, b, x, y), indent=1))
    return 0
