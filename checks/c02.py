"""C02 — Concurrent logging is exactly-once, mutually exclusive and order-preserving."""
import concurrent.futures, glob, json, os, re, subprocess
import vlib

META = {
    'id': 'C02',
    'level': 'proof',
    'technique': 'Coq proof over ALL interleavings of a lock-skeleton interpreter (generic in the skeleton translated from '
                 'the source) + extracted trace acceptor run on ticketed traces of the real library under seeded schedule perturbation',
    'text': 'Properties_C02.v proves, for every skeleton satisfying the decidable predicate `bracketed`, any thread count, any '
            'per-thread message count and any schedule: mutual exclusion of the pipeline, serialisability in lock-acquisition order, '
            'exactly-once, per-thread order, consecutive sequence numbers, no lost counter update (counter++ modelled as read+write), '
            'and that removing the locks loses an update. The skeletons of Logger::processMessage / OwnThreadHandler::process are '
            're-translated from /repo on every run and must pass `bracketed` by computation. Partial tie: the real code is connected '
            'by the translated skeleton and by recorded traces (N producer threads through qInfo/qWarning and through a bare handler) '
            'that must be accepted by the extracted acceptor (every model trace is accepted - proved) and satisfy the extracted oracle. '
            'Round 4: (e) the asynchronous->synchronous transition (resetOwnThread while producers keep logging): a second interleaving '
            'model (producers, the lock-free worker, the resetting thread interpreting the translated ORDER of drain/quit/clear) whose '
            'every run, for every reset program with `reset_ok`, is simulated by the SAME acceptor (mutual exclusion worker/producer, '
            'exactly once, per-thread order, consecutive numbers, no stranded message; clear-before-drain refuted); scenario resetwhile. '
            '(f) signal sinks: Qt AutoConnection delivery rule as an acceptor over (sink delivery, emission, reception) traces, proved: '
            'emission in pipeline order, receiver exactly once and per-thread order, pipeline order at the receiver when its own thread '
            'does not log; scenarios signal / signalmain with the library\'s own sendToSignal connection.',
    'note': 'Trusted: Coq 8.16.1 kernel (vm_compute only on closed terms: bracketed src_*, the refutation witness, the examples); '
            'no axioms; tools/s2c/conc.py (textual, brace-aware skeleton translation; unknown protocol-touching statements abort it); '
            'extraction (ExtrOcamlBasic) + ocaml/drv_conc.ml; harness/h_conc.cpp (global atomic ticket taken only inside the '
            "harness's own handlers and hook). Modelled, not verified: QMutex/QRecursiveMutex, the C++ memory model (data races "
            'below the granularity of the model are sampled by a TSan run in the thorough tier, supporting evidence only), '
            'g_activeLogger publication (installed before producers start), recursion of the logger mutex; round 4: Qt posted-event '
            'FIFO per receiver, QThread::quit()/wait() (returns once the current event is finished), Qt AutoConnection = direct call in '
            'the receiver\'s thread / queued FIFO otherwise (what the acceptor accept_sig encodes), m_pendingCount abstracted to '
            '|queue| + worker-inside; resetOwnThread() enters the model only through the ORDER of drain / quit / clear (tools/s2c/conc.py '
            'checks that the mutex is taken first by a QMutexLocker and released only inside the drain loop).',
    'design_ref': 'DESIGN.md section 4, C02',
    'engine': 'coq+extraction+harness',
}

NS = [2, 4, 8, 16, 32, 64]
SIGNAL_MODES = ('signal', 'signalmain', 'baresignal', 'baresignalmain')
SLOW_RESET_MODES = ('resetslow', 'bareresetslow')
RESET_MODES = ('resetwhile', 'bareresetwhile') + SLOW_RESET_MODES
ALL_MODES = ('logger', 'bare', 'mixed', 'fatal', 'mixed+fatal', 'throw', 'throwlogger', 'filtered', 'pattern', 'twopipes', 'filesink') + SIGNAL_MODES + RESET_MODES


def nprod(cfg):
    """number of producers of a run: in the `...main` signal modes the main thread is producer number n"""
    return cfg['n'] + (1 if cfg['mode'].endswith('signalmain') else 0)


def parse_run(out):
    """-> (header, [tokens]) of the single run in the harness output"""
    lines = out.splitlines()
    hdr = next((l for l in lines if l.startswith('RUN ')), None)
    if hdr is None:
        return None, []
    k = lines.index(hdr)
    toks = lines[k + 1].split() if k + 1 < len(lines) else []
    return hdr, toks


def classify(toks, n, per):
    """direct boolean oracles on the ticketed trace; returns list of (kind, detail, position)"""
    bad = []
    inside = None
    delivered = {}
    nxt = [0] * n
    k_seq = 0
    locked_m = []
    order = []
    for pos, t in enumerate(toks):
        f = t.split('.')
        kind = f[0]
        if kind == '?':
            bad.append(('torn_trace', 'unwritten event slot', pos)); continue
        p, i = int(f[1]), int(f[2])
        if kind == 'E':
            if inside is not None:
                if inside[0] == 'flush':
                    bad.append(('overlap', 'producer %d entered the pipeline with message %d while producer %d was inside Sink::flush() (fatal message %d)' % (p, i, inside[1], inside[2]), pos))
                else:
                    bad.append(('overlap', 'producer %d entered the pipeline with message %d while producer %d was inside with message %d' % (p, i, inside[0], inside[1]), pos))
            inside = (p, i)
        elif kind == 'X':
            sq = int(f[3])
            if inside != (p, i):
                bad.append(('overlap', 'sink received message %d of producer %d while %s was the last to enter' % (i, p, inside), pos))
                if inside is not None and inside[0] == 'flush':
                    continue        # keep the flush interval open: its own exit reports
            inside = None
            if (p, i) in delivered:
                bad.append(('duplicate', 'message %d of producer %d delivered twice' % (i, p), pos))
            delivered[(p, i)] = pos
            if 0 <= p < n:
                if i != nxt[p]:
                    bad.append(('reorder', 'producer %d: message %d delivered where %d was due' % (p, i, nxt[p]), pos))
                nxt[p] = max(nxt[p], i + 1)
            else:
                bad.append(('foreign', 'delivery of an unknown producer %d' % p, pos))
            if sq != k_seq:
                bad.append(('seq_gap', 'delivery #%d carries sequence number %d' % (k_seq, sq), pos))
            k_seq += 1
            order.append((p, i))
        elif kind == 'M':
            if i >= 0:
                locked_m.append((p, i))
        elif kind == 'F':        # Sink::flush entered (fatal path): a sink entry point like send()
            if inside is not None:
                bad.append(('overlap', 'producer %d entered Sink::flush() (fatal message %d) while %s was inside the pipeline' % (p, i, inside), pos))
            inside = ('flush', p, i)
        elif kind == 'G':
            if inside != ('flush', p, i):
                bad.append(('overlap', 'Sink::flush() of producer %d (fatal message %d) ran concurrently with %s' % (p, i, inside), pos))
            inside = None
    for p in range(n):
        for i in range(per):
            if (p, i) not in delivered:
                bad.append(('lost', 'message %d of producer %d never reached the sink' % (i, p), len(toks)))
                break
    # only meaningful when the schedule point inside the critical section fired once per message (it is a hook of the
    # code under test: a rewrite may bypass it, which by itself says nothing about the property)
    if not bad and len(locked_m) == len(order) and locked_m != order:
        bad.append(('acq_order', 'delivery order differs from the order in which the handler mutex was acquired', 0))
    return bad


def split_twopipes(toks, n):
    """mode twopipes: producers with an even number log through pipeline A, the others through pipeline B.
    -> [(name, producers of that pipeline, its tokens with the producers renumbered 0..)]"""
    parts = {0: [], 1: []}
    for t in toks:
        f = t.split('.')
        try:
            p = int(f[1])
        except Exception:
            parts[0].append(t); continue
        f[1] = str(p // 2) if p >= 0 else f[1]
        parts[p & 1 if p >= 0 else 0].append('.'.join(f))
    return [('A', (n + 1) // 2, parts[0]), ('B', n // 2, parts[1])]


def twopipes_verdict(model, cfg, toks):
    """per-pipeline oracles: every pipeline object numbers ITS OWN deliveries 0,1,2,... in delivery order (plus exactly once,
    per-producer order, no overlap within one pipeline); the extracted acceptor/oracle is run on each pipeline's trace.
    -> (violations [(kind, detail, position in that pipeline's trace, pipeline, that trace)], {pipeline: model verdict})"""
    bad, mvs = [], {}
    for name, k, ptoks in split_twopipes(toks, cfg['n']):
        for b in classify(ptoks, k, cfg['per']):
            bad.append((b[0], 'pipeline %s (own SeqNumberAttr from addSeqNumber(), own sink; producers renumbered within the pipeline): %s'
                        % (name, b[1]), b[2], name, ptoks))
        line = '%d %s %s' % (k, ','.join([str(cfg['per'])] * k), ' '.join(t for t in ptoks if t[0] in 'EX'))
        rc, out, _ = vlib.run_lines(model, [line])
        try:
            a, o, pre, tot = (int(x) for x in out[0].split())
            mvs[name] = {'accept': a, 'oracle': o, 'prefix': pre, 'events': tot}
        except Exception:
            mvs[name] = None
    return bad, mvs


def run_one(impl, cfg, timeout=120):
    line = '%s %d %d %d %d %d %d' % (cfg['mode'], cfg['n'], cfg['per'], cfg['seed'], cfg['perturb'], cfg['dup'], cfg.get('stall', 0))
    rc, out, err = vlib.sh([impl], inp=(line + '\n').encode(), timeout=timeout)
    hdr, toks = parse_run(out)
    return rc, hdr, toks, err


def model_verdict(model, cfg, toks):
    line = '%d %s %s' % (nprod(cfg), ','.join([str(cfg['per'])] * nprod(cfg)), ' '.join(t for t in toks if t[0] in 'EX'))
    rc, out, _ = vlib.run_lines(model, [line])
    try:
        a, o, pre, tot = (int(x) for x in out[0].split())
    except Exception:
        return None
    return {'accept': a, 'oracle': o, 'prefix': pre, 'events': tot}


def signal_verdict(model, cfg, toks):
    """extracted acceptor of Qt's AutoConnection delivery rule + extracted oracle on the (X, S, Q) tokens; home = the main thread"""
    line = 'sig %d %s' % (cfg['n'], ' '.join(t for t in toks if t[0] in 'XSQ'))
    rc, out, _ = vlib.run_lines(model, [line])
    try:
        a, o, st, pre, tot = (int(x) for x in out[0].split())
    except Exception:
        return None
    return {'accept': a, 'oracle': o, 'receiver_sees_pipeline_order': st, 'prefix': pre, 'events': tot}


def classify_signal(toks, cfg, strict):
    """direct oracles on what the signal sink emitted (S, observed by a directly connected functor) and on what the receiver
    connected by sendToSignal() got (Q): exactly once, per-producer order, pipeline order (= consecutive sequence numbers)"""
    ent = lambda t: tuple(int(x) for x in t.split('.')[1:4])
    xs = [ent(t) for t in toks if t[0] == 'X']
    ss = [ent(t) for t in toks if t[0] == 'S']
    qs = [ent(t) for t in toks if t[0] == 'Q']
    home = cfg['n']
    bad = []
    for name, what, got in (('S', 'emitted by the signal sink', ss), ('Q', 'received by the sendToSignal() receiver in the main thread', qs)):
        seen = {}
        for k, e in enumerate(got):
            if e in seen:
                bad.append(('signal_duplicate', 'message %d of producer %d (sequence number %d) %s twice' % (e[1], e[0], e[2], what), name, k))
            seen[e] = k
        missing = [e for e in xs if e not in seen]
        if missing:
            e = missing[0]
            foreign = sum(1 for m in missing if m[0] != home)
            bad.append(('signal_lost', '%d of %d messages delivered to the sinks were never %s (%d of them logged by threads other than the '
                        "receiver's), first: message %d of producer %d (sequence number %d)" % (len(missing), len(xs), what, foreign, e[1], e[0], e[2]), name, len(got)))
        for p in sorted(set(e[0] for e in got)):
            mine = [e[1] for e in got if e[0] == p]
            if mine != sorted(mine):
                k = next(j for j in range(1, len(mine)) if mine[j] < mine[j - 1])
                bad.append(('signal_reorder', 'messages of producer %d %s out of order: %d after %d' % (p, what, mine[k], mine[k - 1]), name, 0))
                break
    if ss != xs and not any(b[2] == 'S' for b in bad):
        k = next((j for j in range(min(len(ss), len(xs))) if ss[j] != xs[j]), min(len(ss), len(xs)))
        bad.append(('signal_seq_gap', 'the signal sink emitted sequence number %s as emission #%d (pipeline order has %s there): emissions are '
                    'not in delivery order' % (ss[k][2] if k < len(ss) else '-', k, xs[k][2] if k < len(xs) else '-'), 'S', k))
    home_emits = any(e[0] == home for e in xs)
    if qs != xs and not any(b[2] == 'Q' for b in bad) and (strict or not home_emits):
        k = next((j for j in range(min(len(qs), len(xs))) if qs[j] != xs[j]), min(len(qs), len(xs)))
        kind = 'signal_receiver_overtake' if home_emits else 'signal_seq_gap'
        bad.append((kind, 'the receiver got sequence number %s as delivery #%d (pipeline order has %s there)%s' % (
            qs[k][2] if k < len(qs) else '-', k, xs[k][2] if k < len(xs) else '-',
            ": a message logged by the receiver's own thread is delivered directly and overtakes queued ones" if home_emits else ''), 'Q', k))
    return bad, {'sink_deliveries': len(xs), 'emissions': len(ss), 'receptions': len(qs),
                 'receptions_from_receiver_thread': sum(1 for e in qs if e[0] == home),
                 'receiver_order_differs_from_pipeline_order': int(qs != xs)}


def signal_configs(chk, reps, total):
    """SignalSink scenarios: a directly observed SignalSink + the library's sendToSignal() (string-based AutoConnection) to a
    receiver QObject in the main thread; producers in N other threads (signal) and also in the main thread (signalmain)"""
    cfgs = []
    for _ in range(reps):
        for mode in SIGNAL_MODES:
            for n in chk.rng.sample([2, 4, 8], 2):
                cfgs.append({'mode': mode, 'n': n, 'per': max(4, total // (3 * n)), 'seed': chk.rng.randrange(1, 2 ** 31),
                             'perturb': chk.rng.choice([0, 1, 2]), 'dup': 0, 'stall': 0})
    return cfgs


def reset_configs(chk, reps):
    """the asynchronous -> synchronous transition: resetOwnThread() from one thread while the producers keep logging"""
    cfgs = []
    for _ in range(reps):
        for mode in RESET_MODES:
            for n in chk.rng.sample([2, 4, 8], 2):
                cfgs.append({'mode': mode, 'n': n, 'per': chk.rng.choice([40, 60, 100]), 'seed': chk.rng.randrange(1, 2 ** 31),
                             'perturb': chk.rng.choice([0, 1, 2]), 'dup': chk.rng.choice([0, 0, 1]), 'stall': 0})
        # the last queued message is inside a slow handler (400 ms) when resetOwnThread() is called; the producers log again
        # 100 ms later: nobody enters the pipeline while the worker is inside, the later messages follow the one in flight
        for mode in SLOW_RESET_MODES:
            cfgs.append({'mode': mode, 'n': chk.rng.choice([2, 3, 4]), 'per': chk.rng.choice([4, 6, 10, 20]), 'seed': chk.rng.randrange(1, 2 ** 31),
                         'perturb': chk.rng.choice([0, 1]), 'dup': 0, 'stall': 400})
    return cfgs


def after_marker(toks, cfg):
    """resetslow modes: every message logged after the reset began is delivered after the marker (the message that was in flight)"""
    a = max(1, cfg['per'] // 2)
    pos = {t: k for k, t in enumerate(toks) if t[0] in 'EX'}
    mk = next((k for k, t in enumerate(toks) if t.startswith('X.0.%d.' % a)), None)
    if mk is None:
        return []
    for k, t in enumerate(toks[:mk]):
        f = t.split('.')
        if f[0] == 'X' and int(f[2]) >= a and (int(f[1]), int(f[2])) != (0, a):
            return [('reorder', 'message %s of producer %s, logged after resetOwnThread() had begun, reached the sink before message %d of '
                     'producer 0, which the logger thread was processing when the reset began' % (f[2], f[1], a), k)]
    return []


def shrink_config(cfg, still_fails, budget=14):
    """smaller thread / message counts that still show the violation (schedules are not deterministic: a few tries each)"""
    best = dict(cfg)
    tries = 0
    for key, cands in (('n', (2, 3, 4)), ('per', (3, 6, 12, 25)), ('perturb', (0,))):
        for v in cands:
            if v >= best[key] or tries >= budget:
                continue
            cand = dict(best, **{key: v})
            ok = False
            for k in range(2):
                tries += 1
                if still_fails(dict(cand, seed=cand['seed'] + k)):
                    best = dict(cand, seed=cand['seed'] + k); ok = True
                    break
            if ok:
                break
    return best


def corpus_configs():
    """minimised configurations of past violations (corpus/C02/*.json: lists of configurations), run first"""
    cfgs = []
    for f in sorted(glob.glob(os.path.join(vlib.VERIF, 'corpus', 'C02', '*.json'))):
        try:
            for c in json.load(open(f)):
                cfgs.append({k: c.get(k, 0) for k in ('mode', 'n', 'per', 'seed', 'perturb', 'dup', 'stall')})
        except Exception:
            pass
    return [c for c in cfgs if c['mode'] in ALL_MODES and 1 <= c['n'] <= 64 and 1 <= c['per'] <= 5000]


def gen_configs(chk, reps, total, heavy=False):
    cfgs = []
    for rep in range(reps):
        for mode in ('logger', 'bare'):
            for n in NS:
                cfgs.append({'mode': mode, 'n': n, 'per': max(1, total // n), 'seed': chk.rng.randrange(1, 2 ** 31),
                             'perturb': 3 if heavy else chk.rng.choice([0, 1, 1, 2, 2, 3]), 'dup': chk.rng.choice([0, 0, 1]), 'stall': 0})
    return cfgs


def entry_configs(chk, reps, total):
    """mixed entry points (Qt macros + direct process() on the same installed Logger) and fatal-level messages (flush)"""
    cfgs = []
    for _ in range(reps):
        for mode, ns in (('mixed', (2, 4, 8, 16)), ('fatal', (2, 4, 8))):
            for n in ns:
                cfgs.append({'mode': mode, 'n': n, 'per': max(3, total // n), 'seed': chk.rng.randrange(1, 2 ** 31),
                             'perturb': chk.rng.choice([1, 2, 3]), 'dup': 0, 'stall': 0})
    return cfgs


def mixed_fatal_configs(chk, reps, total):
    """NOT in the default tiers (enable with VERIF_C02_MIXED_FATAL=1; awaiting the coordinator's decision): direct process()
    callers and fatal-level macro callers on the same installed synchronous Logger.  The translated family
    {direct process(), fatal macro} is not guarded by one mutex (static.direct_and_fatal_guarded = false, theorem
    C02_direct_call_vs_fatal_flush_refuted): Sink::flush() runs under the Logger mutex only, Sink::send() of a direct
    caller under the handler mutex only."""
    return [{'mode': 'mixed+fatal', 'n': n, 'per': max(3, total // n), 'seed': chk.rng.randrange(1, 2 ** 31),
             'perturb': chk.rng.choice([0, 1, 2]), 'dup': 0, 'stall': 0} for _ in range(reps) for n in (2, 4, 8)]


def special_configs(chk, reps, total):
    """a user handler that throws once (the caller catches), a fluent-built pipeline with a level filter in front of the
    sequence number (a third of the messages do not qualify), two pipelines under different locks with pattern formatters"""
    cfgs = []
    for _ in range(reps):
        for mode, n, per in (('throw', 4, 100), ('throwlogger', 4, 100), ('filtered', 4, total // 4), ('filtered', 16, total // 16),
                             ('pattern', 4, 1500), ('pattern', 8, 750), ('pattern', 2, 4000),
                             ('twopipes', 2, 300), ('twopipes', 4, total // 4), ('twopipes', 8, total // 8),
                             ('filesink', 4, 250), ('filesink', 8, 125)):
            cfgs.append({'mode': mode, 'n': n, 'per': per, 'seed': chk.rng.randrange(1, 2 ** 31),
                         'perturb': chk.rng.choice([0, 1, 2]), 'dup': 0, 'stall': 0})
    return cfgs


def stall_configs(chk, reps, ms):
    """a handler of long duration: one message keeps the pipeline busy for `ms` while the other producers keep logging"""
    return [{'mode': mode, 'n': 4, 'per': 60, 'seed': chk.rng.randrange(1, 2 ** 31), 'perturb': 1, 'dup': 0, 'stall': ms}
            for _ in range(reps) for mode in ('logger', 'bare')]


def build_tsan():
    """thorough tier only: the same harness under -fsanitize=thread against the single header"""
    exe = os.path.join(vlib.BUILD, 'h_conc.tsan')
    qtcf = subprocess.check_output(['pkg-config', '--cflags', 'Qt5Core'], text=True).split()
    qtld = subprocess.check_output(['pkg-config', '--libs', 'Qt5Core'], text=True).split()
    cmd = ['g++', '-std=c++17', '-O1', '-g', '-fPIC', '-w', '-fsanitize=thread', '-DQTLOGGER_VERIF', '-DVERIF_HEADER_ONLY',
           '-I' + vlib.REPO] + qtcf + [os.path.join(vlib.VERIF, 'harness', 'h_conc.cpp'), '-o', exe] + qtld + ['-lpthread']
    rc, out, err = vlib.sh(cmd, timeout=600)
    return exe if rc == 0 else None, (out + err)[-800:]


def run():
    chk = vlib.Check('C02')
    chk.trusted = ['Coq 8.16.1 kernel; vm_compute only on closed terms (bracketed src_logger_sk / src_handler_sk, refutation witness, examples)',
                   'axioms: none (every Print Assumptions: Closed under the global context)',
                   'tools/s2c/conc.py (logger.cpp, ownthreadhandler.h -> SrcConc.v; aborts on unrecognised protocol statements)',
                   'extraction ExtrOcamlBasic, ocaml/drv_conc.ml; harness/h_conc.cpp (tickets taken only in harness code)',
                   'QMutex / QRecursiveMutex semantics, qInstallMessageHandler dispatch and the C++ memory model are modelled, not verified',
                   'Qt posted-event FIFO, QThread::quit()/wait(), AutoConnection (direct in the receiver thread, queued FIFO otherwise): modelled '
                   '(ConcResetDefs.v, ConcSigDefs.v), tied by the recorded traces of scenarios resetwhile / signal*']
    chk.assumptions = ['the logger is installed before the producers start and outlives them (g_activeLogger races are outside C02)',
                       'handlers do not log recursively; synchronous mode (no worker thread) — or a pipeline moved to its own thread ONCE that '
                       'is reset while producers keep logging (no second moveToOwnThread during the run)',
                       'signal scenarios: the receiver thread runs an event loop / pumps its queue; receiver-side order is claimed only while '
                       'the receiver\'s own thread does not log (AutoConnection delivers those directly: theorem C02_signal_home_thread_overtakes)',
                       'lock steps are atomic and mutexes are exclusive (QMutex correctness)']
    proof_ok = chk.proof(vlib.proof_leg('Properties_C02', ['conc']))
    model = vlib.build_model('conc')
    impl = vlib.build_harness('conc')
    thorough = chk.tier == 'thorough'
    total = 2000
    corpus = corpus_configs()
    cfgs = (corpus + stall_configs(chk, 1, 1300) + special_configs(chk, 3 if thorough else 1, total) + entry_configs(chk, 6 if thorough else 2, total)
            + signal_configs(chk, 4 if thorough else 1, total) + reset_configs(chk, 5 if thorough else 1)
            + gen_configs(chk, 17 if thorough else 4, total))
    signal_strict = os.environ.get('VERIF_C02_SIGNAL_STRICT') == '1'
    mixed_fatal = os.environ.get('VERIF_C02_MIXED_FATAL') == '1'
    if mixed_fatal:
        cfgs += mixed_fatal_configs(chk, 2, total)
    rcs, static_out, _ = vlib.sh([model, 'static'], inp=b'', timeout=30)
    static = dict(kv.split('=') for kv in static_out.split()) if rcs == 0 else {'error': 'model static report failed'}
    if not proof_ok:
        # the skeleton no longer satisfies the obligation (or a proof broke): widen the schedule search
        cfgs += (gen_configs(chk, 5, total, heavy=True) + entry_configs(chk, 4, total) + stall_configs(chk, 1, 2600) + special_configs(chk, 2, total)
                 + signal_configs(chk, 3, total) + reset_configs(chk, 4))
    results = []
    with concurrent.futures.ThreadPoolExecutor(max_workers=4) as ex:
        futs = [(c, ex.submit(run_one, impl, c)) for c in cfgs]
        for c, f in futs:
            results.append((c,) + f.result())
    n_events = n_deliv = 0
    signal_stats = {}
    reset_stats = {'runs_on_worker_thread': 0, 'runs_on_calling_thread': 0, 'transitions_with_both': 0}
    kinds = {}
    switches = 0
    reported = 0
    disagreements = 0
    fmt_checked = 0
    twopipes_runs = 0
    filesink_runs = 0
    for cfg, rc, hdr, toks, err in results:
        if rc != 0 or hdr is None:
            kind = 'hang' if rc == 124 else 'crash'
            kinds[kind] = kinds.get(kind, 0) + 1
            if reported < 3:
                chk.fail('harness %s under concurrent logging (%s, %d threads): memory corruption or deadlock' % (kind, cfg['mode'], cfg['n']),
                         dict(cfg, kind=kind, rc=rc, stderr=err[-600:]), kind=kind)
                reported += 1
            continue
        if ' HANG' in hdr:
            kinds['hang'] = kinds.get('hang', 0) + 1
            if reported < 3:
                done = sum(1 for t in toks if t[0] == 'X')
                chk.fail('hang: after a user handler threw on one message (the caller caught the exception) the logger never delivered '
                         'again: %d of %d messages delivered within 8 s, every later call blocks (mode %s)' % (done, cfg['n'] * cfg['per'], cfg['mode']),
                         dict(cfg, kind='hang', delivered=done, expected=cfg['n'] * cfg['per'], last_events=toks[-8:], header=hdr), kind='hang')
                reported += 1
            continue
        if cfg['mode'] == 'pattern':
            mf = re.search(r'fmt_checked=(\d+) fmt_bad=(\d+) first_bad=(\S+)', hdr)
            fmt_checked += int(mf.group(1)) if mf else 0
            if not mf or int(mf.group(2)) > 0 or int(mf.group(1)) != cfg['n'] * cfg['per']:
                kinds['format_corrupt'] = kinds.get('format_corrupt', 0) + 1
                if reported < 3:
                    fb = (mf.group(3) if mf else '-').split(':')
                    dec = lambda h: bytes.fromhex(h).decode('utf-8', 'replace')
                    det = ({'pipeline': {'L': 'installed Logger, pattern <%{user?1,1}> %{message}', 'A': 'bare handler, pattern [audit] %{message}'}.get(fb[0], fb[0]),
                            'producer': int(fb[1]), 'index': int(fb[2]), 'formatted': dec(fb[3]), 'single_threaded_expectation': dec(fb[4])} if len(fb) == 5 else {})
                    chk.fail('format_corrupt: two pipelines under different locks, each with a PatternFormatter: %s of %s formatted texts differ from '
                             'the single-threaded result, e.g. %r instead of %r' % (mf.group(2) if mf else '?', mf.group(1) if mf else '?',
                                                                                    det.get('formatted'), det.get('single_threaded_expectation')),
                             dict(cfg, kind='format_corrupt', header=hdr[:300], **det), kind='format_corrupt')
                    reported += 1
            continue
        if cfg['mode'] == 'filesink':
            # round 8: a real file sink (fluent sendToFile) behind the recording sink, every fifth text empty: one line per delivery,
            # blank lines included, each producer's lines in its program order
            mf = re.search(r'file_lines=(\d+) file_blank=(\d+) file_bad=(\d+) file_disorder=(\d+)', hdr)
            deliv = sum(1 for t in toks if t[0] == 'X')
            n_events += len(toks); n_deliv += deliv; filesink_runs += 1
            want = cfg['n'] * cfg['per']
            want_blank = cfg['n'] * sum(1 for i in range(cfg['per']) if i % 5 == 2)
            if not mf or deliv != want or [int(x) for x in mf.groups()] != [want, want_blank, 0, 0]:
                kinds['file_sink'] = kinds.get('file_sink', 0) + 1
                if reported < 3:
                    got = dict(zip(('lines', 'blank_lines', 'malformed_lines', 'lines_out_of_program_order'), [int(x) for x in mf.groups()])) if mf else {}
                    chk.fail('file_sink: %d producers x %d messages (every fifth with an empty formatted text) through a bare pipeline with a recording sink and '
                             'a file sink built by sendToFile(): the recording sink got %d deliveries, the file holds %s - expected %d lines of which %d blank, '
                             'none malformed, every producer in program order' % (cfg['n'], cfg['per'], deliv, got or 'nothing readable', want, want_blank),
                             dict(cfg, kind='file_sink', header=hdr[:300], file=got, expected_lines=want, expected_blank=want_blank), kind='file_sink')
                    reported += 1
            continue
        if cfg['mode'] == 'twopipes':
            n_events += len(toks); n_deliv += sum(1 for t in toks if t[0] == 'X'); twopipes_runs += 1
            if 'OVERFLOW' in hdr:
                tbad, tmv = [('duplicate', 'more events than messages allow', len(toks), 'A', toks)], {}
            else:
                tbad, tmv = twopipes_verdict(model, cfg, toks)
            if any(v is None for v in tmv.values()):
                chk.broke('model driver produced no verdict', dict(cfg, kind='driver')); continue
            ex_bad = [b for b in tbad if b[0] != 'acq_order']
            if ex_bad or tbad or any(v['oracle'] == 0 for v in tmv.values()):
                if not tbad:
                    nm = next(k for k, v in tmv.items() if v['oracle'] == 0)
                    tbad = [('oracle', 'pipeline %s: extracted oracle prop_c02_b is false' % nm, tmv[nm]['prefix'], nm,
                             dict((x[0], x[2]) for x in split_twopipes(toks, cfg['n']))[nm])]
                b = (ex_bad or tbad)[0]
                kinds[b[0]] = kinds.get(b[0], 0) + 1
                if reported < 3:
                    def again(c, want=b[0]):
                        rc2, hdr2, toks2, _ = run_one(impl, c)
                        return hdr2 is not None and any(x[0] == want for x in twopipes_verdict(model, c, toks2)[0])
                    small = shrink_config(cfg, again)
                    shrunk_from = None
                    for _ in range(3):
                        rc2, hdr2, toks2, _ = run_one(impl, small)
                        bad2, mv2 = twopipes_verdict(model, small, toks2) if hdr2 else ([], {})
                        if any(x[0] == b[0] for x in bad2):
                            shrunk_from = {'n': cfg['n'], 'per': cfg['per']}
                            cfg, toks, hdr, tbad, tmv, b = small, toks2, hdr2, bad2, mv2, next(x for x in bad2 if x[0] == b[0])
                            break
                    chk.fail('%s: %s (mode twopipes: two pipeline objects in one process, each configured with addSeqNumber() and its own sink; '
                             '%d threads x %d messages, even producers -> pipeline A, odd producers -> pipeline B)' % (b[0], b[1], cfg['n'], cfg['per']),
                             dict(cfg, kind=b[0], detail=b[1], pipeline=b[3], violations_in_this_run=len(tbad), acceptor=tmv, shrunk_from=shrunk_from,
                                  trace_of_that_pipeline_around_violation=b[4][max(0, b[2] - 12):b[2] + 6],
                                  deliveries_of_both_pipelines_in_global_order=[t for t in toks if t[0] == 'X'][:40],
                                  full_trace_events=len(toks), header=hdr), kind=b[0])
                    reported += 1
            elif any(v['accept'] == 0 for v in tmv.values()):
                disagreements += 1
                chk.broke('acceptor rejects a per-pipeline trace that the boolean oracle takes', dict(cfg, kind='acceptor', acceptor=tmv))
            continue
        n_events += len(toks)
        xs = [t for t in toks if t[0] == 'X']
        n_deliv += len(xs)
        switches += sum(1 for a, b in zip(xs, xs[1:]) if a.split('.')[1] != b.split('.')[1])
        bad = classify(toks, nprod(cfg), cfg['per'])
        if cfg['mode'] in SLOW_RESET_MODES:
            bad += after_marker(toks, cfg)
            reset_stats['slow_handler_resets'] = reset_stats.get('slow_handler_resets', 0) + 1
        mv = model_verdict(model, cfg, toks)
        if mv is None:
            chk.broke('model driver produced no verdict', dict(cfg, kind='driver')); continue
        if cfg['mode'] in RESET_MODES:
            mr = re.search(r'worker_runs=(\d+) caller_runs=(\d+)', hdr)
            if mr:
                reset_stats['runs_on_worker_thread'] += int(mr.group(1)); reset_stats['runs_on_calling_thread'] += int(mr.group(2))
                reset_stats['transitions_with_both'] += int(int(mr.group(1)) > 0 and int(mr.group(2)) > 0)
        if cfg['mode'] in SIGNAL_MODES and not bad and mv['oracle'] == 1:
            sv = signal_verdict(model, cfg, toks)
            if sv is None:
                chk.broke('model driver produced no signal verdict', dict(cfg, kind='driver')); continue
            sbad, st = classify_signal(toks, cfg, signal_strict)
            for k, v in st.items():
                signal_stats[k] = signal_stats.get(k, 0) + v
            if sbad or sv['oracle'] == 0:
                b = (sbad or [('signal_oracle', 'extracted oracle prop_sig_b is false', '-', sv['prefix'])])[0]
                kinds[b[0]] = kinds.get(b[0], 0) + 1
                if reported < 3:
                    def again(c, want=b[0]):
                        rc2, hdr2, toks2, _ = run_one(impl, c)
                        return hdr2 is not None and any(x[0] == want for x in classify_signal(toks2, c, signal_strict)[0])
                    small = shrink_config(cfg, again)
                    rc2, hdr2, toks2, _ = run_one(impl, small)
                    sb2 = classify_signal(toks2, small, signal_strict)[0] if hdr2 else []
                    if any(x[0] == b[0] for x in sb2):
                        b = next(x for x in sb2 if x[0] == b[0]); shown, scfg, sv2 = toks2, small, signal_verdict(model, small, toks2)
                    else:
                        shown, scfg, sv2 = toks, cfg, sv
                    sig_toks = [t for t in shown if t[0] in 'XSQ']
                    chk.fail('%s: %s (mode %s, %d producer threads%s x %d messages; receiver and both signal sinks live in the main thread)' % (
                                 b[0], b[1], scfg['mode'], scfg['n'], ' + the main thread' if nprod(scfg) > scfg['n'] else '', scfg['per']),
                             dict(scfg, kind=b[0], detail=b[1], violations_in_this_run=len(sbad), signal_acceptor=sv2,
                                  legend='X = recording sink, S = signal emitted (direct functor), Q = received by the sendToSignal() receiver; <producer>.<index>.<seq>',
                                  trace_sink_emission_reception=sig_toks[:120], full_trace_events=len(shown), shrunk_from={'n': cfg['n'], 'per': cfg['per']}),
                             kind=b[0])
                    reported += 1
                continue
            if sv['accept'] == 0:
                disagreements += 1
                chk.broke('signal acceptor (Qt AutoConnection delivery rule, emission inside the pipeline run) rejects a trace that the '
                          'boolean oracle takes (event %d of the X/S/Q trace): the implementation no longer emits/delivers the way the model says'
                          % sv['prefix'], dict(cfg, kind='signal_acceptor', signal_acceptor=sv,
                                               around=[t for t in toks if t[0] in 'XSQ'][max(0, sv['prefix'] - 6):sv['prefix'] + 4]))
        if 'OVERFLOW' in hdr:
            bad.append(('duplicate', 'more events than messages allow', len(toks)))
        ex_bad = [b for b in bad if b[0] != 'acq_order']
        if mv['oracle'] == 0 or ex_bad or bad:
            b = (ex_bad or bad or [('oracle', 'extracted oracle prop_c02_b is false', mv['prefix'])])[0]
            kinds[b[0]] = kinds.get(b[0], 0) + 1
            if reported < 3:
                shrunk_from = None
                if cfg['mode'] in RESET_MODES + SIGNAL_MODES:
                    def again(c, want=b[0]):
                        rc2, hdr2, toks2, _ = run_one(impl, c)
                        return hdr2 is not None and any(x[0] == want for x in classify(toks2, nprod(c), c['per']))
                    small = shrink_config(cfg, again)
                    for _ in range(3):
                        rc2, hdr2, toks2, _ = run_one(impl, small)
                        bad2 = classify(toks2, nprod(small), small['per']) if hdr2 else []
                        if any(x[0] == b[0] for x in bad2):
                            shrunk_from = {'n': cfg['n'], 'per': cfg['per']}
                            cfg, toks, hdr, bad, b = small, toks2, hdr2, bad2, next(x for x in bad2 if x[0] == b[0])
                            mv = model_verdict(model, cfg, toks) or mv
                            break
                ex_toks = [t for t in toks if t[0] in 'EX']
                at = mv['prefix']
                note = (' [pipeline moved to its own thread, resetOwnThread() called while the producers keep logging: the events of a '
                        'producer\'s message are recorded on the worker thread (posted) or on the producer itself (synchronous again)]'
                        if cfg['mode'] in RESET_MODES else '')
                if cfg['mode'] in SLOW_RESET_MODES:
                    note += (' [message %d of producer 0 is the last queued one; its handler takes %d ms; resetOwnThread() is called once the logger '
                             'thread is inside that handler; the producers log their messages >= %d about %d ms later]'
                             % (max(1, cfg['per'] // 2), cfg.get('stall') or 400, max(1, cfg['per'] // 2), (cfg.get('stall') or 400) // 4))
                chk.fail('%s: %s (mode %s, %d threads x %d messages)%s' % (b[0], b[1], cfg['mode'], cfg['n'], cfg['per'], note),
                         dict(cfg, kind=b[0], detail=b[1], violations_in_this_run=len(bad), acceptor=mv, shrunk_from=shrunk_from,
                              first_rejected_event=at, schedule_up_to_first_rejected_event=ex_toks[max(0, at - 30):at + 1],
                              trace_around_violation=toks[max(0, b[2] - 12):b[2] + 6],
                              full_trace_events=len(toks), header=hdr), kind=b[0])
                reported += 1
        elif mv['accept'] == 0:
            disagreements += 1
            chk.broke('acceptor rejects a trace that the boolean oracle takes (event %d)' % mv['prefix'], dict(cfg, kind='acceptor', acceptor=mv))
    tsan = None
    if thorough:
        exe, log = build_tsan()
        if exe is None:
            tsan = {'built': False, 'log': log}
        else:
            in_lib, in_code, runs, samples = 0, 0, 0, []
            for c in gen_configs(chk, 1, 400)[:8]:
                c = dict(c, dup=1)
                line = '%s %d %d %d %d %d' % (c['mode'], c['n'], c['per'], c['seed'], c['perturb'], c['dup'])
                rc, out, err = vlib.sh([exe], inp=(line + '\n').encode(), timeout=300,
                                       env={'TSAN_OPTIONS': 'halt_on_error=0 exitcode=0 report_signal_unsafe=0'})
                runs += 1
                for rep in err.split('WARNING: ThreadSanitizer')[1:]:
                    first = rep.split('\n\n')[0]
                    top = '\n'.join(re.findall(r'#[0-2] .*', first)[:3])
                    if re.search(r'libQt5Core|libc\.so|tzset', top):
                        in_lib += 1       # access inside an uninstrumented library (refcount free, tz lock): not assessable
                    else:
                        in_code += 1
                        if len(samples) < 3:
                            samples.append(top[:400])
            tsan = {'built': True, 'runs': runs, 'reports_with_both_accesses_in_instrumented_code': in_code,
                    'reports_inside_uninstrumented_libraries': in_lib, 'samples': samples,
                    'note': 'libQt5Core is not instrumented: the contended QMutex path is invisible to TSan, the harness therefore '
                            'announces the lock hand-over at the schedule points; supporting evidence only, never a verdict'}
    chk.cov.update({'evaluations': len(results), 'distinct_nontrivial': sum(1 for r in results if r[2] is not None and len(r[3]) >= 2 * r[0]['n']),
                    'rule': '%d runs = repetitions x {installed Logger via qInfo/qWarning, bare OwnThreadHandler<SimplePipeline>} x '
                            '(plus: installed Logger with mixed entry points = macros + direct process(); installed Logger with '
                            'fatal-level messages through Logger::messageHandler and a sink whose flush() takes tickets) '
                            'N in {2,4,8,16,32,64} producer threads, ~%d messages per run, seeded yields/sleeps/spins at the schedule points, '
                            'plus runs in which one handler call lasts 1.3 s while the other producers keep logging; '
                            'plus SignalSink runs (N producer threads, in signalmain also the main thread, receiver in the main thread) and '
                            'resetwhile runs (asynchronous pipeline with a backlog, resetOwnThread() from another thread while the producers go on) and resetslow runs '
                            '(resetOwnThread() called while the logger thread is inside a 400 ms handler for the last queued message, the producers log again 100 ms later); '
                            'non-trivial = at least two deliveries per producer' % (len(results), total),
                    'events_recorded': n_events, 'deliveries': n_deliv, 'producer_switches_between_consecutive_deliveries': switches,
                    'threads_histogram': {str(n): sum(1 for r in results if r[0]['n'] == n) for n in NS},
                    'mode_histogram': {m: sum(1 for r in results if r[0]['mode'] == m) for m in ALL_MODES},
                    'signal_sinks': dict(signal_stats, strict_receiver_order_oracle_enabled=signal_strict,
                                         note='S = emission observed by a directly connected functor; Q = reception by a QObject in the main '
                                              'thread connected by the library\'s sendToSignal() (string-based AutoConnection)'),
                    'reset_while_logging': reset_stats, 'corpus_configurations': len(corpus),
                    'formatted_texts_compared': fmt_checked, 'two_pipeline_runs_with_per_pipeline_numbering_oracle': twopipes_runs, 'runs_with_a_real_file_sink_and_empty_texts': filesink_runs,
                    'flush_intervals_recorded': sum(sum(1 for t in r[3] if t[0] == 'F') for r in results),
                    'perturb_histogram': {str(p): sum(1 for r in results if r[0]['perturb'] == p) for p in range(4)},
                    'dupfilter_runs': sum(1 for r in results if r[0]['dup']), 'long_handler_runs': sum(1 for r in results if r[0].get('stall')),
                    'static': static, 'mixed_plus_fatal_scenario_enabled': mixed_fatal,
                    'violation_kinds': kinds, 'acceptor_vs_oracle_disagreements': disagreements, 'tsan': tsan})
    chk.samples = [{'config': r[0], 'header': r[2], 'first_events': r[3][:12]} for r in results[:3]]
    return chk.finish()


def replay(path):
    r = json.load(open(path))['replay']
    if isinstance(r, list):
        r = r[0]
    if 'mode' not in r:
        print(json.dumps(r, indent=1)); return 0
    vlib.gen_src(['conc'])
    model = vlib.build_model('conc'); impl = vlib.build_harness('conc')
    cfg = {k: r.get(k, 0) for k in ('mode', 'n', 'per', 'seed', 'perturb', 'dup', 'stall')}
    print('recorded    ', r.get('kind'), r.get('detail'))
    print('recorded schedule (tail):', ' '.join(r.get('schedule_up_to_first_rejected_event', []) or r.get('trace_sink_emission_reception', [])))
    for k in range(5):   # schedules are not deterministic: re-run the same configuration a few times
        rc, hdr, toks, err = run_one(impl, cfg)
        if hdr and cfg['mode'] == 'twopipes':
            tb, tm = twopipes_verdict(model, cfg, toks)
            print('re-run %d: implementation rc=%d %s; per-pipeline violations: %s; model per pipeline: %s' % (k, rc, hdr, [x[:2] for x in tb[:2]], tm))
            continue
        bad = classify(toks, nprod(cfg), cfg['per']) if hdr else [('crash', err[-200:], 0)]
        print('re-run %d: implementation rc=%d %s; violations: %s; model: %s' % (k, rc, hdr, bad[:2], model_verdict(model, cfg, toks) if hdr else None))
        if hdr and cfg['mode'] in SIGNAL_MODES:
            print('          signal sink / receiver: violations: %s; model (Qt AutoConnection delivery rule): %s' % (
                classify_signal(toks, cfg, os.environ.get('VERIF_C02_SIGNAL_STRICT') == '1')[0][:2], signal_verdict(model, cfg, toks)))
    return 0
